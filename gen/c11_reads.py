"""Abstract reads and option sets for C11, and their translation to the real objects.

A read is a dict (the oracle only ever sees this dict); `to_pysam` builds the pysam.AlignedSegment from it.
The space: every read that differs from the plain good read BASE in at most 2 attributes (ALTS), minus incoherent
combinations (an unpaired read has no mate bits; an unmapped read has no CIGAR / MAPQ / proper bit).
Option sets: all assignments of DIMS within a given distance of the default (distance = number of changed options).
"""
import itertools

CONTIGS = [('chr1', 1000), ('chr2', 1000)]
CONTIG_NAMES = [c for c, _ in CONTIGS]
BED = [('chr1', 100, 200, 'regA'), ('chr1', 400, 500, 'regB'), ('chr2', 100, 200, 'regC')]
# deliberately NOT coordinate sorted (a BED file need not be): decoy intervals far from every read precede and follow the hitting one
BLACKLIST = {'chr1': [(900, 950), (400, 500), (10, 20)], 'chr2': [(880, 890), (650, 750)]}

BASE = {'role': 'R1', 'qcfail': False, 'dup': False, 'RR': False, 'mapq': 60, 'proper': True, 'mate_unmapped': False,
        'unmapped': False, 'cigar': '10M', 'NM': 0, 'XA': None, 'NH': None, 'mp': 'unique', 'SM': 'A', 'XT': 'g1',
        'RC': 1, 'contig': 0, 'pos': 120}

# simplest alternatives first
ALTS = [
    ('role', ['R2', 'single']),
    ('qcfail', [True]),
    ('dup', [True]),
    ('RR', [True]),
    ('mapq', [0, 29, 30]),
    ('proper', [False]),
    ('mate_unmapped', [True]),
    ('unmapped', [True]),
    ('cigar', ['4M1I5M', '5M1D5M', '2S8M']),
    ('NM', [1, 2, None]),
    ('XA', ['chr2,+3,10M,0;', 'chr1_alt,+3,10M,0;', 'chr1_alt,+3,10M,0;chr2,-7,10M,1;']),
    ('NH', [1, 3]),
    ('mp', ['bad', None]),
    ('SM', ['B']),
    ('XT', ['g2', 0]),      # 0: a present but falsy feature value
    ('RC', [3]),
    ('contig', [1]),
    ('pos', [420, 700]),
]


def _coherent(changes):
    ch = dict(changes)
    if ch.get('role') == 'single' and ('proper' in ch or 'mate_unmapped' in ch):
        return False
    if 'unmapped' in ch and ('mapq' in ch or 'cigar' in ch or 'proper' in ch):
        return False
    if 'mate_unmapped' in ch and 'proper' in ch:
        return False
    return True


def _normalise(rd):
    if rd['role'] == 'single':
        rd['proper'] = False
        rd['mate_unmapped'] = False
    if rd['mate_unmapped'] or rd['unmapped']:
        rd['proper'] = False
    if rd['unmapped']:
        rd['mapq'] = 0
    return rd


def all_reads(max_changes=2):
    """[(changes, read dict)] - deterministic order, simplest first; every read gets its index as 'ri'."""
    out = []
    singles = [(a, v) for a, vals in ALTS for v in vals]
    combos = [()]
    for k in range(1, max_changes + 1):
        for c in itertools.combinations(singles, k):
            if len(set(a for a, _ in c)) == k and _coherent(c):
                combos.append(c)
    for i, c in enumerate(combos):
        rd = dict(BASE)
        for a, v in c:
            rd[a] = v
        _normalise(rd)
        rd['ri'] = f'r{i:04d}'
        out.append(rd)
    return out


def never_ambiguous(rd):
    """reads whose treatment the documentation settles under EVERY option set"""
    if rd['role'] == 'single' or rd['NM'] is None or rd['mp'] not in ('unique', 'bad'):
        return False
    if rd['XA'] is not None and rd['NH'] is not None:
        n = len([e for e in rd['XA'].split(';') if e]) + 1
        if n != rd['NH']:
            return False
    return True


def to_pysam(rd, hdr):
    from gen import c10_counttable as G
    tags = [('SM', rd['SM']), ('XT', rd['XT']), ('RC', rd['RC']), ('ri', rd['ri'])]
    if rd['NM'] is not None:
        tags.append(('NM', rd['NM']))
    if rd['XA'] is not None:
        tags.append(('XA', rd['XA']))
    if rd['NH'] is not None:
        tags.append(('NH', rd['NH']))
    if rd['mp'] is not None:
        tags.append(('mp', rd['mp']))
    if rd['RR']:
        tags.append(('RR', 'NoCutSite'))
    paired = rd['role'] != 'single'
    return G.mk_read(hdr, 'q' + rd['ri'], contig_index=rd['contig'], pos=rd['pos'], cigar=rd['cigar'], mapq=rd['mapq'],
                     tags=tags, paired=paired, read2=(rd['role'] == 'R2'), proper=(rd['proper'] if paired else False),
                     mate_unmapped=rd['mate_unmapped'], unmapped=rd['unmapped'], qcfail=rd['qcfail'],
                     duplicate=rd['dup'], reverse=(rd['role'] == 'R2'), mate_pos=rd['pos'])


# ------------------------------------------------------------------------------------------------ options

BOOLS = ['r1only', 'r2only', 'filterMP', 'proper_pairs_only', 'no_indels', 'no_softclips', 'filterXA', 'dedup',
         'divideMultimapping', 'doNotDivideFragments', 'blacklist']
DIMS = [(b, [False, True]) for b in BOOLS] + [('minMQ', [0, 30]), ('max_base_edits', [None, 1, 0]),
                                              ('features', ['joined', 'single', 'joined+byValue'])]
DEFAULT = {d: vals[0] for d, vals in DIMS}
SHARD_DIMS = BOOLS[:5]          # level-1 shards fix these five booleans


def distance(opt):
    return sum(1 for d, vals in DIMS if opt[d] != vals[0])


def option_sets(max_distance, fixed=None):
    """every option set within max_distance of the default (optionally with some options fixed); simplest first"""
    fixed = fixed or {}
    free = [(d, vals) for d, vals in DIMS if d not in fixed]
    base_d = sum(1 for d, v in fixed.items() if v != DEFAULT[d])
    out = []
    for combo in itertools.product(*[range(len(vals)) for _, vals in free]):
        dist = base_d + sum(1 for i in combo if i)
        if dist > max_distance:
            continue
        opt = dict(fixed)
        for (d, vals), i in zip(free, combo):
            opt[d] = vals[i]
        out.append((dist, opt))
    out.sort(key=lambda t: t[0])
    return [{d: o[d] for d, _ in DIMS} for _, o in out]


def feature_args(opt):
    """command-line arguments of the three feature modes"""
    if opt['features'] == 'single':
        return {'featureTags': 'XT,chrom', 'joinedFeatureTags': None, 'byValue': None}
    if opt['features'] == 'joined':
        return {'featureTags': None, 'joinedFeatureTags': 'XT,chrom', 'byValue': None}
    return {'featureTags': None, 'joinedFeatureTags': 'XT,chrom', 'byValue': 'RC'}


def make_args(opt, **extra):
    from gen import c10_counttable as G
    kw = {k: opt[k] for k in BOOLS if k != 'blacklist'}
    kw['minMQ'] = opt['minMQ']
    kw['max_base_edits'] = opt['max_base_edits']
    kw.update(feature_args(opt))
    kw.update(extra)
    return G.default_args(**kw)


# the same blacklist keyed by contig INDEX: the form the oracle (which only knows abstract reads) uses
BLACKLIST_IDX = {CONTIG_NAMES.index(c): v for c, v in BLACKLIST.items()}
