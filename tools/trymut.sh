#!/bin/bash
# usage: tools/trymut.sh <ID> <file-relative-to-repo> <python-expr old> <new>   (literal string replace, must match once)
# copies /repo to /dev/shm, applies the replacement, runs the quick check against the copy, removes the copy
ID=$1; F=$2; OLD=$3; NEW=$4
D=$(mktemp -d /dev/shm/scmo_mut_XXXX)
rsync -a --exclude .git --exclude "data/*.unsorted.bam" /repo/ $D/
/venv/bin/python - "$D/$F" "$OLD" "$NEW" <<'PY'
import sys
p,old,new=sys.argv[1:4]
s=open(p).read()
n=s.count(old)
if n!=1:
    print('MUTATION DID NOT APPLY: count=',n); sys.exit(3)
open(p,'w').write(s.replace(old,new))
PY
rc=$?
if [ $rc -eq 0 ]; then
  (cd /verif && VERIF_REPO=$D VERIF_EVIDENCE_DIR=$D/_ev ./check $ID ${TIER:+--tier $TIER} 2>&1 | grep -E "VIOLATION|signature=|ERROR|tier=" | head -${LINES_MAX:-8})
fi
rm -rf $D
