"""Shared generator helpers for the count-table properties (C10, C11).

* `argparser()` / `default_args(**over)`: the REAL argument parser of bamToCountTable.py.  The parser only exists
  inside the module's `if __name__ == '__main__':` block, so its construction statements are taken from the module
  source (AST) and executed - everything except `parse_args()` / `create_count_table(...)`.  Defaults therefore
  always are the ones of the tree under test, and a vanished option is a loud harness error.
* `header(contigs)`, `mk_read(...)`: in-memory pysam.AlignedSegment construction.
* `write_bam(path, header, reads)`: coordinate-sorted, indexed BAM.
* `table_to_dict(df)`: canonical {(sample tuple, key tuple): float} of the DataFrame create_count_table returns.
* `counter_to_dict(countTable)`: the same canonical form of the in-memory countTable assignReads fills.
"""
import ast
import contextlib
import copy
import io
import math
import os

import pysam

from mc.bind import HarnessError

_PARSER = None

# every option the checks rely on; a missing one means the seam moved
REQUIRED_OPTIONS = ['alignmentfiles', 'o', 'featureTags', 'joinedFeatureTags', 'sampleTags', 'head', 'bulk', 'r1only',
                    'r2only', 'splitFeatures', 'featureDelimiter', 'contig', 'divideMultimapping',
                    'doNotDivideFragments', 'sliding', 'keepOverBounds', 'bin', 'binTag', 'byValue', 'blacklist',
                    'bedfile', 'proper_pairs_only', 'no_softclips', 'max_base_edits', 'no_indels', 'dedup', 'minMQ',
                    'filterMP', 'filterXA', 'noNames', 'showtags']


def _is_main_test(t):
    return (isinstance(t, ast.Compare) and isinstance(t.left, ast.Name) and t.left.id == '__name__'
            and len(t.comparators) == 1 and isinstance(t.comparators[0], ast.Constant)
            and t.comparators[0].value == '__main__')


def _calls(stmt, names):
    for n in ast.walk(stmt):
        if isinstance(n, ast.Call):
            f = n.func
            if isinstance(f, ast.Attribute) and f.attr in names:
                return True
            if isinstance(f, ast.Name) and f.id in names:
                return True
    return False


def argparser():
    global _PARSER
    if _PARSER is not None:
        return _PARSER
    from singlecellmultiomics.bamProcessing import bamToCountTable as T
    with open(T.__file__) as f:
        src = f.read()
    tree = ast.parse(src)
    blocks = [n for n in tree.body if isinstance(n, ast.If) and _is_main_test(n.test)]
    if not blocks:
        raise HarnessError('seam-missing bamToCountTable __main__ argparser block')
    body = [s for s in blocks[0].body if not _calls(s, {'parse_args', 'create_count_table', 'exit'})]
    ns = dict(vars(T))
    ns['__name__'] = 'c10_argparser_extract'
    exec(compile(ast.Module(body=body, type_ignores=[]), T.__file__, 'exec'), ns)
    p = ns.get('argparser')
    if p is None:
        raise HarnessError('seam-missing bamToCountTable argparser object')
    d = vars(p.parse_args([]))
    missing = [o for o in REQUIRED_OPTIONS if o not in d]
    if missing:
        raise HarnessError(f'seam-missing bamToCountTable options {missing}')
    _PARSER = p
    return p


def help_strings():
    """option dest -> help text of the real parser (the documentation the C11 oracle was written from)"""
    return {a.dest: a.help for a in argparser()._actions if a.help}


def default_args(**over):
    ns = argparser().parse_args([])
    for k, v in over.items():
        if not hasattr(ns, k):
            raise HarnessError(f'seam-missing bamToCountTable option {k}')
        setattr(ns, k, v)
    return ns


def header(contigs):
    """contigs: [(name, length), ...]"""
    return pysam.AlignmentHeader.from_dict({'HD': {'VN': '1.6', 'SO': 'coordinate'},
                                            'SQ': [{'SN': n, 'LN': int(l)} for n, l in contigs]})


def mk_read(hdr, name, contig_index=0, pos=0, cigar='10M', mapq=60, tags=(), paired=False, read2=False,
            proper=None, mate_unmapped=False, unmapped=False, qcfail=False, duplicate=False, reverse=False,
            secondary=False, supplementary=False, mate_pos=None, seqlen=None):
    r = pysam.AlignedSegment(hdr)
    r.query_name = name
    flag = 0
    if paired:
        flag |= 0x1
        flag |= 0x80 if read2 else 0x40
        if proper is None:
            proper = not (mate_unmapped or unmapped)
        if proper:
            flag |= 0x2
        if mate_unmapped:
            flag |= 0x8
        if not reverse and not mate_unmapped:
            flag |= 0x20
    if unmapped:
        flag |= 0x4
    if reverse:
        flag |= 0x10
    if qcfail:
        flag |= 0x200
    if duplicate:
        flag |= 0x400
    if secondary:
        flag |= 0x100
    if supplementary:
        flag |= 0x800
    r.flag = flag
    r.reference_id = contig_index
    r.reference_start = pos
    r.mapping_quality = 0 if unmapped else mapq
    if unmapped:
        n = seqlen or 10
        r.cigarstring = None
    else:
        r.cigarstring = cigar
        n = r.infer_query_length()
    r.query_sequence = 'A' * n
    r.query_qualities = pysam.qualitystring_to_array('I' * n)
    if paired:
        r.next_reference_id = contig_index
        r.next_reference_start = pos if mate_pos is None else mate_pos
    else:
        r.next_reference_id = -1
        r.next_reference_start = -1
    for t, v in tags:
        r.set_tag(t, v)
    return r


def write_bam(path, hdr, reads):
    order = sorted(range(len(reads)), key=lambda i: (reads[i].reference_id if reads[i].reference_id >= 0 else 1 << 30,
                                                     reads[i].reference_start, i))
    with pysam.AlignmentFile(path, 'wb', header=hdr) as out:
        for i in order:
            out.write(reads[i])
    pysam.index(path)
    return path


def _tup(x):
    return tuple(x) if isinstance(x, tuple) else (x,)


def _plain(x):
    """numpy scalars -> python, so that keys compare and serialise canonically"""
    try:
        import numpy as np
        if isinstance(x, np.integer):
            return int(x)
        if isinstance(x, np.floating):
            return float(x)
    except Exception:
        pass
    return x


def table_to_dict(df):
    out = {}
    for col in df.columns:
        s = df[col]
        for idx, v in s.items():
            if v is None or (isinstance(v, float) and math.isnan(v)):
                continue
            v = float(v)
            if v != v:
                continue
            k = (tuple(_plain(x) for x in _tup(col)), tuple(_plain(x) for x in _tup(idx)))
            out[k] = out.get(k, 0.0) + v
    return out


def counter_to_dict(countTable):
    out = {}
    for sample, ctr in countTable.items():
        for key, v in ctr.items():
            out[(tuple(_plain(x) for x in _tup(sample)), tuple(_plain(x) for x in _tup(key)))] = float(v)
    return out


@contextlib.contextmanager
def quiet():
    """create_count_table prints progress lines; keep worker output clean"""
    buf = io.StringIO()
    with contextlib.redirect_stdout(buf):
        yield buf


def run_table(args):
    """create_count_table on a private copy of the namespace (the function mutates args)"""
    from singlecellmultiomics.bamProcessing import bamToCountTable as T
    a = copy.copy(args)
    with quiet():
        df = T.create_count_table(a, return_df=True)
    return df
