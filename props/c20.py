"""C20 - the status marker reports success only for a complete, sorted, indexed output.

Crash-point / fault enumeration on the real tagging pipeline (single process and --multiprocess, nla and chic),
each execution in a forked child so that a kill is real (os._exit at the injection point) and an exception is an
injected RuntimeError.  Injection points are discovered by an instrumented fault-free run: before/after EVERY
molecule write, before/after the read-group header rewrite, before/inside/after sort, before/after index, every
pool job, before/inside/after merge, temp-folder cleanup.
Oracle: status never says success unless the run returned normally; whenever it says success the output BAM
exists, reads to EOF, is coordinate sorted, has a usable index and holds every input record.
"""
import os
import shutil
import sys
import tempfile

import pysam

from gen.bam import Builder, records, is_coordinate_sorted
from mc import tagger
from mc.bind import HarnessError, seam

ID = 'C20'
RULE = ('every injection point discovered by an instrumented fault-free run (molecule write k of n, header rewrite, sort, index, '
        'pool job j, merge, temp-folder cleanup, input verification, failing arguments; before/after and, for sort and merge, inside = half-written output) x fault kind '
        '{exception, kill, interrupt} x {single, --multiprocess} x {nla, chic} x {fresh output path, re-run over the finished output of an earlier run}; thorough adds every pair of consecutive points for exceptions; '
        'non-trivial = fault injected after at least one molecule was written; states = executions in forked children')
ASSUMPTIONS = [
    'kills land at Python-level step boundaries (and one modelled mid-sort / mid-merge point), not inside htslib',
    'pool jobs run in-process under the ScheduledPool; killing one OS worker of a real Pool is not explored (it hangs, status stays unfinished)',
    'a normally returning run is not required to say success (the property only constrains what success means)',
]
SUCCESS = 'Reached end. All ok!'
BGZF_EOF = bytes.fromhex('1f8b08040000000000ff0600424302001b0003000000000000000000')


def bounds(tier):
    return {'modes': ['single', 'multi'], 'methods': ['nla', 'chic'], 'kinds': ['exception', 'kill', 'interrupt (KeyboardInterrupt)'],
            'deviation_bound': 1 if tier == 'quick' else 2, 'input': '10 fragments / 8 molecules on a small and a large contig + unmapped pair'}


def build_input(path, method):
    b = Builder([('cS', 5000), ('cL', 120000)])
    mx = 'scCHIC384C8U3' if method == 'chic' else 'NLAIII384C8U3'
    kw = dict(method=method, mx=mx)
    b.pair('cS', 1000, cell=1, umi='AAA', **kw)
    b.pair('cS', 1000, cell=1, umi='AAA', frag=45, **kw)
    b.pair('cS', 1400, cell=2, umi='ACG', reverse=True, **kw)
    b.pair('cS', 2000, cell=1, umi='CCC', motif='CTTG', **kw)
    b.pair('cL', 50000, cell=1, umi='GGA', **kw)
    b.pair('cL', 50000, cell=2, umi='GGA', **kw)
    b.pair('cL', 50000, cell=2, umi='GGA', frag=44, **kw)
    b.pair('cL', 70000, cell=1, umi='TTT', reverse=True, **kw)
    b.pair('cL', 90000, cell=1, umi='TAT', r2_unmapped=True, **kw)
    b.unmapped_pair()
    b.write(path)


class _Injected(RuntimeError):
    pass


class Injector:
    """Counts the events of each site; fires the planned faults. plan: list of (site, occurrence, when, kind)."""

    def __init__(self, plan, log):
        self.plan = [tuple(p) for p in plan]
        self.counts = {}
        self.log = log          # list of (site, occurrence) in execution order (instrumented run)

    def hit(self, site, when, occ, inside_cb=None):
        for (s, o, w, kind) in self.plan:
            if s == site and o == occ and w == when:
                if w == 'inside' and inside_cb is not None:
                    try:
                        inside_cb()
                    except Exception:
                        pass
                if kind == 'kill':
                    os._exit(137)
                if kind == 'interrupt':
                    raise KeyboardInterrupt()     # what a SIGINT (ctrl-c, scheduler soft kill) does to the process
                raise _Injected(f'injected at {site}#{occ}:{when}')

    def wrap(self, site, fn, inside_cb_factory=None):
        inj = self

        def wrapper(*a, **k):
            occ = inj.counts.get(site, 0)
            inj.counts[site] = occ + 1
            inj.log.append((site, occ))
            inj.hit(site, 'before', occ)
            if inside_cb_factory is not None:
                inj.hit(site, 'inside', occ, inside_cb_factory(*a, **k))
            r = fn(*a, **k)
            inj.hit(site, 'after', occ)
            return r
        return wrapper


class _Shim:
    def __init__(self, real, **over):
        self.__dict__['_real'] = real
        self.__dict__['_over'] = over

    def __getattr__(self, name):
        if name in self._over:
            return self._over[name]
        return getattr(self._real, name)


def _half_copy(src, dst):
    def cb():
        with open(src, 'rb') as f:
            data = f.read()
        with open(dst, 'wb') as o:
            o.write(data[:max(1, len(data) // 2)])
    return cb


def child_main(inp_path, out_path, tmpdir, mode, method, plan, log_path, extra_argv=()):
    """runs in the forked child; never returns"""
    code = 3
    cov = _child_coverage_start()
    try:
        tm = tagger.tagger_module()
        import singlecellmultiomics.bamProcessing.bamFunctions as bf
        import singlecellmultiomics.molecule.molecule as mm
        for mod, name in ((bf, 'add_readgroups_to_header'), (bf, 'pysam'), (tm, 'pysam'), (tm, 'shutil'), (tm, 'run_tagging_tasks'),
                          (tm, 'merge_bams'), (mm.Molecule, 'write_pysam')):
            seam(mod, name)
        log = []
        inj = Injector(plan, log)
        mm.Molecule.write_pysam = inj.wrap('write_pysam', mm.Molecule.write_pysam)
        bf.add_readgroups_to_header = inj.wrap('header_rewrite', bf.add_readgroups_to_header)

        def sort_inside(*a, **k):
            # pysam.sort('-o', sorted_path, '-T', tmp, unsorted_path, level)
            args = list(a)
            sorted_path = args[args.index('-o') + 1]
            unsorted = [x for x in args if isinstance(x, str) and x.endswith('.unsorted')]
            src = unsorted[0] if unsorted else None
            return _half_copy(src, sorted_path) if src else (lambda: None)

        def merge_inside(bams, output_path, *a, **k):
            srcs = [b for b in bams if os.path.exists(b)]
            return _half_copy(srcs[-1], output_path) if srcs else (lambda: None)
        real_pysam = bf.pysam
        shim = _Shim(real_pysam, sort=inj.wrap('sort', real_pysam.sort, sort_inside), index=inj.wrap('index', real_pysam.index))
        bf.pysam = shim
        tm.pysam = shim
        seam(tm, 'verify_and_fix_bam')
        tm.verify_and_fix_bam = inj.wrap('verify_input', tm.verify_and_fix_bam)
        tm.run_tagging_tasks = inj.wrap('pool_job', tm.run_tagging_tasks)
        tm.merge_bams = inj.wrap('merge', tm.merge_bams, merge_inside)
        tm.shutil = _Shim(tm.shutil, rmtree=inj.wrap('cleanup', tm.shutil.rmtree))
        argv = [inp_path, '-method', method, '-o', out_path, '-temp_folder', tmpdir]
        if mode == 'multi':
            argv.append('--multiprocess')
        argv += list(extra_argv)
        exc, sch = tagger.run_tagger(argv, catch_interrupt=True)
        if log_path:
            with open(log_path, 'w') as f:
                for s, o in log:
                    f.write(f'{s}\t{o}\n')
        code = 0 if exc is None else (130 if isinstance(exc, KeyboardInterrupt) else 3)
    except BaseException:
        code = 4
    finally:
        _child_coverage_stop(cov)
        os._exit(code)


def _child_coverage_start():
    """audit aid (tools/coverage_audit.py): the code under test runs in forked children which leave through os._exit, so the
    child records its own coverage file (kills lose theirs; the exception kinds walk the same paths)"""
    cov_dir = os.environ.get('VERIF_COVERAGE')
    if not cov_dir:
        return None
    import coverage
    from mc import bind
    cur = coverage.Coverage.current()
    if cur is not None:
        cur.stop()
    cov = coverage.Coverage(data_file=os.path.join(cov_dir, f'cov.c20child.{os.getpid()}'), branch=True,
                            include=[os.path.join(bind.REPO, 'singlecellmultiomics', '*')])
    cov.start()
    return cov


def _child_coverage_stop(cov):
    if cov is not None:
        try:
            cov.stop()
            cov.save()
        except Exception:
            pass


BADARGS = {'region': ['-region_start', '5'],                    # -region_start without -region_end
           'transcriptome': ['-method', 'nla_transcriptome']}    # needs -exons / -introns


def _fork_run(inp, out, d, mode, method, plan, log_path, extra_argv=()):
    sys.stdout.flush()
    sys.stderr.flush()
    pid = os.fork()
    if pid == 0:
        child_main(inp, out, d, mode, method, plan, log_path, extra_argv)
    _, status = os.waitpid(pid, 0)
    return os.waitstatus_to_exitcode(status)


def run_plan(mode, method, plan, want_log=False, prior=False):
    """plan entries are (site, occurrence, when, kind); the pseudo site 'badargs' (occurrence = key of BADARGS) makes the run
    fail in its own set-up through its arguments.  prior=True: a complete successful run to the same output path precedes
    the faulty one (history: the status file and the output of an earlier run exist)."""
    d = tempfile.mkdtemp(prefix='c20_', dir='/dev/shm')
    try:
        inp = os.path.join(d, 'in.bam')
        build_input(inp, method)
        inrecs = records(inp)
        out = os.path.join(d, 'out.bam')
        log_path = os.path.join(d, 'events.log') if want_log else None
        if prior:
            c0 = _fork_run(inp, out, d, mode, method, [], None)
            st = out.replace('.bam', '.status.txt')
            if c0 != 0 or not os.path.exists(st) or SUCCESS not in open(st).read():
                raise HarnessError(f'C20: the preceding fault-free run did not succeed (exit {c0})')
        extra = []
        real_plan = []
        for p in plan:
            if p[0] == 'badargs':
                extra += BADARGS[p[1]]
            else:
                real_plan.append(p)
        code = _fork_run(inp, out, d, mode, method, real_plan, log_path, extra)
        if code == 4:
            raise HarnessError('C20 child failed outside the code under test (seam missing or harness bug)')
        status_path = out.replace('.bam', '.status.txt')
        text = open(status_path).read().strip() if os.path.exists(status_path) else None
        events = None
        if want_log and os.path.exists(log_path):
            events = [tuple(l.rstrip('\n').split('\t')) for l in open(log_path)]
            events = [(s, int(o)) for s, o in events]
        viol = judge(mode, method, plan, code, text, out, inrecs, prior)
        return viol, {'exit': code, 'status': text, 'events': events}
    finally:
        shutil.rmtree(d, ignore_errors=True)


def judge(mode, method, plan, code, text, out, inrecs, prior=False):
    viol = []
    says_success = (text is not None and SUCCESS in text)
    tag = f'{mode}:{method}' + (':rerun-over-finished-output' if prior else '')
    where = '+'.join(f'{s}:{w}' for s, o, w, k in plan) or 'no-fault'
    kinds = '+'.join(sorted({k for s, o, w, k in plan})) or 'none'
    if says_success and code != 0:
        how = {137: 'was-killed', 130: 'was-interrupted'}.get(code, 'failed')
        viol.append((f'{tag}:success-status-although-run-{how}:{where}', {'exit': code, 'status': text}))
    if says_success:
        problem = output_problem(out, inrecs)
        if problem:
            viol.append((f'{tag}:success-status-but-output-{problem}:{where}', {'exit': code, 'status': text, 'fault': kinds}))
    return viol


def output_problem(out, inrecs):
    if not os.path.exists(out):
        return 'missing'
    try:
        with open(out, 'rb') as f:
            f.seek(0, 2)
            size = f.tell()
            f.seek(max(0, size - 28))
            tail = f.read()
        if tail != BGZF_EOF:
            return 'truncated-(no-EOF-block)'
        recs = records(out)
    except Exception as ex:
        return f'unreadable-({type(ex).__name__})'
    if not is_coordinate_sorted(recs):
        return 'not-coordinate-sorted'
    if not os.path.exists(out + '.bai'):
        return 'index-missing'
    try:
        with pysam.AlignmentFile(out) as f:
            n = sum(sum(1 for _ in f.fetch(c)) for c in f.references)
        if n != sum(1 for r in recs if r['tid'] >= 0):
            return 'index-stale'
    except Exception as ex:
        return f'index-unusable-({type(ex).__name__})'
    key = lambda r: (r['name'], r['seq'], r['qual'], r['contig'], r['pos'], r['cigar'])
    if sorted(key(r) for r in recs) != sorted(key(r) for r in inrecs):
        return 'incomplete-(records-differ-from-input)'
    return None


def points_for(mode, method):
    """instrumented fault-free run -> list of (site, occurrence, when)"""
    viol, info = run_plan(mode, method, [], want_log=True)
    if info['events'] is None:
        raise HarnessError(f'C20: instrumented run produced no event log (exit {info["exit"]}, status {info["status"]})')
    pts = []
    for site, occ in info['events']:
        for when in (('before', 'inside', 'after') if site in ('sort', 'merge') else ('before', 'after')):
            pts.append((site, occ, when))
    return pts, viol, info


def shards(tier):
    out = []
    for mode in ('single', 'multi'):
        for method in ('nla', 'chic'):
            for kind in ('exception', 'kill', 'interrupt'):
                for part in range(4):
                    out.append((mode, method, kind, part, 4, False))
                for part in range(4):
                    out.append((mode, method, kind, part, 4, True))
    return out


def run_shard(shard, tier, acc):
    mode, method, kind, part, nparts, prior = shard
    pts, viol0, info0 = points_for(mode, method)
    if part == 0 and kind == 'exception' and not prior:
        case = {'mode': mode, 'method': method, 'plan': []}
        acc.case(case, transitions=len(pts), nontrivial=False, outcome=f'clean:exit={info0["exit"]}:status={info0["status"]}')
        for sig, d in viol0:
            acc.violation(sig, case, d)
        if info0['exit'] != 0 or info0['status'] is None or SUCCESS not in info0['status']:
            acc.violation(f'{mode}:{method}:fault-free-run-did-not-report-success', case, info0)
    plans = [[(s, o, w, kind)] for (s, o, w) in pts]
    if kind == 'exception':
        plans += [[('badargs', k, 'setup', 'exception')] for k in sorted(BADARGS)]
    if bounds(tier)['deviation_bound'] >= 2 and kind == 'exception' and not prior:
        for i in range(len(pts) - 1):
            plans.append([pts[i] + (kind,), pts[i + 1] + (kind,)])
        # sort is retried at other temp locations: all three attempts failing
        sorts = [p for p in pts if p[0] == 'sort' and p[2] == 'before']
        if sorts:
            s0 = sorts[0]
            plans.append([('sort', s0[1] + j, 'before', kind) for j in range(3)])
    written_sites = {'header_rewrite', 'sort', 'index', 'merge', 'cleanup'}
    for i, plan in enumerate(plans):
        if i % nparts != part:
            continue
        case = {'mode': mode, 'method': method, 'plan': [list(p) for p in plan], 'prior': prior}
        viols, info = run_plan(mode, method, plan, prior=prior)
        first = plan[0]
        nontrivial = first[0] in written_sites or (first[0] == 'write_pysam' and (first[1] > 0 or first[2] == 'after')) or first[0] == 'pool_job'
        acc.case(case, transitions=1, nontrivial=nontrivial,
                 outcome=f"{mode}:{'rerun:' if prior else ''}{first[0]}:{first[2]}:{kind}:exit={info['exit']}:status={(info['status'] or 'none')[:12]}")
        for sig, d in viols:
            acc.violation(sig, case, d)


def replay(case):
    plan = [tuple(p) for p in case['plan']]
    viols, info = run_plan(case['mode'], case['method'], plan, prior=case.get('prior', False))
    if not plan and (info['exit'] != 0 or info['status'] is None or SUCCESS not in info['status']):
        viols.append((f"{case['mode']}:{case['method']}:fault-free-run-did-not-report-success", info))
    return viols
