"""C12: drive the real counters for one case and bring the answer into canonical form.

call(case, path)  runs the code under test exactly as its callers do (bamCopyNumber / bamMutProfiler /
bamToBigWig): generate_commands -> obtain_counts(live_update=False), or get_binned_counts.  Whether the
module's Pool is the real one or a mc.sched.ScheduledPool is decided by the caller (patching), not here.

Run as a script (``python -m gen.c12_run`` from /verif, cases as a JSON list of [case, path] on stdin) it is
the FREE-RUNNING conformance run: a fresh interpreter, the real multiprocessing.Pool, nothing patched.
"""
import contextlib
import io
import json
import sys


def _gc_extra(case):
    """extra keyword arguments of generate_commands carried by the case (JSON form -> what a caller would pass)"""
    kw = {}
    x = case.get('gc_extra') or {}
    for k, v in x.items():
        if k == 'skip_contigs':
            kw[k] = set(v) if case.get('skip_as') == 'set' else list(v)
        elif k == 'alt_spans':
            kw[k] = {c: tuple(t) for c, t in v.items()}
        else:
            kw[k] = v
    return kw


def _rows_from_frame(df):
    rows = []
    for key, ser in df.iterrows():
        row = {}
        for cell, v in ser.items():
            if v == v and v != 0:                      # NaN = cell absent from this bin
                if isinstance(cell, tuple):            # (alias, cell) of the prefixed entry point
                    cell = '|'.join(str(c) for c in cell)
                row[cell] = int(v) if float(v).is_integer() else float(v)
        rows.append((list(key) if isinstance(key, tuple) else [key], row))
    return rows


def _regions(case):
    r = case.get('regions')
    if r is None:
        return None
    return [x if isinstance(x, str) else tuple(x) for x in r]     # a fresh list per call: the code rewrites it


def run_cli(case, paths):
    """the installed script bamBinCounts.py, in its own interpreter, the way a user runs it"""
    import gzip
    import os
    import pickle
    import shutil
    import subprocess
    import tempfile
    from mc import bind
    work = tempfile.mkdtemp(prefix='c12cli_', dir='/dev/shm')
    try:
        out = os.path.join(work, 'counts' + case.get('out_suffix', '.dict.gz'))
        script = os.path.join(bind.REPO, 'singlecellmultiomics', 'bamProcessing', 'bamBinCounts.py')
        cmd = [sys.executable, script, paths[0], '-o', out]
        for k, v in case['argv']:
            cmd += [k, str(v)]
        env = dict(os.environ, PYTHONPATH=bind.REPO, PYTHONHASHSEED='0')
        p = subprocess.run(cmd, capture_output=True, text=True, cwd=work, env=env, timeout=600)
        if p.returncode != 0:
            raise RuntimeError('bamBinCounts.py exit %d: %s' % (p.returncode, p.stderr.strip().splitlines()[-1:] or ''))
        if out.endswith('.pickle.gz'):
            import pandas as pd
            df = pd.read_pickle(out)                  # columns = bins, rows = cells
            return _rows_from_frame(df.T)
        with gzip.open(out, 'rb') as f:
            counts = pickle.load(f)
        return [(list(k), dict(v)) for k, v in counts.items()]
    finally:
        shutil.rmtree(work, ignore_errors=True)


def call(case, path):
    """-> canonical matrix: sorted list of [key (list), sorted [cell, n] pairs].  Exceptions propagate.
    path: one path or a list of paths (several libraries in one call)"""
    from singlecellmultiomics.bamProcessing import bamBinCounts as B
    from . import c12_bam as G
    fn = case['fn']
    paths = list(path) if isinstance(path, (list, tuple)) else [path]
    sink = io.StringIO()
    with contextlib.redirect_stdout(sink):
        if fn == 'obtain_counts':
            arg = path
            if case.get('path_as') == 'list':
                arg = list(paths)
            if case.get('defaults'):
                commands = B.generate_commands(arg, bin_size=case['bin_size'], bins_per_job=case['bins_per_job'])
                counts = B.obtain_counts(commands, reference=None, live_update=False)
            else:
                commands = B.generate_commands(arg, bin_size=case['bin_size'], bins_per_job=case['bins_per_job'],
                                               min_mq=case['min_mq'], max_fragment_size=case['max_fragment_size'],
                                               key_tags=case['key_tags'], kwargs=case['kwargs'], **_gc_extra(case))
                okw = {}
                if case.get('count_function') == 'explicit':
                    okw['count_function'] = B.count_fragments_binned
                counts = B.obtain_counts(commands, reference=None, live_update=False, threads=case['threads'],
                                         show_progress=bool(case.get('show_progress')), **okw)
            rows = [(list(k), dict(v)) for k, v in counts.items()]
        elif fn == 'get_binned_counts':
            flt = None if case.get('filter') == 'default' else G.PropertyFilter(case['min_mq'])
            df = B.get_binned_counts(paths, case['bin_size'], regions=_regions(case),
                                     filter_function=flt, n_threads=case['threads'])
            rows = _rows_from_frame(df)
        elif fn == 'get_binned_counts_prefixed':
            flt = None if case.get('filter') == 'default' else G.PropertyFilter(case['min_mq'])
            bam_dict = {alias: [paths[i] for i in idx] for alias, idx in case['bam_dict']}
            df = B.get_binned_counts_prefixed(bam_dict, case['bin_size'], regions=_regions(case),
                                              filter_function=flt, n_threads=case['threads'])
            rows = _rows_from_frame(df)
        elif fn == 'cli':
            rows = run_cli(case, paths)
        else:
            raise ValueError(fn)
    out = []
    for k, row in rows:
        k = [int(x) if hasattr(x, '__index__') and not isinstance(x, bool) else x for x in k]
        out.append([k, sorted([c, int(n) if float(n).is_integer() else n] for c, n in row.items())])
    out.sort(key=lambda kr: json.dumps(kr[0]))
    return out


def main():
    sys.path.insert(0, '.')
    from mc import bind
    bind.bind()
    jobs = json.load(sys.stdin)
    res = []
    for case, path in jobs:
        try:
            res.append({'ok': call(case, path)})
        except Exception as e:
            res.append({'exception': type(e).__name__, 'repr': repr(e)})
    sys.stdout.write(json.dumps(res))


if __name__ == '__main__':
    main()
