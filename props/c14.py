"""C14 - TAPS methylation calls reflect reference context and observed conversion.

Seam: TAPSNlaIIIMolecule / TAPSCHICMolecule .__finalise__() on in-memory fragments with a real pysam.FastaFile.
Reference: a de-Bruijn word of order 3 over ACGTN (every 3-base context incl. non-ACGT bases), short contigs which
put a G at positions 0/1 and a C at the last two positions next to every letter (contexts truncated at both contig
ends) and a soft-masked contig.
Space: EVERY window (start, length <= Lmax) of every contig x EVERY subset of the window's C/G positions converted
(C>T, G>A - so conversions on the wrong strand occur as well) [+ for the fully overlapping pair every single C/G
position read as a non-conversion substitution or as N] x strand +/- x taps_strand F/R x fragment shape x molecule
class.  Oracle: oracles/c14_caller.py (independent caller from the Bismark definition and the property text).
"""
import atexit
import os
import shutil
import tempfile

from mc.bind import HarnessError
from gen import c14_taps as G
from oracles import c14_caller as O

ID = 'C14'
DESIGN_REF = 'DESIGN.md section 3, C14'
RULE = ('full product: every window (start, length 1..Lmax) of every contig of the reference (de-Bruijn word of order 3 '
        'over ACGTN + contig-end contigs + soft-masked contig) x every subset of the C/G positions of the window '
        'converted (for shape full additionally every single C/G position substituted by the non-conversion base / N) x '
        'strand x taps_strand x fragment shape (single R1 safe/unsafe, fully overlapping pair, split pair, pair with an uncovered gap, dove-tailed '
        'pair by 1 [thorough: by 2, pair with 1I in R1 and 1D in R2]) x class (TAPSNlaIIIMolecule with soft-clipped CATG, '
        'TAPSCHICMolecule); one real __finalise__ per case; non-trivial = the window holds a C or G; states = distinct cases')
ASSUMPTIONS = [
    'reads carry a correct MD tag (the reference base is taken from it) and are in BAM orientation',
    'both mates show the same molecule sequence (mate disagreement / voting between fragments is C13)',
    'the never-outside-the-safe-span clause is evaluated for allow_unsafe_base_calls=False (the default); '
    'allow_unsafe_base_calls=True is only generated for single-end fragments, where every read base may be called',
    'a call is REQUIRED only where every reading of the statement yields one: position inside the safe span of a pair '
    '(or anywhere on the read with allow_unsafe_base_calls=True), on the expected reference base, complete ACGT '
    'three-base context, consensus base equal to the reference or to the conversion; CpG with an unknown third base '
    'may be called z or left out; a single-end fragment in safe mode may be called or left out',
    'a consensus base which is neither reference nor conversion may give no call or a lower-case call, never upper case',
    'taps_strand F: forward molecules (R1 forward) are called on reference C, reverse molecules on G; R: the opposite',
]

TAGS = ('MC', 'uC', 'sZ', 'sz', 'sX', 'sx', 'sH', 'sh')
_STATE = {'dir': None, 'path': None, 'owner': None, 'fasta': None, 'fasta_pid': None, 'taps': None, 'hdr': None}
_CONTIGS = dict(G.contigs())


# ------------------------------------------------------------------------------------------------ setup
def setup():
    try:
        G.self_check()
    except ValueError as e:
        raise HarnessError(str(e))
    d = tempfile.mkdtemp(dir='/dev/shm', prefix='c14_')
    path = os.path.join(d, 'ref.fa')
    G.write_fasta(path)
    if not os.path.exists(path + '.fai'):
        raise HarnessError('faidx did not produce an index')
    _STATE.update(dir=d, path=path, owner=os.getpid())
    atexit.register(_cleanup)


def _cleanup():
    if _STATE['owner'] == os.getpid() and _STATE['dir'] and os.path.isdir(_STATE['dir']):
        shutil.rmtree(_STATE['dir'], ignore_errors=True)


def _env():
    """per process: an own FastaFile handle (never shared over fork), one TAPS instance, one header"""
    import pysam
    if _STATE['path'] is None:
        setup()
    if _STATE['fasta'] is None or _STATE['fasta_pid'] != os.getpid():
        _STATE['fasta'] = pysam.FastaFile(_STATE['path'])
        _STATE['fasta_pid'] = os.getpid()
        for name, seq in _CONTIGS.items():
            if _STATE['fasta'].fetch(name) != seq:
                raise HarnessError(f'FASTA round trip differs for {name}')
        from singlecellmultiomics.molecule import TAPS
        _STATE['taps'] = TAPS()
        _STATE['hdr'] = G.make_header()
    return _STATE['fasta'], _STATE['taps'], _STATE['hdr']


# ------------------------------------------------------------------------------------------------ space
def bounds(tier):
    b = {'contigs': {n: len(s) for n, s in _CONTIGS.items()},
         'classes': ['nla', 'chic'], 'strands': ['+', '-'], 'taps_strand': ['F', 'R'],
         'conversion_patterns': 'every subset of the C/G positions of the window',
         'substitutions': 'shape full: every single C/G position as non-conversion base and as N'}
    if tier == 'quick':
        b.update({'max_window': 6, 'shapes': list(G.SHAPES_QUICK), 'single_unsafe': [False, True]})
    else:
        b.update({'max_window': 8, 'shapes': list(G.SHAPES_THOROUGH), 'single_unsafe': [False, True]})
    return b


NSPLIT = 4


def shards(tier):
    out = []
    for cls in ('chic', 'nla'):
        for taps_strand in ('F', 'R'):
            for strand in ('+', '-'):
                for k in range(NSPLIT):
                    out.append((cls, taps_strand, strand, k))
                out.append((cls, taps_strand, strand, 'long'))
    return out


def _cases(shard, tier):
    cls, taps_strand, strand, k = shard
    b = bounds(tier)
    shapes = b['shapes']
    if k == 'long':
        # molecules tiled in coordinate order over the long contig through ONE TAPS handler and ONE FastaFile, the way the
        # tagger processes a contig: state kept between molecules (reference windows, memoised contexts) is exercised
        seq = _CONTIGS[G.LONG]
        L = 8
        for start in range(0, len(seq) - L + 1):
            for c in G.window_cases(G.LONG, seq, start, L, ('single', 'full'), unsafe_single=True):
                if c['sub'] is not None or (c['shape'] == 'single' and not c['unsafe']):
                    continue
                nconv = len(G.convertible_offsets(seq[start:start + L]))
                if len(c['conv']) not in (0, nconv):
                    continue
                c.update({'cls': cls, 'strand': strand, 'taps_strand': taps_strand})
                yield c
        return
    for L in range(1, b['max_window'] + 1):
        for contig, seq in _CONTIGS.items():
            if contig == G.LONG:
                continue
            for start in range(0, len(seq) - L + 1):
                if start % NSPLIT != k:
                    continue
                for c in G.window_cases(contig, seq, start, L, shapes):
                    c.update({'cls': cls, 'strand': strand, 'taps_strand': taps_strand})
                    yield c


# ------------------------------------------------------------------------------------------------ one case
def _ref_class(refseq, p):
    b = refseq[p].upper() if 0 <= p < len(refseq) else '?'
    return f'ref-{b}'


def run_case(case):
    """-> (violations [(signature, detail)], info dict)"""
    from singlecellmultiomics.molecule import TAPSNlaIIIMolecule, TAPSCHICMolecule
    from singlecellmultiomics.fragment import NlaIIIFragment, CHICFragment
    fasta, taps, hdr = _env()
    refseq = _CONTIGS[case['contig']]
    reads, specs, molseq = G.build_reads(hdr, case, refseq)
    s1, s2 = specs
    for r, s in zip(reads, specs):
        if s is not None and list(r.get_reference_positions()) != s['positions']:
            raise HarnessError(f'read builder: aligned positions differ from the specification {case}')

    covered = set(s1['positions']) | (set(s2['positions']) if s2 else set())
    observed = {case['start'] + o: molseq[o] for o in range(case['len']) if case['start'] + o in covered}
    span = lambda s: (s['positions'][0], s['positions'][-1] + 1)
    expect = O.expectations(refseq, case['strand'], case['taps_strand'], case['unsafe'], span(s1),
                            span(s2) if s2 else None, covered, observed)

    viols = []
    info = {'letters': '', 'ncalls': 0}
    try:
        if case['cls'] == 'nla':
            frag = NlaIIIFragment(reads)
            mol = TAPSNlaIIIMolecule(frag, reference=fasta, taps=taps, taps_strand=case['taps_strand'],
                                     allow_unsafe_base_calls=case['unsafe'])
        else:
            frag = CHICFragment(reads)
            mol = TAPSCHICMolecule(frag, reference=fasta, taps=taps, taps_strand=case['taps_strand'],
                                   allow_unsafe_base_calls=case['unsafe'])
        if not frag.is_valid():
            raise HarnessError(f'generated fragment is not valid: {case}')
        if bool(mol.strand) != (case['strand'] == '-'):
            raise HarnessError(f'molecule strand differs from the strand of R1: {case}')
        mol.__finalise__()
        cd = mol.methylation_call_dict
    except HarnessError:
        raise
    except Exception as ex:
        return [(f'finalise:exception:{type(ex).__name__}', repr(ex))], info

    if cd is None:
        return [('no-methylation-calls-object:calls', 'methylation_call_dict is None')], info

    # ---- clause 1+4: the molecule's calls
    calls = {}
    for key, d in cd.items():
        letter = d.get('context') if isinstance(d, dict) else None
        if letter is None or letter == '.':
            continue
        contig, pos = key
        if contig != case['contig']:
            viols.append(('call-on-other-contig:calls', {'key': list(key), 'letter': letter}))
            continue
        if not isinstance(letter, str) or len(letter) != 1 or letter not in O.CALL_LETTERS:
            viols.append(('illegal-call-letter:calls', {'pos': pos, 'letter': repr(letter)}))
            continue
        calls[int(pos)] = letter
    for clause, p, detail in O.judge(expect, calls):
        viols.append((f'{clause}:calls:{_ref_class(refseq, p)}', {'pos': p, 'detail': detail, 'calls': _fmt(calls)}))

    # ---- clause 2: per-read call strings
    want_tags = O.tally(calls)
    for i, (r, s) in enumerate(zip(reads, specs)):
        if r is None:
            continue
        rn = f'R{i + 1}'
        if not r.has_tag('XM'):
            viols.append((f'XM-missing:{rn}', None))
        else:
            xm = r.get_tag('XM')
            if not isinstance(xm, str) or len(xm) != len(s['positions']):
                viols.append((f'XM-length-differs-from-aligned-bases:{rn}',
                              {'XM': xm, 'aligned_bases': len(s['positions']), 'cigar': s['cigar']}))
            else:
                bad = sorted(set(xm) - set(O.CALL_LETTERS + '.'))
                if bad:
                    viols.append((f'XM-illegal-character:{rn}', {'XM': xm, 'chars': bad}))
                rcalls = {p: c for p, c in zip(s['positions'], xm) if c in O.CALL_LETTERS}
                for clause, p, detail in O.judge(expect, rcalls, positions=set(s['positions'])):
                    viols.append((f'{clause}:XM:{_ref_class(refseq, p)}',
                                  {'read': rn, 'pos': p, 'detail': detail, 'XM': xm, 'first_pos': s['positions'][0]}))
                mine = {p: c for p, c in calls.items() if p in set(s['positions'])}
                if rcalls != mine:
                    viols.append((f'XM-differs-from-molecule-calls:{rn}',
                                  {'XM': xm, 'first_pos': s['positions'][0], 'calls': _fmt(calls)}))
        # ---- clause 3: totals
        for t in TAGS:
            if not r.has_tag(t):
                viols.append((f'total-tag-missing:{t}', {'read': rn}))
            elif r.get_tag(t) != want_tags[t]:
                viols.append((f'total-tag-differs-from-number-of-calls:{t}',
                              {'read': rn, 'tag': r.get_tag(t), 'calls': _fmt(calls), 'want': want_tags[t]}))

    info['letters'] = ''.join(sorted(set(calls.values())))
    info['ncalls'] = len(calls)
    info['nabsent'] = sum(1 for p, e in expect.items() if e[0] == 'absent' and refseq[p].upper() in 'CG')
    info['nrequired'] = sum(1 for e in expect.values() if e[0] == 'call' and e[2])
    seen = set()
    dedup = []
    for sig, d in viols:
        if sig not in seen:
            seen.add(sig)
            dedup.append((sig, {'detail': d, 'R1': _rd(s1), 'R2': _rd(s2), 'molecule_shows': molseq,
                                'reference_window': refseq[case['start']:case['start'] + case['len']]}))
    return dedup, info


def _fmt(calls):
    return {str(p): c for p, c in sorted(calls.items())}


def _rd(s):
    if s is None:
        return None
    return {'pos': s['pos'], 'cigar': s['cigar'], 'seq': s['query'], 'MD': s['md'], 'reverse': s['reverse']}


# ------------------------------------------------------------------------------------------------ engine interface
def run_shard(shard, tier, acc):
    for case in _cases(shard, tier):
        viols, info = run_case(case)
        refwin = _CONTIGS[case['contig']][case['start']:case['start'] + case['len']]
        nontrivial = any(b in 'CGcg' for b in refwin)
        acc.case(case, transitions=1 + info.get('ncalls', 0), execs=1, nontrivial=nontrivial,
                 outcome=f"{case['shape']}{'-unsafe' if case['unsafe'] else ''}:calls={info.get('letters') or '-'}")
        acc.count('calls_checked', info.get('ncalls', 0))
        acc.count('convertible_positions_that_must_stay_uncalled', info.get('nabsent', 0))
        acc.count('calls_required_by_the_oracle', info.get('nrequired', 0))
        acc.count('cases_with_a_required_call', 1 if info.get('nrequired', 0) else 0)
        for sig, d in viols:
            acc.violation(sig, case, d)


def replay(case):
    case = dict(case)
    case['sub'] = list(case['sub']) if case.get('sub') else None
    return run_case(case)[0]
