"""Evidence writer: validates against the harness schema before writing."""
import json
import os

VERIF = os.path.dirname(os.path.dirname(os.path.abspath(__file__)))
SCHEMA_PATHS = [os.path.join(VERIF, 'schemas', 'EVIDENCE.schema.json'), '/root/.vp/EVIDENCE.schema.json']


def _schema():
    for p in SCHEMA_PATHS:
        if os.path.exists(p):
            with open(p) as f:
                return json.load(f)
    return None


def write(pid, ev):
    schema = _schema()
    if schema is not None:
        import jsonschema
        jsonschema.validate(ev, schema)
    d = os.environ.get('VERIF_EVIDENCE_DIR') or os.path.join(VERIF, 'evidence')
    os.makedirs(d, exist_ok=True)
    tmp = os.path.join(d, f'.{pid}.json.tmp')
    with open(tmp, 'w') as f:
        json.dump(ev, f, indent=1, default=repr)
    os.replace(tmp, os.path.join(d, f'{pid}.json'))
