"""C18 - independent expectation for allele lookups, written from the property statement.

Reads the PLAIN VCF TEXT (no pysam, none of the code under test) and answers, for one configuration
(select_samples, ignore_conversions, phased), what a lookup must return at every site of the
*unambiguous core*:

  core site = REF and every ALT are single nucleotides (ALT "." = reference-only record), the position occurs once in the
              file, variants are treated as phased.  A selected sample with a missing allele makes the site "monomorphic":
              the called samples answer for their bases (documented by tests/test_alleles.py, position 40).
  * samples per base: exactly the selected samples whose genotype contains the base;
  * nothing (no base has an answer) when the selected samples show fewer than 2 distinct bases
    ("uninformative"), or when one of the shown bases b makes (REF, b) an ignored conversion;
  * nothing at positions without a record, and nothing on contigs without records.

Everything else (missing genotypes, multi-base alleles, phased=False whose labels the documentation does
not define) is UNKNOWN here and is only covered by the differential (all-modes-agree) part of the check.
"""

UNKNOWN = 'unknown'
NUC = set('ACGT')


def parse(vcf_text):
    samples = None
    recs = []
    for line in vcf_text.splitlines():
        if line.startswith('##') or not line.strip():
            continue
        f = line.split('\t')
        if line.startswith('#CHROM'):
            samples = f[9:]
            continue
        contig, pos, _id, ref, alt = f[:5]
        fmt = f[8].split(':')
        gi = fmt.index('GT')
        gts = [x.split(':')[gi] for x in f[9:]]
        recs.append((contig, int(pos) - 1, ref, alt.split(','), dict(zip(samples, gts))))
    return samples, recs


def expected(vcf_text, select=None, ignore=None, phased=True):
    """-> {contig: {pos0: UNKNOWN | {base: frozenset(samples)}}} for every position that has a record.
    An empty dict at a position means "nothing"."""
    samples, recs = parse(vcf_text)
    chosen = list(samples) if select is None else [s for s in samples if s in set(select)]
    out = {}
    seen = {}
    for contig, pos, ref, alts, gts in recs:
        seen[(contig, pos)] = seen.get((contig, pos), 0) + 1
    for contig, pos, ref, alts, gts in recs:
        site = out.setdefault(contig, {})
        if alts == ['.']:
            alts = []                       # a reference-only record (gVCF / all-sites VCF)
        alleles = [ref] + alts
        if (not phased or seen[(contig, pos)] > 1 or any(a not in NUC for a in alleles)
                or (select is not None and len(chosen) != len(set(select)))):
            site[pos] = UNKNOWN
            continue
        per_base = {}
        missing = False
        for s in chosen:
            for a in gts[s].replace('|', '/').split('/'):
                if a == '.':
                    missing = True
                else:
                    per_base.setdefault(alleles[int(a)], set()).add(s)
        if missing:
            # a selected sample without a call at the site ("monomorphic", pinned by the repository's own test at its position
            # 40): the samples that ARE called answer for their bases, however few distinct bases there are
            if not per_base:
                site[pos] = {}
            elif ignore and any((ref, b) in ignore for b in per_base):
                site[pos] = {}
            elif ignore and any((ref, a) in ignore for a in alts):
                site[pos] = UNKNOWN
            else:
                site[pos] = {b: frozenset(v) for b, v in per_base.items()}
            continue
        if len(per_base) < 2:
            site[pos] = {}
            continue
        if ignore:
            if any((ref, b) in ignore for b in per_base):
                site[pos] = {}
                continue
            if any((ref, a) in ignore for a in alts):
                site[pos] = UNKNOWN     # an ignored conversion is listed but not carried by the selection
                continue
        site[pos] = {b: frozenset(v) for b, v in per_base.items()}
    return out
