"""Known findings (committed, read-only at run time) and replay files."""
import hashlib
import json
import os

VERIF = os.path.dirname(os.path.dirname(os.path.abspath(__file__)))
KNOWN = os.path.join(VERIF, 'known_findings.jsonl')
REPLAYS = os.path.join(VERIF, 'replays')


def load(pid):
    """Return the `known` entries for this property. `fixed` entries suppress nothing."""
    out = []
    if not os.path.exists(KNOWN):
        return out
    with open(KNOWN) as f:
        for line in f:
            line = line.strip()
            if not line or line.startswith('#'):
                continue
            rec = json.loads(line)
            if rec.get('property') == pid and rec.get('kind') == 'known':
                out.append(rec)
    return out


def match(known, signature):
    """Exact signature match only: a different violation of the same property is still reported."""
    for rec in known:
        if rec.get('signature') == signature:
            return rec
    return None


def write_replay(pid, signature, case, detail, count):
    os.makedirs(REPLAYS, exist_ok=True)
    blob = json.dumps({'sig': signature, 'case': case}, sort_keys=True, default=repr)
    digest = hashlib.sha1(blob.encode()).hexdigest()[:12]
    path = os.path.join(REPLAYS, f'{pid}-{digest}.json')
    mod = 'props.' + pid.lower()
    script = (
        "# stand-alone replay (no explorer): run from /verif with /venv/bin/python\n"
        "import json, sys\n"
        "sys.path.insert(0, '/verif')\n"
        "from mc import bind; bind.bind()\n"
        f"import {mod} as m\n"
        "getattr(m, 'setup', lambda: None)()\n"
        f"case = json.load(open({path!r}))['case']\n"
        "res = m.replay(case)\n"
        "print(res)\n"
        "assert not res, 'property violated'\n")
    rec = {
        'property': pid,
        'signature': signature,
        'cases_with_this_signature': count,
        'case': case,
        'detail': detail,
        'replay_cmd': f'./check {pid} --replay {path}',
        'standalone_script': script,
    }
    with open(path, 'w') as f:
        json.dump(rec, f, indent=1, default=repr)
    return path
