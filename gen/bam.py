"""Small BAM files for the pipeline-level checks (C05, C08, C20)."""
import os

import pysam

from gen.reads import debruijn_like, revcomp

BG = debruijn_like(400, avoid=('CATG',))


def hdr(contigs):
    return pysam.AlignmentHeader.from_dict({'HD': {'VN': '1.6', 'SO': 'coordinate'},
                                            'SQ': [{'SN': n, 'LN': l} for n, l in contigs]})


def _mk(h, name, seq, flag, contig, pos, cigar, mate_contig, mate_pos, tags, mapq=60, qual=None):
    r = pysam.AlignedSegment(h)
    r.query_name = name
    r.query_sequence = seq
    r.query_qualities = pysam.qualitystring_to_array(qual or ('F' * len(seq)))
    r.flag = flag
    r.reference_id = -1 if contig is None else h.get_tid(contig)
    r.reference_start = -1 if contig is None else pos
    if cigar:
        r.cigarstring = cigar
    r.mapping_quality = mapq if not (flag & 4) else 0
    r.next_reference_id = -1 if mate_contig is None else h.get_tid(mate_contig)
    r.next_reference_start = -1 if mate_contig is None else mate_pos
    for k, v in tags.items():
        r.set_tag(k, v)
    return r


def base_tags(cell, umi, lib='LIB', mx='NLAIII384C8U3'):
    return {'SM': f'{lib}_{cell}', 'RX': umi, 'RQ': 'F' * len(umi), 'BC': 'ACGTACGT', 'bc': 'ACGTACGT', 'bi': int(cell), 'MX': mx,
            'LY': lib, 'Fc': 'FLOWCELL', 'La': '1', 'Is': 'INSTR', 'RN': '1', 'Ti': '1101', 'CX': '100', 'CY': '200'}


class Builder:
    """Collects reads, writes a coordinate-sorted, indexed BAM."""

    def __init__(self, contigs, rlen=20):
        self.contigs = list(contigs)
        self.h = hdr(self.contigs)
        self.reads = []
        self.n = 0
        self.rlen = rlen

    def _name(self, prefix='q'):
        self.n += 1
        return f'{prefix}{self.n:04d}'

    def seq_nla(self, k=0, motif='CATG'):
        body = BG[(13 * k) % 200:(13 * k) % 200 + self.rlen - len(motif)]
        return motif + body

    def pair(self, contig, site, cell=1, umi='AAA', reverse=False, frag=50, motif='CATG', mx='NLAIII384C8U3', method='nla',
             r2_unmapped=False, r1_only_in_file=False, r2_contig=None, r2_pos=None, dup=False, qcfail=False, name=None, mapq=60,
             extra_tags=None):
        """A fragment whose NlaIII motif starts at `site` (nla) / whose CHIC site is `site` (chic)."""
        rl = self.rlen
        name = name or self._name()
        tags = base_tags(cell, umi, mx=mx)
        if extra_tags:
            tags.update(extra_tags)
        read_seq = self.seq_nla(self.n, motif)
        if method == 'chic':
            # trimmed scCHIC layout (MX starts with scCHIC): the ligated base was removed by the demultiplexer,
            # forward reads start 2 after the site, reverse reads end 1 before it
            start_f = site + 2
            end_r = site - 1
        else:
            start_f = site
            end_r = site + 4
        fl_extra = (0x400 if dup else 0) | (0x200 if qcfail else 0)
        if not reverse:
            p1, s1, rev1 = start_f, read_seq, False
            p2, rev2 = start_f + frag - rl, True
        else:
            p1, s1, rev1 = end_r - rl, revcomp(read_seq), True
            p2, rev2 = end_r - frag, False
        s2 = BG[150:150 + rl]
        if r2_contig is not None:
            # mates on different contigs
            f1 = 0x1 | 0x40 | (0x10 if rev1 else 0) | (0x20 if rev2 else 0) | fl_extra
            f2 = 0x1 | 0x80 | (0x10 if rev2 else 0) | (0x20 if rev1 else 0) | fl_extra
            self.reads.append(_mk(self.h, name, s1, f1, contig, p1, f'{rl}M', r2_contig, r2_pos, tags, mapq))
            self.reads.append(_mk(self.h, name, s2, f2, r2_contig, r2_pos, f'{rl}M', contig, p1, tags, mapq))
            return name
        if r2_unmapped:
            f1 = 0x1 | 0x40 | 0x8 | (0x10 if rev1 else 0) | fl_extra
            f2 = 0x1 | 0x80 | 0x4 | (0x20 if rev1 else 0) | fl_extra
            self.reads.append(_mk(self.h, name, s1, f1, contig, p1, f'{rl}M', contig, p1, tags, mapq))
            self.reads.append(_mk(self.h, name, s2, f2, contig, p1, None, contig, p1, tags, mapq))
            return name
        f1 = 0x1 | 0x2 | 0x40 | (0x10 if rev1 else 0) | (0x20 if rev2 else 0) | fl_extra
        f2 = 0x1 | 0x2 | 0x80 | (0x10 if rev2 else 0) | (0x20 if rev1 else 0) | fl_extra
        self.reads.append(_mk(self.h, name, s1, f1, contig, p1, f'{rl}M', contig, p2, tags, mapq))
        if not r1_only_in_file:
            self.reads.append(_mk(self.h, name, s2, f2, contig, p2, f'{rl}M', contig, p1, tags, mapq))
        return name

    def single(self, contig, site, cell=1, umi='AAA', reverse=False, motif='CATG', mx='NLAIII384C8U3SE', method='nla', length=None,
               name=None, dup=False):
        rl = length or self.rlen
        name = name or self._name()
        tags = base_tags(cell, umi, mx=mx)
        read_seq = motif + BG[(7 * self.n) % 200:(7 * self.n) % 200 + rl - len(motif)]
        if not reverse:
            p, s = (site + 2 if method == 'chic' else site), read_seq
        else:
            p, s = ((site - 1 if method == 'chic' else site + 4) - rl), revcomp(read_seq)
        self.reads.append(_mk(self.h, name, s, (0x10 if reverse else 0) | (0x400 if dup else 0), contig, p, f'{rl}M', None, -1, tags))
        return name

    def unmapped_pair(self, cell=1, umi='AAA', name=None):
        name = name or self._name('u')
        tags = base_tags(cell, umi)
        rl = self.rlen
        self.reads.append(_mk(self.h, name, BG[40:40 + rl], 0x1 | 0x4 | 0x8 | 0x40, None, -1, None, None, -1, tags))
        self.reads.append(_mk(self.h, name, BG[90:90 + rl], 0x1 | 0x4 | 0x8 | 0x80, None, -1, None, None, -1, tags))
        return name

    def placed_unmapped_orphan(self, contig, pos, cell=1, umi='AAA', name=None, read2=True):
        """an unmapped read that the aligner placed on `contig` (next to a mate that is not in the file): idxstats counts it
        as an unmapped read OF THAT CONTIG"""
        name = name or self._name('o')
        tags = base_tags(cell, umi)
        flag = 0x1 | 0x4 | (0x80 if read2 else 0x40)
        self.reads.append(_mk(self.h, name, BG[60:60 + self.rlen], flag, contig, pos, None, contig, pos, tags))
        return name

    def write(self, path):
        def key(r):
            if r.reference_id < 0:
                return (1 << 30, 0)
            return (r.reference_id, r.reference_start)
        order = sorted(range(len(self.reads)), key=lambda i: (key(self.reads[i]), i))
        with pysam.AlignmentFile(path, 'wb', header=self.h) as out:
            for i in order:
                out.write(self.reads[i])
        pysam.index(path)
        return path


def records(path, primary_only=True):
    """canonical record list of a BAM: dicts with the fields the conservation oracles compare"""
    out = []
    with pysam.AlignmentFile(path, check_sq=False) as f:
        for r in f.fetch(until_eof=True):
            if primary_only and (r.is_secondary or r.is_supplementary):
                continue
            out.append({
                'name': r.query_name, 'mate': 1 if r.is_read1 else (2 if r.is_read2 else 0), 'paired': r.is_paired,
                'seq': r.query_sequence, 'qual': ''.join(chr(q + 33) for q in (r.query_qualities or [])),
                'tid': r.reference_id, 'contig': r.reference_name, 'pos': r.reference_start, 'cigar': r.cigarstring,
                'flag': r.flag, 'unmapped': r.is_unmapped, 'dup': r.is_duplicate, 'qcfail': r.is_qcfail,
                'tags': dict(r.get_tags()),
            })
    return out


def is_coordinate_sorted(recs):
    last = None
    seen_unplaced = False
    for r in recs:
        if r['tid'] < 0:
            seen_unplaced = True
            continue
        if seen_unplaced:
            return False
        k = (r['tid'], r['pos'])
        if last is not None and k < last:
            return False
        last = k
    return True
