#!/venv/bin/python
"""Regenerate /verif/seeded/README.md from the meta.json files."""
import glob
import json
import os

VERIF = os.path.dirname(os.path.dirname(os.path.abspath(__file__)))
rows = []
for f in sorted(glob.glob(os.path.join(VERIF, 'seeded', '*', 'meta.json'))):
    m = json.load(open(f))
    notes = m.get('needs_to_manifest', '')
    first = ' '.join(notes.strip().split('\n')[0:3]).replace('|', '/')[:230]
    caught = ', '.join(m.get('caught_by', [])) or '**none**'
    sigs = []
    for c in m.get('caught_by', []):
        sigs += m['checks'][c]['signatures'][:1]
    suite = m.get('suite', {})
    rows.append((m['name'], m['property'], 'yes' if m.get('confirmed') else 'NO',
                 f"{suite.get('passed', '?')}/{suite.get('failed', '?')}", caught, '; '.join(sigs)[:120], first))
with open(os.path.join(VERIF, 'seeded', 'README.md'), 'w') as o:
    o.write('# Seeded property-breaking changes\n\n'
            'Written by independent agents that saw only the text of one property and a scratch worktree of /repo (nothing from /verif).\n'
            'Each directory holds `patch.diff` (against the /repo HEAD the checks pass on), `demo.py` (exits 0 on the unchanged code,\n'
            '1 with the change; run as `cd <worktree> && /venv/bin/python demo.py`), `notes.md` and `meta.json` (what was run and observed:\n'
            'demo exit codes, repository suite result with the change, every check run against the patched scratch worktree with its exit\n'
            'code and signatures).  Verified with `tools/seed_verify.py`; none of these changes was ever applied to /repo itself.  `briefs/` holds the task descriptions the seeding agents received (TASK.md ... TASK6.md, one per wave; TASKB.md for the behaviour-preserving changes under /verif/benign). A change whose `meta.json` carries `open: true` is not caught by any check; the reason is given in its `first_run` field and in DESIGN.md section 16.\n\n'
            '| seed | property | confirmed (demo 0/1, suite 81) | suite passed/failed | caught by | first signature | what it is / needs |\n'
            '|---|---|---|---|---|---|---|\n')
    for r in rows:
        o.write('| ' + ' | '.join(r) + ' |\n')
    n = len(rows)
    c = sum(1 for r in rows if r[4] != '**none**')
    o.write(f'\n{c} of {n} seeded changes are caught by at least one check (quick tier).\n')
print(open(os.path.join(VERIF, 'seeded', 'README.md')).read()[-300:])
