"""C12 input generator: tagged BAMs (several contigs and cells, DS site tags on / next to every possible
job boundary, sites far from the read, allele key tag, and every kind of record that must NOT be counted),
written with pysam, coordinate sorted and indexed.

A BAM is described by a picklable/JSON-able spec  [variant, D, min_mq, layout]:

  variant 'core'  every record's site lies on its contig (0 <= DS < length)
          'edge'  core + read-1 records whose DS lies just outside the contig (-2, -1, length, length+1):
                  what the package's own CHiC tagger writes for a read that touches a contig end
                  (fragment/chic.py: site = reference_start-1 / reference_end)
          'ext'   core + more filter letters on the job boundaries: records WITHOUT an SM tag (countable, and
                  as duplicate), read 2 of a discordant pair, complete pairs (read 1 + read 2 both tagged, properly
                  paired and discordant: only read 1 counts), MAPQ threshold+1 / 255, mp 'bad' / 'unknown',
                  and records with two reasons not to be counted (duplicate+mp, duplicate+low MAPQ, mp+low MAPQ)
                  so that switching ONE filter off (dedup=False, ignore_mp) must not let them through
          'extsm' ext without the records that lack SM (for the entry point that has no default cell name)
          'sparse' a few records only, every site in a stretch no alignment overlaps (read up to D bases beside it)
          'nods'  core + records WITHOUT a DS tag (reads starting / ending on a job boundary, both strands, with
                  and without SM, and as duplicate / read 2): the property does not say in which bin such a
                  record belongs, only that it is counted once and the same way for every job split
  an optional 5th element names a second library made from the same records: 'L2all' every cell renamed
  (cell -> cell_L2), 'L2B' only cellB renamed, 'L2none' same cell names (two lanes of one library)
  D       the distance parameter: 'far' records have their site D bases away from the nearest aligned base
          (or as far as the contig allows); the BAM is meant for max_fragment_size == D, so that the
          property's assumption  |DS - read span| <= max_fragment_size  holds for every record and is tight
  min_mq  the mapping-quality threshold the BAM is meant for (records at the threshold and one below it)
  layout  index into LAYOUTS (contig names and lengths)

records(spec) returns the abstract record list (dicts); every record carries `labels`, used only to explain
a discrepancy (never by the oracle, which reads the BAM back).
"""
import os

import pysam

from . import reads as R

LAYOUTS = [
    [('c1', 500), ('c2', 330), ('c3', 60)],              # multiple of every bin size / ragged end / shorter than two bins
    [('k1', 600), ('k2', 251), ('k3', 249), ('k4', 50)],  # one past / one short of a bin multiple / exactly one bin
]
RL = 20                     # read length
STEP = 50                   # every job boundary of every configuration is a multiple of this
CELLS = ['cellA', 'cellB', 'cellC']
ALLELES = [None, 'a', 'b']


def sites_of(length):
    s = {0, 1, length - 2, length - 1}
    for k in range(1, length // STEP + 1):
        for d in (-1, 0, 1):
            if 0 <= k * STEP + d < length:
                s.add(k * STEP + d)
    return sorted(x for x in s if 0 <= x < length)


def distance(site, rs, re):
    """distance of a site to the nearest aligned base of a read spanning [rs, re)"""
    if site < rs:
        return rs - site
    if site >= re:
        return site - (re - 1)
    return 0


def _placements(site, length, D):
    """(label, reference_start) of the reads generated for one site"""
    out = []
    if site + RL <= length:
        out.append(('site-at-read-start', site))
    if site - RL + 1 >= 0:
        out.append(('site-at-read-end', site - RL + 1))
    d = min(D, site - RL + 1)
    if d >= 1:
        out.append((f'read-left-of-site:{"dist=max" if d == D else "dist<max"}', site - d - RL + 1))
    d = min(D, length - RL - site)
    if d >= 1:
        out.append((f'read-right-of-site:{"dist=max" if d == D else "dist<max"}', site + d))
    return out


def records(spec):
    variant, D, min_mq, layout = spec
    recs = []
    n = [0]

    def add(contig, pos, site, reverse, labels, **kw):
        i = n[0]
        n[0] += 1
        rec = {'name': f'r{i:04d}', 'contig': contig, 'pos': pos, 'site': site, 'reverse': reverse,
               'cell': CELLS[i % 3], 'da': ALLELES[(i // 3 + i // 7) % 3], 'mapq': 60, 'dup': False, 'qcfail': False,
               'read2': False, 'mp': None, 'proper': True, 'labels': list(labels)}
        rec.update(kw)
        recs.append(rec)

    if variant == 'sparse':
        # a handful of records per contig, each with its site up to D bases beside the read in a stretch that NO alignment
        # overlaps (coverage gaps wider than a job): the job that owns the site sees nothing but its padding
        for contig, length in LAYOUTS[layout]:
            if length < 3 * RL:
                add(contig, 0, RL // 2, False, ['sparse', 'site-inside-read'])
                continue
            k = len(recs)
            if k % 2 == 0:
                pos = length - RL
                for site in sorted({max(0, pos - D), max(0, pos - D // 2)}):
                    for reverse in (False, True):
                        add(contig, pos, site, reverse, ['sparse', 'read-right-of-site', 'rev' if reverse else 'fwd'])
            else:
                for site in sorted({min(length - 1, RL - 1 + D), min(length - 1, RL - 1 + D // 2)}):
                    for reverse in (False, True):
                        add(contig, 0, site, reverse, ['sparse', 'read-left-of-site', 'rev' if reverse else 'fwd'])
        return recs
    for contig, length in LAYOUTS[layout]:
        # ---- plain countable records: every boundary-ish site x placement x strand
        for site in sites_of(length):
            for label, pos in _placements(site, length, D):
                for reverse in (False, True):
                    add(contig, pos, site, reverse, ['plain', label, 'rev' if reverse else 'fwd'])
        # ---- special records on boundaries (site k*50 owned by the right job, k*50-1 by the left one)
        special_sites = [s for s in (0, STEP - 1, STEP, 2 * STEP - 1, 2 * STEP, 5 * STEP - 1, 5 * STEP, length - 1)
                         if 0 <= s < length]
        kinds = [
            ('mapq-at-threshold', {'mapq': min_mq}),
            ('mp-unique', {'mp': 'unique'}),
            ('not-proper-pair', {'proper': False}),
            ('duplicate', {'dup': True}),
            ('qcfail', {'qcfail': True}),
            ('read2', {'read2': True}),
            ('mapq-below-threshold', {'mapq': min_mq - 1}),
            ('mapq-0', {'mapq': 0}),
            ('mp-not-unique', {'mp': 'multi'}),
            ('duplicate+qcfail', {'dup': True, 'qcfail': True}),
        ]
        for j, site in enumerate(special_sites):
            pl = _placements(site, length, D)
            for k, (kind, kw) in enumerate(kinds):
                label, pos = pl[(j + k) % len(pl)]
                # the cell is the (j mod 3)-th base-3 digit of k: every kind gets its own (site, cell) footprint,
                # so that "kind K counted f times" explanations of a discrepancy do not coincide
                add(contig, pos, site, bool((j + k) % 2), [kind, label], cell=CELLS[(k // 3 ** (j % 3)) % 3], **kw)
        if variant == 'edge':
            for site, pos, reverse in ((-1, 0, False), (-2, 0, False), (length, length - RL, True),
                                       (length + 1, length - RL, True)):
                for rep in range(2):
                    add(contig, pos, site, reverse, ['site<0' if site < 0 else 'site>=contig-length'])
        if variant in ('ext', 'extsm'):
            xkinds = [
                ('no-SM', {'cell': None}),
                ('mapq-above-threshold', {'mapq': min(min_mq + 1, 255)}),
                ('mapq-255', {'mapq': 255}),
                ('pair-proper-complete', {'with_mate': True}),
                ('pair-discordant-complete', {'with_mate': True, 'proper': False, 'mate_unmapped': False}),
                ('no-SM+duplicate', {'cell': None, 'dup': True}),
                ('read2-not-proper', {'read2': True, 'proper': False}),
                ('mp-bad', {'mp': 'bad'}),
                ('mp-unknown', {'mp': 'unknown'}),
                ('duplicate+mp-not-unique', {'dup': True, 'mp': 'multi'}),
                ('duplicate+mapq-below-threshold', {'dup': True, 'mapq': min_mq - 1}),
                ('mp-not-unique+mapq-below-threshold', {'mp': 'multi', 'mapq': min_mq - 1}),
                ('qcfail+mp-not-unique', {'qcfail': True, 'mp': 'multi'}),
            ]
            for j, site in enumerate(special_sites):
                pl = _placements(site, length, D)
                for k, (kind, kw) in enumerate(xkinds):
                    label, pos = pl[(j + k + 1) % len(pl)]
                    kw = dict(kw)
                    if variant == 'extsm' and 'cell' in kw:
                        continue                    # 'extsm': every record has a cell name
                    kw.setdefault('cell', CELLS[(k // 3 ** (j % 3) + j) % 3])
                    add(contig, pos, site, bool((j + k + 1) % 2), [kind, label], **kw)
        if variant == 'nods':
            nkinds = [
                ('no-DS', {}),
                ('no-DS+no-SM', {'cell': None}),
                ('no-DS+duplicate', {'dup': True}),
                ('no-DS+read2', {'read2': True}),
            ]
            for j, site in enumerate(special_sites):
                # a read that STARTS on the boundary-ish coordinate and one that ENDS on it, both strands
                for pos in (site, site - RL):
                    if pos < 0 or pos + RL >= length:
                        continue
                    for reverse in (False, True):
                        for k, (kind, kw) in enumerate(nkinds):
                            kw = dict(kw)
                            kw.setdefault('cell', CELLS[(j + k) % 3])
                            add(contig, pos, None, reverse,
                                [kind, 'read-starts-on-boundary' if pos == site else 'read-ends-on-boundary',
                                 'rev' if reverse else 'fwd'], **kw)
    return recs


LIB2 = {'L2all': None, 'L2B': ('cellB',), 'L2none': ()}


def lib2_cell(cell, which):
    """name of `cell` in the second library `which`"""
    only = LIB2[which]
    if cell is None:
        return None
    return cell + '_L2' if (only is None or cell in only) else cell


def write_bam(spec, path):
    """Write the BAM of `spec` to `path` (coordinate sorted, indexed). Returns the record list."""
    recs = records(list(spec[:4]))
    lib2 = spec[4] if len(spec) > 4 else None
    hdr = R.header(LAYOUTS[spec[3]])
    unsorted = path + '.unsorted.bam'
    with pysam.AlignmentFile(unsorted, 'wb', header=hdr) as out:
        for rec in recs:
            tags = {}
            cell = rec['cell'] if lib2 is None else lib2_cell(rec['cell'], lib2)
            if cell is not None:
                tags['SM'] = cell
            if rec['site'] is not None:
                tags['DS'] = rec['site']
            if rec['da'] is not None:
                tags['DA'] = rec['da']
            if rec['mp'] is not None:
                tags['mp'] = rec['mp']
            if rec['qcfail']:
                tags['RR'] = 'rejected'
            flag_extra = (0x400 if rec['dup'] else 0) | (0x200 if rec['qcfail'] else 0)
            proper = rec['proper']
            mate_unmapped = rec.get('mate_unmapped', not proper)
            mate = (rec['contig'], rec['pos'], not rec['reverse'], mate_unmapped)
            out.write(R.make_read(hdr, rec['name'], 'A' * RL, rec['contig'], rec['pos'], f'{RL}M',
                                  reverse=rec['reverse'], read1=not rec['read2'], paired=True, mate=mate,
                                  mapq=rec['mapq'], tags=tags, proper=proper, flag_extra=flag_extra))
            if rec.get('with_mate'):
                # the other read of the pair, same name, same tags (the tagger writes DS / SM on both reads)
                mate = (rec['contig'], rec['pos'], rec['reverse'], False)
                out.write(R.make_read(hdr, rec['name'], 'A' * RL, rec['contig'], rec['pos'], f'{RL}M',
                                      reverse=not rec['reverse'], read1=rec['read2'], paired=True, mate=mate,
                                      mapq=rec['mapq'], tags=tags, proper=proper, flag_extra=flag_extra))
    pysam.sort('-o', path, unsorted)
    os.unlink(unsorted)
    pysam.index(path)
    return recs


class PropertyFilter:
    """filter_function for get_binned_counts(R1, R2): the module's own documented record filter (read_counts)
    configured as the property words it (read 1, not duplicate, not QC-failed, MAPQ >= threshold, not marked
    as non-unique).  Picklable, so it crosses the process boundary of a real Pool."""

    def __init__(self, min_mq):
        self.min_mq = min_mq

    def __call__(self, R1, R2):
        from singlecellmultiomics.bamProcessing.bamBinCounts import read_counts
        if R1 is None:
            return False
        return read_counts(R1, min_mq=self.min_mq, dedup=True, read1_only=True)
