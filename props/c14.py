"""C14 - TAPS methylation calls reflect reference context and observed conversion.

Seam: <TAPS molecule class>.__finalise__() on in-memory fragments with a real pysam.FastaFile, for all six TAPS
molecule classes (TAPSMolecule, TAPSNlaIIIMolecule, TAPSCHICMolecule, AnnotatedTAPSNlaIIIMolecule,
AnnotatedTAPSCHICMolecule, TAPSPTaggedMolecule).
Reference: a de-Bruijn word of order 3 over ACGTN (every 3-base context incl. non-ACGT bases), short contigs which
put a G at positions 0/1 and a C at the last two positions next to every letter (contexts truncated at both contig
ends), contigs shorter than a context (C, G, CG, GC), a soft-masked contig, the same word in both mixed-case phases and
a contig with the IUPAC letters R / Y next to C and G.
Space: EVERY window (start, length <= Lmax) of every contig x EVERY subset of the window's C/G positions converted
(C>T, G>A - so conversions on the wrong strand occur as well) [+ for the fully overlapping pair every single C/G
position read as a non-conversion substitution or as N] x strand +/- x taps_strand F/R x fragment shape x molecule
class; plus the vote family (one C/G position shown differently by the mate / by further fragments of the molecule /
filtered by min_phred_score) and the retag family (set_methylation_call_tags with custom tag names and a subset of the
reads).  Oracle: oracles/c14_caller.py (independent caller from the Bismark definition and the property text).
"""
import atexit
import os
import shutil
import tempfile

from mc.bind import HarnessError
from gen import c14_taps as G
from oracles import c14_caller as O

ID = 'C14'
DESIGN_REF = 'DESIGN.md section 3, C14'
RULE = ('full product: every window (start, length 1..Lmax) of every contig of the reference (de-Bruijn word of order 3 '
        'over ACGTN + contig-end contigs + contigs shorter than a context + soft-masked contig + mixed-case contigs + '
        'IUPAC R/Y contig) x every subset of the C/G positions of the window '
        'converted (for shape full additionally every single C/G position substituted by the non-conversion base / N) x '
        'strand x taps_strand x fragment shape (single R1 safe/unsafe, fully overlapping pair, split pair, pair with an uncovered gap, dove-tailed '
        'pair by 1 [thorough: by 2], outward-facing pair without any safe span, improper pair with both mates on one strand (not for the CHIC classes, whose fragment class rejects it), pair with 1I in R1 and 1D in R2, pair whose R1 '
        'is spliced (1N), pair with soft clips at both 3\' ends and the 5\' end of R2, single read with 1D(+1I); the last six '
        'on windows <= thin_window) x class (TAPSNlaIIIMolecule with soft-clipped CATG, TAPSCHICMolecule); '
        'family var: the same product on windows <= var_window for TAPSMolecule, AnnotatedTAPSNlaIIIMolecule, '
        'AnnotatedTAPSCHICMolecule, TAPSPTaggedMolecule, with pairs also under allow_unsafe_base_calls=True (for the two '
        'first classes only those); family vote: on windows of vote_window lengths, for every C/G position and both '
        'readings of it: R2 shows the opposite / another base / N x mate qualities R1>R2, R1<R2, equal; min_phred_score '
        'keeping both mates (equal to the lower quality) / R1 only / nothing; 1..3 further fragments showing the same / '
        'opposite / third base / N there (even splits, majorities, three-way ties); family retag: after __finalise__ '
        'set_methylation_call_tags(call_dict, nine custom tag names, reads = all / the R1s / the R2s) on molecules of 1 '
        'and 2 fragments; one real __finalise__ per case; non-trivial = the window holds a C or G; states = distinct cases')
ASSUMPTIONS = [
    'reads carry a correct MD tag (the reference base is taken from it) and are in BAM orientation',
    'outside the vote family both mates and all fragments show the same molecule sequence; inside it the consensus is '
    'the one the package defines (property C13): one call per fragment (higher-quality mate; equal-quality mates which '
    'disagree, or N, are no call), the base called by strictly more fragments than any other, ties absent; '
    'min_phred_score removes bases below it (tapsTabulator -min_phred_score help text)',
    'the never-outside-the-safe-span clause is evaluated for allow_unsafe_base_calls=False (the default); '
    'with allow_unsafe_base_calls=True every read base may be called (single-end fragments: must be; pairs: must be '
    'inside the safe span, may be outside)',
    'a call is REQUIRED only where every reading of the statement yields one: position inside the safe span of a pair '
    '(or anywhere on the read with allow_unsafe_base_calls=True), on the expected reference base, complete ACGT '
    'three-base context, consensus base equal to the reference or to the conversion; CpG with an unknown third base '
    'may be called z or left out; a single-end fragment in safe mode may be called or left out',
    'a consensus base which is neither reference nor conversion may give no call or a lower-case call, never upper case',
    'for an improper pair with both mates on one strand the safe span is undefined: nothing is demanded and nothing is '
    'forbidden by the span clause; the calls which are made, XM and the totals are judged as everywhere else',
    'taps_strand F: forward molecules (R1 forward) are called on reference C, reverse molecules on G; R: the opposite',
    'retag family: the reads handed to set_methylation_call_tags carry the nine custom tags with the values the '
    'statement gives XM / the totals; reads outside the subset do not get them (docstring: "reads to write the tags to")',
]

TAGS = ('MC', 'uC', 'sZ', 'sz', 'sX', 'sx', 'sH', 'sh')
_STATE = {'dir': None, 'path': None, 'owner': None, 'fasta': None, 'fasta_pid': None, 'taps': None, 'hdr': None,
          'features': None}
_CONTIGS = dict(G.contigs())


# ------------------------------------------------------------------------------------------------ setup
def setup():
    try:
        G.self_check()
    except ValueError as e:
        raise HarnessError(str(e))
    d = tempfile.mkdtemp(dir='/dev/shm', prefix='c14_')
    path = os.path.join(d, 'ref.fa')
    G.write_fasta(path)
    if not os.path.exists(path + '.fai'):
        raise HarnessError('faidx did not produce an index')
    _STATE.update(dir=d, path=path, owner=os.getpid())
    atexit.register(_cleanup)


def _cleanup():
    if _STATE['owner'] == os.getpid() and _STATE['dir'] and os.path.isdir(_STATE['dir']):
        shutil.rmtree(_STATE['dir'], ignore_errors=True)


def _env():
    """per process: an own FastaFile handle (never shared over fork), one TAPS instance, one header"""
    import pysam
    if _STATE['path'] is None:
        setup()
    if _STATE['fasta'] is None or _STATE['fasta_pid'] != os.getpid():
        _STATE['fasta'] = pysam.FastaFile(_STATE['path'])
        _STATE['fasta_pid'] = os.getpid()
        for name, seq in _CONTIGS.items():
            if _STATE['fasta'].fetch(name) != seq:
                raise HarnessError(f'FASTA round trip differs for {name}')
        from singlecellmultiomics.molecule import TAPS
        _STATE['taps'] = TAPS()
        _STATE['hdr'] = G.make_header()
        from singlecellmultiomics.features import FeatureContainer
        _STATE['features'] = FeatureContainer()          # empty annotation: the Annotated* classes demand one
    return _STATE['fasta'], _STATE['taps'], _STATE['hdr']


# ------------------------------------------------------------------------------------------------ space
OLD_CLASSES = ('chic', 'nla')
NEW_CLASSES = ('plain', 'nla_annot', 'chic_annot', 'nla_ptag')
CLASS_NAMES = {'nla': 'TAPSNlaIIIMolecule', 'chic': 'TAPSCHICMolecule', 'plain': 'TAPSMolecule',
               'nla_annot': 'AnnotatedTAPSNlaIIIMolecule', 'chic_annot': 'AnnotatedTAPSCHICMolecule',
               'nla_ptag': 'TAPSPTaggedMolecule'}
RETAG_MODES = ('all', 'R1', 'R2')
RETAG_SHAPES = ('full', 'split', 'single')
CUSTOM_TAGS = {'bismark_call_tag': 'yM', 'total_methylated_tag': 'yC', 'total_unmethylated_tag': 'yU',
               'total_methylated_CPG_tag': 'yA', 'total_unmethylated_CPG_tag': 'yB',
               'total_methylated_CHG_tag': 'yD', 'total_unmethylated_CHG_tag': 'yE',
               'total_methylated_CHH_tag': 'yF', 'total_unmethylated_CHH_tag': 'yG'}
# custom tag -> the default tag whose value the statement defines
CUSTOM_TOTALS = {'yC': 'MC', 'yU': 'uC', 'yA': 'sZ', 'yB': 'sz', 'yD': 'sX', 'yE': 'sx', 'yF': 'sH', 'yG': 'sh'}


def bounds(tier):
    b = {'contigs': {n: len(s) for n, s in _CONTIGS.items()},
         'classes': {'full product': [CLASS_NAMES[c] for c in OLD_CLASSES],
                     'var family': [CLASS_NAMES[c] for c in NEW_CLASSES]},
         'strands': ['+', '-'], 'taps_strand': ['F', 'R'],
         'conversion_patterns': 'every subset of the C/G positions of the window',
         'substitutions': 'shape full: every single C/G position as non-conversion base and as N',
         'vote_family': {'contigs': list(PLAIN_CONTIGS), 'shapes': list(G.VOTE_SHAPES), 'mate_qualities_R1_R2': [list(q) for q in G.MATE_QUALS],
                         'R2_shows': ['opposite', 'non-conversion substitution', 'N'],
                         'min_phred_score': list(G.MIN_PHREDS),
                         'further_fragments_show': [list(p) for p in G.COPY_PATTERNS]},
         'retag_family': {'contigs': list(PLAIN_CONTIGS), 'modes': list(RETAG_MODES), 'shapes': list(RETAG_SHAPES),
                          'fragments': {CLASS_NAMES['plain']: 1, CLASS_NAMES['chic']: 2},
                          'custom_tags': CUSTOM_TAGS, 'classes': [CLASS_NAMES['plain'], CLASS_NAMES['chic']]}}
    if tier == 'quick':
        b.update({'max_window': 6, 'shapes': list(G.SHAPES_QUICK), 'single_unsafe': [False, True],
                  'thin_shapes': list(G.SHAPES_THIN), 'thin_window': 4, 'var_window': 2, 'var_pairs_unsafe': [False, True],
                  'vote_windows': [3], 'vote_classes': [CLASS_NAMES['chic']], 'retag_window': 2})
    else:
        b.update({'max_window': 8, 'shapes': list(G.SHAPES_THOROUGH), 'single_unsafe': [False, True],
                  'thin_shapes': list(G.SHAPES_THIN), 'thin_window': 8, 'var_window': 4, 'var_pairs_unsafe': [False, True],
                  'vote_windows': [2, 3, 4], 'vote_classes': [CLASS_NAMES['chic'], CLASS_NAMES['nla']],
                  'retag_window': 3})
    return b


NSPLIT = 4


def shards(tier):
    out = []
    for cls in OLD_CLASSES:
        for taps_strand in ('F', 'R'):
            for strand in ('+', '-'):
                for k in range(NSPLIT):
                    out.append((cls, taps_strand, strand, k))
                out.append((cls, taps_strand, strand, 'long'))
    for cls in NEW_CLASSES + OLD_CLASSES:
        for taps_strand in ('F', 'R'):
            for strand in ('+', '-'):
                out.append((cls, taps_strand, strand, 'var'))
    for cls in (OLD_CLASSES[:1] if tier == 'quick' else OLD_CLASSES):
        for taps_strand in ('F', 'R'):
            for strand in ('+', '-'):
                for k in range(NSPLIT):
                    out.append((cls, taps_strand, strand, f'vote{k}'))
    for cls in ('plain', 'chic'):
        for taps_strand in ('F', 'R'):
            for strand in ('+', '-'):
                out.append((cls, taps_strand, strand, 'retag'))
    return out


def _shapes_for(b, L, cls):
    # CHICFragment declares a same-strand pair invalid (the tagger never builds a molecule from it)
    return [sh for sh in b['shapes'] if (sh not in b['thin_shapes'] or L <= b['thin_window'])
            and not (sh in G.UNORIENTED_SHAPES and cls in ('chic', 'chic_annot'))]


# the vote and retag families do not depend on the letter case / ambiguity letters of the reference
PLAIN_CONTIGS = tuple(n for n in _CONTIGS if n not in (G.LONG, 'lc', 'mx0', 'mx1', 'iu'))


def _windows(L, k=None, contigs=None):
    for contig, seq in _CONTIGS.items():
        if contig == G.LONG or (contigs is not None and contig not in contigs):
            continue
        for start in range(0, len(seq) - L + 1):
            if k is not None and start % NSPLIT != k:
                continue
            yield contig, seq, start


def _cases(shard, tier):
    cls, taps_strand, strand, k = shard
    b = bounds(tier)
    fixed = {'cls': cls, 'strand': strand, 'taps_strand': taps_strand}
    if k == 'long':
        # molecules tiled in coordinate order over the long contig through ONE TAPS handler and ONE FastaFile, the way the
        # tagger processes a contig: state kept between molecules (reference windows, memoised contexts) is exercised
        seq = _CONTIGS[G.LONG]
        L = 8
        for start in range(0, len(seq) - L + 1):
            for c in G.window_cases(G.LONG, seq, start, L, ('single', 'full'), unsafe_single=True):
                if c['sub'] is not None or (c['shape'] == 'single' and not c['unsafe']):
                    continue
                nconv = len(G.convertible_offsets(seq[start:start + L]))
                if len(c['conv']) not in (0, nconv):
                    continue
                c.update(fixed)
                yield c
        return
    if k == 'var':
        # the other molecule classes (and pairs under allow_unsafe_base_calls=True) on the short windows
        for L in range(1, b['var_window'] + 1):
            for contig, seq, start in _windows(L):
                for c in G.window_cases(contig, seq, start, L, _shapes_for(b, L, cls), unsafe_pairs=True):
                    if cls in OLD_CLASSES and not (c['unsafe'] and c['shape'] not in G.SINGLE_SHAPES):
                        continue            # everything else of these two classes is in the full product
                    c.update(fixed, fam='var')
                    yield c
        return
    if isinstance(k, str) and k.startswith('vote'):
        for L in b['vote_windows']:
            for contig, seq, start in _windows(L, int(k[4:]), PLAIN_CONTIGS):
                for c in G.vote_cases(contig, seq, start, L):
                    c.update(fixed, fam='vote')
                    yield c
        return
    if k == 'retag':
        for L in range(1, b['retag_window'] + 1):
            for contig, seq, start in _windows(L, None, PLAIN_CONTIGS):
                for c in G.window_cases(contig, seq, start, L, RETAG_SHAPES, unsafe_single=True):
                    if c['sub'] is not None or (c['shape'] in G.SINGLE_SHAPES and not c['unsafe']):
                        continue
                    # TAPSMolecule: molecules of one fragment; TAPSCHICMolecule: of two fragments
                    for extra in ((None,) if cls == 'plain' else ([None],)):
                        for mode in RETAG_MODES:
                            if mode == 'R2' and c['shape'] in G.SINGLE_SHAPES:
                                continue
                            d = dict(c, retag=mode, fam='retag')
                            if extra:
                                d['extra'] = list(extra)
                            d.update(fixed)
                            yield d
        return
    for L in range(1, b['max_window'] + 1):
        for contig, seq, start in _windows(L, k):
            for c in G.window_cases(contig, seq, start, L, _shapes_for(b, L, cls)):
                c.update(fixed)
                yield c
                if L <= 2:
                    yield dict(c, build='empty')
                if L >= 3 and c['shape'] in ('full', 'split') and not c['unsafe'] and c['sub'] is None:
                    # the two dove distances (no calls within N bases of the fragment end on the R1 / R2 side): different
                    # values, so that a mix-up of the two sides shows
                    for dv in ((1, 0), (0, 1), (2, 1)):
                        yield dict(c, dove=list(dv))


# ------------------------------------------------------------------------------------------------ one case
def _ref_class(refseq, p):
    b = refseq[p].upper() if 0 <= p < len(refseq) else '?'
    return f'ref-{b}'


def _classes():
    from singlecellmultiomics import molecule as M
    from singlecellmultiomics import fragment as F
    return {'nla': (M.TAPSNlaIIIMolecule, F.NlaIIIFragment, False),
            'chic': (M.TAPSCHICMolecule, F.CHICFragment, False),
            'plain': (M.TAPSMolecule, F.Fragment, False),
            'nla_annot': (M.AnnotatedTAPSNlaIIIMolecule, F.NlaIIIFragment, True),
            'chic_annot': (M.AnnotatedTAPSCHICMolecule, F.CHICFragment, True),
            'nla_ptag': (M.TAPSPTaggedMolecule, F.NlaIIIFragment, True)}


def _observations(spec):
    if spec is None:
        return None
    return {p: (b, spec['qual']) for p, b in zip(spec['positions'], spec['aligned'])}


def run_case(case):
    """-> (violations [(signature, detail)], info dict)"""
    fasta, taps, hdr = _env()
    refseq = _CONTIGS[case['contig']]
    frag_reads, frag_specs, molseq = G.build_reads(hdr, case, refseq)
    s1, s2 = frag_specs[0]
    for reads, specs in zip(frag_reads, frag_specs):
        for r, s in zip(reads, specs):
            if s is not None and list(r.get_reference_positions()) != s['positions']:
                raise HarnessError(f'read builder: aligned positions differ from the specification {case}')
            if s is not None:
                # what pysam derives from CIGAR + MD must be the specified bases on the true reference bases
                trip = r.get_aligned_pairs(matches_only=True, with_seq=True)
                if [r.query_sequence[q] for q, _, _ in trip] != list(s['aligned']) or \
                        [b.upper() for _, _, b in trip] != [refseq[p].upper() for p in s['positions']]:
                    raise HarnessError(f'read builder: aligned / reference bases differ from the specification {case}')

    covered = set(s1['positions']) | (set(s2['positions']) if s2 else set())
    span = lambda s: (s['positions'][0], s['positions'][-1] + 1)
    minq = case.get('minq')
    dove = tuple(case.get('dove') or (0, 0))
    oriented = case['shape'] not in G.UNORIENTED_SHAPES
    observed = O.molecule_consensus([(_observations(a), _observations(b), span(a), span(b) if b else None)
                                     for a, b in frag_specs], case['strand'], case['unsafe'], minq, oriented, dove)
    if not (case.get('r2sub') or case.get('extra') or minq is not None or case.get('dove')):
        # harness self test: without disagreement / filtering the consensus is what the molecule shows
        for p, base in observed.items():
            if base != molseq[p - case['start']]:
                raise HarnessError(f'oracle consensus differs from the molecule sequence {case}')
        plain = {case['start'] + o for o in range(case['len']) if molseq[o] in 'ACGT'} & covered
        if (s2 is None or case['unsafe'] or not oriented) and set(observed) != plain:
            raise HarnessError(f'oracle consensus incomplete {case}')
    expect = O.expectations(refseq, case['strand'], case['taps_strand'], case['unsafe'], span(s1),
                            span(s2) if s2 else None, covered, observed, oriented, dove)

    viols = []
    info = {'letters': '', 'ncalls': 0}
    try:
        mcls, fcls, annotated = _classes()[case['cls']]
        frags = [fcls(reads) for reads in frag_reads]
        kw = {'reference': fasta, 'taps': taps, 'taps_strand': case['taps_strand'],
              'allow_unsafe_base_calls': case['unsafe']}
        if annotated:
            kw['features'] = _STATE['features']
        if minq is not None:
            kw['methylation_consensus_kwargs'] = {'min_phred_score': minq}
        if case.get('dove'):
            kw.setdefault('methylation_consensus_kwargs', {}).update(
                {'dove_R1_distance': dove[0], 'dove_R2_distance': dove[1]})
        if case.get('build') == 'empty':
            # the documented other way to build a molecule: created without fragments, every fragment added later
            mol = mcls(None, **kw)
            rest = frags
        else:
            mol = mcls(frags[0], **kw)
            rest = frags[1:]
        for f in rest:
            if not mol.add_fragment(f):
                raise HarnessError(f'a copy of the fragment was refused by the molecule: {case}')
        for frag in frags:
            if not frag.is_valid():
                raise HarnessError(f'generated fragment is not valid: {case}')
        if len(mol) != len(frags):
            raise HarnessError(f'molecule holds {len(mol)} fragments, {len(frags)} were added: {case}')
        if bool(mol.strand) != (case['strand'] == '-'):
            raise HarnessError(f'molecule strand differs from the strand of R1: {case}')
        mol.__finalise__()
        cd = mol.methylation_call_dict
    except HarnessError:
        raise
    except Exception as ex:
        return [(f'finalise:exception:{type(ex).__name__}', repr(ex))], info

    if cd is None:
        return [('no-methylation-calls-object:calls', 'methylation_call_dict is None')], info

    # ---- clause 1+4: the molecule's calls
    calls = {}
    for key, d in cd.items():
        letter = d.get('context') if isinstance(d, dict) else None
        if letter is None or letter == '.':
            continue
        contig, pos = key
        if contig != case['contig']:
            viols.append(('call-on-other-contig:calls', {'key': list(key), 'letter': letter}))
            continue
        if not isinstance(letter, str) or len(letter) != 1 or letter not in O.CALL_LETTERS:
            viols.append(('illegal-call-letter:calls', {'pos': pos, 'letter': repr(letter)}))
            continue
        calls[int(pos)] = letter
    for clause, p, detail in O.judge(expect, calls):
        viols.append((f'{clause}:calls:{_ref_class(refseq, p)}', {'pos': p, 'detail': detail, 'calls': _fmt(calls)}))

    # ---- clause 2: per-read call strings (every read of every fragment)
    want_tags = O.tally(calls)
    for fi, (reads, specs) in enumerate(zip(frag_reads, frag_specs)):
        for i, (r, s) in enumerate(zip(reads, specs)):
            if r is None:
                continue
            rn = f'R{i + 1}'
            if not r.has_tag('XM'):
                viols.append((f'XM-missing:{rn}', {'fragment': fi}))
            else:
                xm = r.get_tag('XM')
                viols.extend(_judge_call_string(xm, s, rn, fi, expect, calls, refseq, 'XM'))
            # ---- clause 3: totals
            for t in TAGS:
                if not r.has_tag(t):
                    viols.append((f'total-tag-missing:{t}', {'read': rn, 'fragment': fi}))
                elif r.get_tag(t) != want_tags[t]:
                    viols.append((f'total-tag-differs-from-number-of-calls:{t}',
                                  {'read': rn, 'fragment': fi, 'tag': r.get_tag(t), 'calls': _fmt(calls),
                                   'want': want_tags[t]}))

    # ---- retag family: the same tags under custom names on a subset of the reads
    if case.get('retag'):
        viols.extend(_retag(mol, cd, case['retag'], frag_reads, frag_specs, expect, calls, refseq, want_tags))

    info['letters'] = ''.join(sorted(set(calls.values())))
    info['ncalls'] = len(calls)
    info['nabsent'] = sum(1 for p, e in expect.items() if e[0] == 'absent' and refseq[p].upper() in 'CG')
    info['nrequired'] = sum(1 for e in expect.values() if e[0] == 'call' and e[2])
    info['no_consensus'] = sum(1 for p, e in expect.items() if e == ('absent', 'call-without-consensus-base'))
    seen = set()
    dedup = []
    for sig, d in viols:
        if sig not in seen:
            seen.add(sig)
            dedup.append((sig, {'detail': d, 'R1': _rd(s1), 'R2': _rd(s2), 'molecule_shows': molseq,
                                'fragments': len(frag_reads),
                                'reference_window': refseq[case['start']:case['start'] + case['len']]}))
    return dedup, info


def _judge_call_string(xm, s, rn, fi, expect, calls, refseq, what):
    out = []
    if not isinstance(xm, str) or len(xm) != len(s['positions']):
        out.append((f'{what}-length-differs-from-aligned-bases:{rn}',
                    {'fragment': fi, what: xm, 'aligned_bases': len(s['positions']), 'cigar': s['cigar']}))
        return out
    bad = sorted(set(xm) - set(O.CALL_LETTERS + '.'))
    if bad:
        out.append((f'{what}-illegal-character:{rn}', {'fragment': fi, what: xm, 'chars': bad}))
    rcalls = {p: c for p, c in zip(s['positions'], xm) if c in O.CALL_LETTERS}
    for clause, p, detail in O.judge(expect, rcalls, positions=set(s['positions'])):
        out.append((f'{clause}:{what}:{_ref_class(refseq, p)}',
                    {'read': rn, 'fragment': fi, 'pos': p, 'detail': detail, what: xm, 'first_pos': s['positions'][0]}))
    mine = {p: c for p, c in calls.items() if p in set(s['positions'])}
    if rcalls != mine:
        out.append((f'{what}-differs-from-molecule-calls:{rn}',
                    {'fragment': fi, what: xm, 'first_pos': s['positions'][0], 'calls': _fmt(calls)}))
    return out


def _retag(mol, cd, mode, frag_reads, frag_specs, expect, calls, refseq, want_tags):
    """set_methylation_call_tags(call_dict, <nine custom tag names>, reads=subset) after __finalise__"""
    out = []
    pick = {'all': (0, 1), 'R1': (0,), 'R2': (1,)}[mode]
    subset = [reads[i] for reads in frag_reads for i in pick if reads[i] is not None]
    try:
        mol.set_methylation_call_tags(cd, reads=(None if mode == 'all' else subset), **CUSTOM_TAGS)
    except Exception as ex:
        return [(f'retag:exception:{type(ex).__name__}', repr(ex))]
    for fi, (reads, specs) in enumerate(zip(frag_reads, frag_specs)):
        for i, (r, s) in enumerate(zip(reads, specs)):
            if r is None:
                continue
            rn = f'R{i + 1}'
            if i not in pick:
                got = [t for t in CUSTOM_TAGS.values() if r.has_tag(t)]
                if got:
                    out.append((f'retag:tags-written-to-a-read-outside-the-subset:{rn}', {'fragment': fi, 'tags': got}))
                continue
            if not r.has_tag('yM'):
                out.append((f'retag:call-string-tag-missing:{rn}', {'fragment': fi}))
            else:
                out.extend(('retag:' + sig, d) for sig, d in
                           _judge_call_string(r.get_tag('yM'), s, rn, fi, expect, calls, refseq, 'XM'))
            for t, std in CUSTOM_TOTALS.items():
                if not r.has_tag(t):
                    out.append((f'retag:total-tag-missing:{std}', {'read': rn, 'fragment': fi, 'custom': t}))
                elif r.get_tag(t) != want_tags[std]:
                    out.append((f'retag:total-tag-differs-from-number-of-calls:{std}',
                                {'read': rn, 'fragment': fi, 'custom': t, 'tag': r.get_tag(t),
                                 'want': want_tags[std], 'calls': _fmt(calls)}))
    return out


def _fmt(calls):
    return {str(p): c for p, c in sorted(calls.items())}


def _rd(s):
    if s is None:
        return None
    return {'pos': s['pos'], 'cigar': s['cigar'], 'seq': s['query'], 'MD': s['md'], 'reverse': s['reverse']}


# ------------------------------------------------------------------------------------------------ engine interface
def _label(case, info):
    fam = case.get('fam')
    head = f"{case['shape']}{'-unsafe' if case['unsafe'] else ''}"
    if fam == 'var':
        head = f"var:{case['cls']}:{head}"
    elif fam == 'vote':
        if case.get('r2sub'):
            q1, q2 = case['quals']
            kind = f"mate-{'N' if case['r2sub'][1] == 'N' else 'base'}-q{'>' if q1 > q2 else '<' if q1 < q2 else '='}"
        elif case.get('minq') is not None:
            kind = f"minq{case['minq']}"
        else:
            kind = f"copies{len(case['extra'])}"
        head = f"vote:{kind}:{head}:noconsensus={info.get('no_consensus', 0)}"
    elif fam == 'retag':
        head = f"retag-{case['retag']}:{case['cls']}:frags={1 + len(case.get('extra') or [])}:{head}"
    return f"{head}:calls={info.get('letters') or '-'}"


def run_shard(shard, tier, acc):
    for case in _cases(shard, tier):
        viols, info = run_case(case)
        refwin = _CONTIGS[case['contig']][case['start']:case['start'] + case['len']]
        nontrivial = any(b in 'CGcg' for b in refwin)
        acc.case(case, transitions=1 + info.get('ncalls', 0), execs=1, nontrivial=nontrivial, outcome=_label(case, info))
        acc.count('calls_checked', info.get('ncalls', 0))
        acc.count('convertible_positions_that_must_stay_uncalled', info.get('nabsent', 0))
        acc.count('positions_without_consensus_that_must_stay_uncalled', info.get('no_consensus', 0))
        acc.count('calls_required_by_the_oracle', info.get('nrequired', 0))
        acc.count('cases_with_a_required_call', 1 if info.get('nrequired', 0) else 0)
        acc.count(f"cases_family_{case.get('fam', 'product')}", 1)
        for sig, d in viols:
            acc.violation(sig, case, d)


def replay(case):
    case = dict(case)
    case['sub'] = list(case['sub']) if case.get('sub') else None
    return run_case(case)[0]
