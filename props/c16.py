"""C16 - feature lookups return exactly the overlapping features after any add history.

Explicit-state search over operation histories (add* sort query*)^r on a fresh real FeatureContainer
per history (prefixes are replayed - live containers share a class-level memo).  In every state
ALL point / range / read queries of the alphabet are compared with brute-force interval overlap
on the CURRENT feature multiset, so a stale answer is a plain mismatch.

Runs (see bounds()):
  A    the original space: both strands, one name per feature
  B    strand-less features next to '+' ones, names shared by all features of a strand (GTF gene_id naming)
  two  two containers alive in one process, interleaved (the memo is one class-level table)
  big  coordinates beyond 2**31, container in debug mode
  mol  FeatureAnnotatedMolecule.annotate / SingleEndTranscriptFragment.annotate on every read group
  gtf  containers built by loadGTF (4 argument sets), every prefetch(contig,start,end) window clone, a second round via loadBED
"""
import contextlib
import io
import itertools
import os
import shutil
import tempfile

from gen import c16_inputs as G
from gen.c16_inputs import letters, multisets, queries
from oracles import c16_overlap as O

ID = 'C16'
RULE = ('all histories of r rounds, each round adding a multiset of <=m feature letters (closed intervals over 0..C x strand, '
        'plus 2 letters on a second contig) followed by sort() and then either no query or ALL queries: every point -1..C+2 x '
        'strand {None,+,-} (positional and keyword call forms), every point x optim {nb, optim, any other value = unoptimised path} '
        '(x strand {None,+,-} in the thin runs), every closed range x strand (incl. an unknown contig), and in the last round every '
        'read of <=2 aligned blocks plus one soft-clipped / insertion / deletion / second-contig / unknown-contig / unmapped-but-placed read '
        '(findFeaturesAtPysamAlign: strand None x methods 0,1; + x method 0; - x method 1 on the one-base reads). '
        'Run B: strand-less and + features, names shared per strand; run two: two live containers A and B interleaved '
        '(sort A, sort B, query A, B, A / sort A, query A, sort B, query B, A), debug mode; run big: all coordinates + 3e9, container in debug mode. '
        'mol: on every single-round history, FeatureAnnotatedMolecule.annotate (methods 0, 1 and the constructor\'s own call; stranded '
        'None/same/opposite; capture_locations on/off; forward and reverse reads, soft-clip, deletion, unmapped, mate pairs R1 fwd/rev, two fragments; '
        'unique and shared feature names) observed through feature_locations, hits, exons/introns/genes, and '
        'SingleEndTranscriptFragment annotation of every single fragment. '
        'gtf: every letter word written as a GTF file and loaded with 4 loadGTF argument sets; the full container, every '
        'prefetch(contig,lo,hi) clone (all alive together) for the queries inside its window, the full container again, and the container '
        'after a second round through loadBED (3/4/6/12 columns, strand-less, zero-length, blocks) are queried. '
        'non-trivial = history with >=2 non-empty rounds and >=1 nested or identical interval pair (two: both containers non-empty and '
        'different; mol/gtf: >=2 features); states = distinct (history, query-mode) pairs, transitions = queries answered')
ASSUMPTIONS = [
    'a sort() separates additions from queries (the histories of the property quantifier)',
    'features of one name and interval agree in strand-lessness (a stranded and a strand-less feature never tie on name and interval)',
    'a strand-less feature may or may not be reported by a stranded query; base `end` of a BED-loaded feature and the deleted bases '
    'of a read may or may not count (left open by the property text)',
    'the memo is emptied before each history (= a fresh process) and a history never issues more lookups than the memo holds',
]

BIG = 3_000_000_000
ALLST = [None, '+', '-']


def _run(name, kind, C, rounds, modes, alpha='pm', names='unique', offset=0, debug=False, optim_strands=(None,)):
    return {'name': name, 'kind': kind, 'C': C, 'rounds': rounds, 'modes': modes, 'alpha': alpha, 'names': names,
            'offset': offset, 'debug': debug, 'optim_strands': list(optim_strands)}


def bounds(tier):
    if tier == 'quick':
        return {'runs': [_run('A', 'hist', 3, [2, 2], ['none', 'all']),
                         _run('B', 'hist', 2, [2, 1], ['none', 'all'], alpha='pn', names='shared', optim_strands=ALLST),
                         _run('two', 'two', 2, [2, 1], ['AB', 'ABA'], debug=True, optim_strands=ALLST),
                         _run('big', 'hist', 2, [2, 1], ['all'], offset=BIG, debug=True, optim_strands=ALLST)],
                'molecule_level': {'C': 3, 'm': 2, 'names': ['unique', 'shared']},
                'gtf_level': {'C': 3, 'm': 2, 'options': [o[0] for o in G.GTF_OPTIONS]}}
    return {'runs': [_run('A1', 'hist', 3, [3, 2], ['all']),
                     _run('A2', 'hist', 4, [2, 2], ['none', 'all']),
                     _run('A3', 'hist', 2, [2, 1, 2], ['all', 'none']),
                     _run('B', 'hist', 2, [2, 2], ['none', 'all'], alpha='pn', names='shared', optim_strands=ALLST),
                     _run('two', 'two', 2, [2, 2], ['AB', 'ABA'], debug=True, optim_strands=ALLST),
                     _run('big', 'hist', 2, [2, 2], ['none', 'all'], offset=BIG, debug=True, optim_strands=ALLST)],
            'molecule_level': {'C': 3, 'm': 3, 'names': ['unique', 'shared']},   # shared names: words of <=2 letters
            'gtf_level': {'C': 3, 'm': 3, 'options': [o[0] for o in G.GTF_OPTIONS]}}


def shards(tier):
    b = bounds(tier)
    hs = []
    for ri, run in enumerate(b['runs']):
        first = multisets(run['C'], run['rounds'][0], run['alpha'])
        for fi in range(len(first)):
            hs.append(('hist', ri, fi))
    grouped = []
    Gs = 8 if tier == 'quick' else 32
    for i in range(0, len(hs), Gs):
        grouped.append(('histgroup', hs[i:i + Gs]))
    ml = b['molecule_level']
    n = 8 if tier == 'quick' else 32
    for names in ml['names']:
        for c in range(n):
            grouped.append(('mol', ml['C'], ml['m'] if names == 'unique' else min(ml['m'], 2), names, c, n))
    gl = b['gtf_level']
    n = 4 if tier == 'quick' else 16
    for c in range(n):
        grouped.append(('gtf', gl['C'], gl['m'], c, n))
    return grouped


# --------------------------------------------------------------------------- the memo
def _cache_reset():
    from singlecellmultiomics.features import FeatureContainer
    for name in ('findFeaturesAt', 'findNearestFeature'):
        fn = getattr(FeatureContainer, name, None)
        if fn is not None and hasattr(fn, 'cache_clear'):
            fn.cache_clear()


def _cache_overflow():
    from singlecellmultiomics.features import FeatureContainer
    fn = getattr(FeatureContainer, 'findFeaturesAt', None)
    if fn is not None and hasattr(fn, 'cache_info'):
        ci = fn.cache_info()
        return ci.maxsize is not None and ci.currsize >= ci.maxsize
    return False


def as_keys(contig, res, name=True, open_end_if_no_data=False):
    if name and not open_end_if_no_data:
        return {(contig, r[0], r[1], r[2], r[3]) for r in res}
    out = set()
    for r in res:
        if open_end_if_no_data and r[4] is None:
            out.add((contig, r[0], None, None, r[3]))
        else:
            out.add((contig, r[0], r[1], r[2] if name else None, r[3]))
    return out


# --------------------------------------------------------------------------- one query phase
_EXPECT = {}       # tiny memo of the ORACLE's answers: consecutive histories share their feature sets (modes none/all, same first round)


def expected_answers(feats, opts, inside):
    """-> (point answers, range answers, read answers): lists of (must, may) aligned with the query alphabet"""
    key = (frozenset(feats) if not isinstance(feats, list) else tuple(feats), opts['C'], opts.get('offset', 0),
           tuple(opts.get('optim_strands', (None,))))
    hit = _EXPECT.get(key)
    if hit is not None:
        return hit
    C, off = opts['C'], opts.get('offset', 0)
    pts, rngs, reads = queries(C, tuple(opts.get('optim_strands', (None,))))
    ep = [O.expect_point(feats, contig, p + off, st) for contig, p, st, form in pts]
    er = [O.expect_range(feats, contig, a + off, b + off, st) for contig, a, b, st in rngs]
    ed = []
    if not off:
        for read, contig, positions, deleted, desc in reads:
            ed.append(O.expect_read_all(feats, contig, positions, deleted))
    if len(_EXPECT) >= 6:
        _EXPECT.pop(next(iter(_EXPECT)))
    _EXPECT[key] = (ep, er, ed)
    return _EXPECT[key]


def read_plan(desc):
    """(strand, methods) combinations asked for one read letter: strand None with both methods and '+' with method 0 for every
    read of <=2 blocks; '-' with method 1 for the one-base reads and the other-contig read"""
    if desc[0] == 'spliced' or (desc[0] == 'single' and desc[2] - desc[1] > 1):
        return ((None, (0, 1)), ('+', (0,)))
    if desc[0] in ('single', 'othercontig'):
        return ((None, (0, 1)), ('+', (0,)), ('-', (1,)))
    return ((None, (0, 1)),)


def query_phase(fc, feats, tag, opts, viol, with_reads, inside=None, name=True, bed=False):
    """Ask every query of the alphabet (restricted to the closed window `inside` = (contig, lo, hi) when given) and compare
    with the brute-force answer on `feats`.  Returns the number of queries answered."""
    C, off = opts['C'], opts.get('offset', 0)
    pts, rngs, reads = queries(C, tuple(opts.get('optim_strands', (None,))))
    ep, er, ed = expected_answers(feats, opts, inside)
    nq = 0
    for (contig, p, st, form), (must, may) in zip(pts, ep):
        if inside is not None and not (contig == inside[0] and inside[1] <= p <= inside[2]):
            continue
        q = p + off
        site = 'findFeaturesAt' if not form.startswith('optim:') else 'findFeaturesAt-optim-' + form[6:]
        try:
            if form == 'pos':
                got = fc.findFeaturesAt(contig, q, st)
            elif form == 'kw':
                got = fc.findFeaturesAt(chromosome=contig, lookupCoordinate=q, strand=st)
            else:
                got = fc.findFeaturesAt(contig, q, st, form[6:])
            nq += 1
            got = as_keys(contig, got, name, bed)
        except Exception as ex:
            viol.setdefault(f'{tag}:{site}:exception:{type(ex).__name__}', {'q': (contig, q, st, form), 'ex': repr(ex)})
            continue
        if got != must or got != may:
            kind = O.verdict(got, must, may)
            if kind:
                viol.setdefault(f'{tag}:{site}:{kind}', {'q': (contig, q, st, form), 'got': O.show(got), 'want': O.show(must)})
    for (contig, a, b, st), (must, may) in zip(rngs, er):
        if inside is not None and not (contig == inside[0] and inside[1] <= a and b <= inside[2]):
            continue
        try:
            got = as_keys(contig, fc.findFeaturesBetween(contig, a + off, b + off, st), name, bed)
            nq += 1
        except Exception as ex:
            viol.setdefault(f'{tag}:findFeaturesBetween:exception:{type(ex).__name__}', {'q': (contig, a + off, b + off, st), 'ex': repr(ex)})
            continue
        if got != must or got != may:
            kind = O.verdict(got, must, may)
            if kind:
                viol.setdefault(f'{tag}:findFeaturesBetween:{kind}',
                                {'q': (contig, a + off, b + off, st), 'got': O.show(got), 'want': O.show(must)})
    if with_reads and not off:
        for (read, contig, positions, deleted, desc), exp in zip(reads, ed):
            if inside is not None and not (contig == inside[0] and all(inside[1] <= p <= inside[2] for p in positions | deleted)):
                continue
            for st, methods in read_plan(desc):
                must, may = exp[st]
                for method in methods:
                    try:
                        got = as_keys(contig, fc.findFeaturesAtPysamAlign(read, strand=st, method=method), name, bed)
                        nq += 1
                    except Exception as ex:
                        viol.setdefault(f'{tag}:findFeaturesAtPysamAlign-method{method}:exception:{type(ex).__name__}',
                                        {'q': desc, 'ex': repr(ex)})
                        continue
                    if got != must or got != may:
                        kind = O.verdict(got, must, may)
                        if kind:
                            viol.setdefault(f'{tag}:findFeaturesAtPysamAlign-method{method}:{kind}',
                                            {'read': desc, 'strand': st, 'got': O.show(got), 'want': O.show(must)})
    return nq


# --------------------------------------------------------------------------- histories on containers built with addFeature
def execute(opts, steps):
    """steps: ('add+sort', container id, letter word, signature prefix) | ('query', container id, tag, with_reads).
    Returns (violations, queries answered)."""
    from singlecellmultiomics.features import FeatureContainer
    from mc.bind import HarnessError
    ls = letters(opts['C'], opts.get('alpha', 'pm'))
    off = opts.get('offset', 0)
    scheme = opts.get('names', 'unique')
    _cache_reset()
    fcs, feats = {}, {}
    viol = {}
    nq = 0
    k = 0
    for step in steps:
        cid = step[1]
        if cid not in fcs:
            fcs[cid] = FeatureContainer()
            if opts.get('debug'):
                fcs[cid].debug = True
            feats[cid] = set()
        fc = fcs[cid]
        if step[0] == 'add+sort':
            try:
                for li in step[2]:
                    contig, s, e, st = ls[li]
                    name = G.feature_name(scheme, k, st)
                    k += 1
                    if st is None and scheme == 'shared':
                        fc.addFeature(contig, s + off, e + off, name)              # the default strand
                    else:
                        fc.addFeature(contig, s + off, e + off, name, strand=st, data=None)
                    feats[cid].add((contig, s + off, e + off, name, st, False))
                fc.sort()
            except Exception as ex:
                viol.setdefault(f'{step[3]}:add-sort:exception:{type(ex).__name__}', repr(ex))
                break
        else:
            nq += query_phase(fc, feats[cid], step[2], opts, viol, step[3])
            if _cache_overflow():
                raise HarnessError('C16: memo filled up inside one history; evictions would blur staleness')
    return [(s, d) for s, d in viol.items()], nq


def hist_steps(rounds, mode):
    steps = []
    last = len(rounds) - 1
    for ri, add in enumerate(rounds):
        steps.append(('add+sort', 0, add, f'round{min(ri, 1) + 1}'))
        if ri == last or mode == 'all':
            steps.append(('query', 0, 'first-round' if ri == 0 else 'later-round', ri == last))
    return steps


def two_steps(rounds, mode):
    a, b = rounds
    t = 'two-containers'
    if mode == 'AB':
        return [('add+sort', 'A', a, t), ('add+sort', 'B', b, t), ('query', 'A', t, False), ('query', 'B', t, True), ('query', 'A', t, True)]
    return [('add+sort', 'A', a, t), ('query', 'A', t, False), ('add+sort', 'B', b, t), ('query', 'B', t, True), ('query', 'A', t, True)]


def run_history(C, rounds, mode_per_round, opts=None):
    o = {'C': C}
    o.update(opts or {})
    if o.get('kind') == 'two':
        return execute(o, two_steps(rounds, mode_per_round))
    return execute(o, hist_steps(rounds, mode_per_round))


# --------------------------------------------------------------------------- molecule / fragment level
def run_molecule_level(C, add, names='unique'):
    """single-round history; FeatureAnnotatedMolecule.annotate(method 0/1) and SingleEndTranscriptFragment.annotate on every
    read group of the alphabet"""
    from singlecellmultiomics.features import FeatureContainer
    from singlecellmultiomics.fragment import Fragment, SingleEndTranscriptFragment
    from singlecellmultiomics.molecule.featureannotatedmolecule import FeatureAnnotatedMolecule
    from mc.bind import HarnessError
    ls = letters(C)
    _cache_reset()
    fc = FeatureContainer()
    feats = []         # oracle records
    meta = []          # (key, data, type, gene, exon id) per feature
    try:
        for k, li in enumerate(add):
            contig, s, e, st = ls[li]
            name = G.feature_name(names, k, st)
            ftype = 'exon' if st == '+' else 'intron'
            gene = f'G{k % 2}'
            data = (('gene_id', gene), ('type', ftype), ('exon_id', name), ('transcript_id', 't'))
            fc.addFeature(contig, s, e, name, strand=st, data=data)
            f = (contig, s, e, name, st, False)
            feats.append(f)
            meta.append((O.key_of(f), data, ftype, gene, name))
        fc.sort()
    except Exception as ex:
        return [(f'round1:add-sort:exception:{type(ex).__name__}', repr(ex))], 0
    viol = {}
    n = 0

    def judge(sig, got, must, may, detail):
        kind = O.verdict(got, must, may)
        if kind:
            d = dict(detail)
            d.update({'got': O.show(got), 'want': O.show(must)})
            viol.setdefault(f'{sig}:{kind}', d)

    for gi, (spec, contig, positions, deleted, rev, desc) in enumerate(G.molecule_reads(C)):
        for stranded in ((None, False, True) if rev is not None else (None,)):     # a molecule without strand has no same / other strand
            # stranded False -> the strand of the molecule (= of R1), True -> the other one
            st = None if stranded is None else ('+-'[rev] if not stranded else '-+'[rev])
            must, may = O.expect_read(feats, contig, positions, deleted, st)
            for method in (0, 1):
                for capture in ((True, False) if stranded is None else (True,)):
                    site = f'annotate-method{method}'
                    try:
                        frags = [Fragment(reads, assignment_radius=10) for reads in G.build_reads(spec, contig)]
                        mol = FeatureAnnotatedMolecule(frags[0] if len(frags) == 1 else frags, features=fc, stranded=stranded,
                                                       capture_locations=capture)
                        if len(mol) != len(frags):
                            raise HarnessError(f'C16: molecule did not accept its fragments {desc}')
                        mol.annotate(method=method)
                        n += 1
                        got_hits = set(mol.hits.keys())
                        got_loc = None
                        if capture:
                            got_loc = {(contig, s, e, name, fst) for name, locs in mol.feature_locations.items() for s, e, fst in locs}
                        mol.set_intron_exon_features()
                        got_ex, got_in, got_gn = set(mol.exons), set(mol.introns), set(mol.genes)
                    except HarnessError:
                        raise
                    except Exception as ex:
                        viol.setdefault(f'{site}:exception:{type(ex).__name__}', {'read': desc, 'stranded': stranded, 'ex': repr(ex)})
                        continue
                    det = {'read': desc, 'stranded': stranded, 'capture_locations': capture}
                    if capture:
                        judge(site, got_loc, must, may, det)
                    judge(site + ':hits', got_hits, {m[1] for m in meta if m[0] in must}, {m[1] for m in meta if m[0] in may}, det)
                    judge(site + ':exons', got_ex, {m[4] for m in meta if m[0] in must and m[2] == 'exon'},
                          {m[4] for m in meta if m[0] in may and m[2] == 'exon'}, det)
                    judge(site + ':introns', got_in, {m[3] for m in meta if m[0] in must and m[2] == 'intron'},
                          {m[3] for m in meta if m[0] in may and m[2] == 'intron'}, det)
                    judge(site + ':genes', got_gn, {m[3] for m in meta if m[0] in must}, {m[3] for m in meta if m[0] in may}, det)
        must, may = O.expect_read(feats, contig, positions, deleted, None)

        def judge_tags(site, obj, det):
            judge(site + ':hits', set(obj.hits.keys()), {m[1] for m in meta if m[0] in must}, {m[1] for m in meta if m[0] in may}, det)
            judge(site + ':exons', set(obj.exons), {m[4] for m in meta if m[0] in must and m[2] == 'exon'},
                  {m[4] for m in meta if m[0] in may and m[2] == 'exon'}, det)
            judge(site + ':introns', set(obj.introns), {m[3] for m in meta if m[0] in must and m[2] == 'intron'},
                  {m[3] for m in meta if m[0] in may and m[2] == 'intron'}, det)
            judge(site + ':genes', set(obj.genes), {m[3] for m in meta if m[0] in must}, {m[3] for m in meta if m[0] in may}, det)

        # the constructor annotates by itself (what the taggers use)
        try:
            frags = [Fragment(reads, assignment_radius=10) for reads in G.build_reads(spec, contig)]
            mol = FeatureAnnotatedMolecule(frags[0] if len(frags) == 1 else frags, features=fc, stranded=None,
                                           capture_locations=True, auto_set_intron_exon_features=True)
            n += 1
            got_loc = {(contig, s, e, name, fst) for name, locs in mol.feature_locations.items() for s, e, fst in locs}
        except Exception as ex:
            viol.setdefault(f'annotate-auto:exception:{type(ex).__name__}', {'read': desc, 'ex': repr(ex)})
        else:
            judge('annotate-auto', got_loc, must, may, {'read': desc})
            judge_tags('annotate-auto', mol, {'read': desc})
        # fragment-level annotation (strand-less; its `stranded` argument is undocumented)
        if len(spec) == 1:
            try:
                reads = G.build_reads(spec, contig)[0]
                frag = SingleEndTranscriptFragment(reads, features=fc, stranded=None, capture_locations=True)
                n += 1
                got_loc = {(contig, s, e, name, fst) for name, locs in frag.feature_locations.items() for s, e, fst in locs}
            except Exception as ex:
                viol.setdefault(f'fragment-annotate:exception:{type(ex).__name__}', {'read': desc, 'ex': repr(ex)})
                continue
            judge('fragment-annotate', got_loc, must, may, {'read': desc})
            judge_tags('fragment-annotate', frag, {'read': desc})
    return [(s, d) for s, d in viol.items()], n


# --------------------------------------------------------------------------- containers built from annotation files
def run_gtf_level(C, add, oi, tmpdir=None):
    """The letter word as a GTF file.  (1) loadGTF(**option) -> all queries; (2) preload_GTF + prefetch(contig, lo, hi) for every
    window: each clone answers every query that lies inside its window like the complete annotation (all clones stay alive);
    (3) the full container again; (4) loadBED as a second add+sort round on the full container -> all queries."""
    from singlecellmultiomics.features import FeatureContainer
    own = tmpdir is None
    if own:
        tmpdir = tempfile.mkdtemp(prefix='c16_', dir='/dev/shm' if os.path.isdir('/dev/shm') else None)
    try:
        label, kwargs, fields = G.GTF_OPTIONS[oi]
        recs = G.gtf_records(C, add)
        path = os.path.join(tmpdir, 'a.gtf')
        with open(path, 'w') as f:
            f.write(G.gtf_text(recs))
        bedpath = os.path.join(tmpdir, 'b.bed')
        with open(bedpath, 'w') as f:
            f.write(G.bed_text(G.bed_records(C)))
        opts = {'C': C, 'optim_strands': ALLST}
        name = fields is not None
        select = kwargs.get('select_feature_type')
        full_feats = O.gtf_expected(recs, fields, select)
        viol = {}
        nq = 0
        _cache_reset()
        sink = io.StringIO()
        with contextlib.redirect_stdout(sink):
            try:
                full = FeatureContainer()
                full.loadGTF(path, **kwargs)
            except Exception as ex:
                return [(f'gtf-loaded:loadGTF:exception:{type(ex).__name__}', {'option': label, 'ex': repr(ex)})], 0
            nq += query_phase(full, full_feats, 'gtf-loaded', opts, viol, True, name=name)
            clones = []
            try:
                pre = FeatureContainer()
                pre.preload_GTF(path=path, **kwargs)
                windows = [('chr1', lo, hi) for lo in range(0, C + 2) for hi in range(lo, C + 2)] + [('chr2', 1, C), ('chrZ', 0, C)]
                for w in windows:
                    clones.append((w, pre.prefetch(*w)))
            except Exception as ex:
                viol.setdefault(f'prefetched:prefetch:exception:{type(ex).__name__}', {'option': label, 'ex': repr(ex)})
                clones = []
            for w, clone in clones:
                nq += query_phase(clone, full_feats, 'prefetched', opts, viol, True, inside=w, name=name)
            nq += query_phase(full, full_feats, 'gtf-loaded-after-prefetch', opts, viol, False, name=name)
            try:
                full.loadBED(bedpath)
            except Exception as ex:
                viol.setdefault(f'bed-second-round:loadBED:exception:{type(ex).__name__}', {'option': label, 'ex': repr(ex)})
            else:
                nq += query_phase(full, full_feats + O.bed_expected(G.bed_records(C)), 'bed-second-round', opts, viol, True,
                                  name=name, bed=True)
        return [(s, d) for s, d in viol.items()], nq
    finally:
        if own:
            shutil.rmtree(tmpdir, ignore_errors=True)


# --------------------------------------------------------------------------- driver
def _nested(C, rounds, alpha='pm'):
    ls = letters(C, alpha)
    ivs = [ls[i] for r in rounds for i in r if ls[i][0] == 'chr1']
    for x, y in itertools.combinations(ivs, 2):
        if (x[1] <= y[1] and y[2] <= x[2]) or (y[1] <= x[1] and x[2] <= y[2]):
            return True
    return False


def _chunk(seq, c, n):
    return [x for i, x in enumerate(seq) if i % n == c]


def run_shard(shard, tier, acc):
    if shard[0] == 'histgroup':
        for s in shard[1]:
            _run_hist(s, tier, acc)
    elif shard[0] == 'mol':
        _, C, m, names, c, n = shard
        for add in _chunk(multisets(C, m), c, n):
            case = {'kind': 'mol', 'C': C, 'add': list(add), 'names': names}
            viols, nq = run_molecule_level(C, add, names)
            acc.case(case, transitions=nq, nontrivial=len(add) >= 2, outcome=f'mol:{names}:{len(add)}')
            for sig, d in viols:
                acc.violation(sig, case, d)
    elif shard[0] == 'gtf':
        _, C, m, c, n = shard
        tmpdir = tempfile.mkdtemp(prefix='c16_', dir='/dev/shm' if os.path.isdir('/dev/shm') else None)
        try:
            for add in _chunk(multisets(C, m), c, n):
                for oi in range(len(G.GTF_OPTIONS)):
                    case = {'kind': 'gtf', 'C': C, 'add': list(add), 'option': oi}
                    viols, nq = run_gtf_level(C, add, oi, tmpdir)
                    acc.case(case, transitions=nq, nontrivial=len(add) >= 2, outcome=f'gtf:{G.GTF_OPTIONS[oi][0]}:{len(add)}')
                    for sig, d in viols:
                        acc.violation(sig, case, d)
        finally:
            shutil.rmtree(tmpdir, ignore_errors=True)


def _run_hist(s, tier, acc):
    _, ri, fi = s
    run = bounds(tier)['runs'][ri]
    C, alpha = run['C'], run['alpha']
    opts = {k: run[k] for k in ('kind', 'alpha', 'names', 'offset', 'debug', 'optim_strands')}
    first = multisets(C, run['rounds'][0], alpha)[fi]
    later = [multisets(C, m, alpha) for m in run['rounds'][1:]]
    for rest in itertools.product(*later):
        rounds = (first,) + tuple(rest)
        for mode in run['modes']:
            case = {'kind': run['kind'], 'C': C, 'rounds': [list(r) for r in rounds], 'mode': mode, 'opts': opts}
            viols, nq = run_history(C, rounds, mode, opts)
            nonempty = sum(1 for r in rounds if r)
            nested = _nested(C, rounds, alpha)
            if run['kind'] == 'two':
                nt = nonempty == 2 and sorted(rounds[0]) != sorted(rounds[1])
            else:
                nt = nonempty >= 2 and nested
            acc.case(case, transitions=nq, nontrivial=nt, outcome=f'run={run["name"]},rounds={nonempty},mode={mode},nested={nested}')
            for sig, d in viols:
                acc.violation(sig, case, d)


def replay(case):
    if case['kind'] == 'mol':
        return run_molecule_level(case['C'], tuple(case['add']), case.get('names', 'unique'))[0]
    if case['kind'] == 'gtf':
        return run_gtf_level(case['C'], tuple(case['add']), case['option'])[0]
    opts = dict(case.get('opts') or {})
    opts['kind'] = case['kind']
    return run_history(case['C'], tuple(tuple(r) for r in case['rounds']), case['mode'], opts)[0]
