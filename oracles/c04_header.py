"""C04 oracle helpers: Illumina header shapes, the saturating quality codec and the BAM name limit.

Written from the property text and the public formats (CASAVA >= 1.8 read names, SAM spec), not from the
implementation: the read name of a BAM record is stored with a one-byte length that includes the
terminating NUL, so at most 254 characters can be stored (SAM spec QNAME: [!-?A-~]{1,254}).
"""
LETTERS = 'abcdefghijklmnopqrstuvwxyzABCDEFGHIJKLMNOPQRSTUVWXYZ'   # phred q -> LETTERS[q], q = 0..51
MAX_QNAME = 254
LIB_ALPHABET = 'abcdefghijklmnopqrstuvwxyzABCDEFGHIJKLMNOPQRSTUVWXYZ0123456789_-'

FIELDS = ('Is', 'RN', 'Fc', 'La', 'Ti', 'CX', 'CY')
# instrument, run, flow cell, lane, tile, x, y, filter flag (Y = filtered), control number
VALUES = {
    'v1': ('NS500414', '628', 'H7YVNBGXC', '1', '11101', '15963', '1046', 'N', '0'),
    'v2': ('M0-12_3', '7', '000000000-K3T5P', '8', '0119', '1', '99999', 'Y', '18'),     # zero-padded tile
}

# tags whose value is a phred string carried as header-safe letters (SAM tag table of the package documentation)
PHRED_TAGS = ('RQ', 'QT', 'lq', 'eq', 'QX', 'BZ', 'QM', 'is', 'H1', 'H3', 'aQ', 'AQ', 'E2', 'EQ')
# tags the tagger derives itself (never copied from the name) and the GATK tag it renames
DERIVED = ('MI', 'SM', 'QM', 'ah', 'BK', 'RG', 'BI', 'RP')

# sequencing-index whitelists, from the shipped index files (first entry of each):  config -> alias
ALIAS = {'A': 'illumina_merged_ThruPlex48S_RP', 'H': 'illumina_merged_ThruPlex48S_RP', 'B': None,
         'C': 'illumina_i7_indices', 'D': 'illumina_ThruPlex48S_indices'}
PREVIOUS_LIBRARY = 'prev-Lib_0'


def unletters(s):
    """header-safe letters -> the phred characters they stand for"""
    return ''.join(chr(33 + LETTERS.index(c)) for c in s)


def saturate(quals):
    """the phred characters a header can carry: everything above phred 51 becomes phred 51"""
    return ''.join(chr(min(ord(c), 33 + 51)) for c in quals)


def header(shape, values, mate, index='ATCACG'):
    """-> (FASTQ header line, expectation dict for the decoded alignment)"""
    inst, run, fc, lane, tile, x, y, filt, ctrl = values
    coords = f'{inst}:{run}:{fc}:{lane}:{tile}:{x}:{y}'
    exp = dict(zip(FIELDS, values))
    exp['name'] = coords
    if shape == 'S1':        # @inst:run:fc:lane:tile:x:y read:filtered:control:index
        exp.update({'Fi': filt, 'CN': ctrl, 'aa': index})
        return f'@{coords} {mate}:{filt}:{ctrl}:{index}', exp
    if shape == 'S2':        # index field absent, as printed by older bcl2fastq: "... 1:N:0::"
        exp.update({'Fi': filt, 'CN': ctrl})
        return f'@{coords} {mate}:{filt}:{ctrl}::', exp
    if shape == 'S2b':       # ten fields, nothing after the control number
        exp.update({'Fi': filt, 'CN': ctrl})
        return f'@{coords} {mate}:{filt}:{ctrl}', exp
    if shape == 'S3':        # coordinates only
        return f'@{coords}', exp
    if shape == 'DEC':       # 3-DEC: @Cluster_s_<lane>_<tile>_<n>; no Illumina coordinates exist
        return f'@Cluster_s_{lane}_{tile}_{x}', {'La': lane, 'Ti': tile}
    if shape == 'SCMO':
        # a read that already went through the demultiplexer once: k:v;k:v header as the bulk strategy writes it
        # (the instrument keeps its '@', the library of that first pass is part of it)
        # it also carries a quality tag of that first pass which no strategy sets itself (hexamer qualities H1, header-safe
        # letters): a second pass has to hand it on as it is, so that it still decodes to the ORIGINAL phred characters
        exp.update({'Fi': filt, 'CN': ctrl, 'aa': index, 'H1': unletters(FIRST_PASS_H1)})
        return (f'@Is:@{inst};RN:{run};Fc:{fc};La:{lane};Ti:{tile};CX:{x};CY:{y};Fi:{filt};CN:{ctrl};aa:{index}'
                f';LY:{PREVIOUS_LIBRARY};H1:{FIRST_PASS_H1}'), exp
    raise KeyError(shape)


def scd_name(values, variant):
    """a "Single Cell Discoveries" read name (Illumina coordinates followed by k:v attributes) and what the
    decoded alignment has to carry: the coordinates, the attributes as written, phred tags as phred characters"""
    inst, run, fc, lane, tile, x, y, _, _ = values
    coords = f'{inst}:{run}:{fc}:{lane}:{tile}:{x}:{y}'
    exp = dict(zip(FIELDS, values))
    exp['name'] = coords
    if variant == 'scd':
        attrs = [('SS', 'GTCATTAG'), ('CB', 'GTCATTAG'), ('QT', 'eeeeaZzA'), ('RX', 'CTGAAC'), ('RQ', 'aaZzAe')]
    elif variant == 'scd+LY':
        attrs = [('CB', 'ACGTNACG'), ('RX', 'CTGAAC'), ('RQ', 'azAZeE'), ('LY', 'lib-1_A')]
    else:
        raise KeyError(variant)
    for k, v in attrs:
        exp[k] = unletters(v) if k in PHRED_TAGS else v
    return coords + ';' + ';'.join(f'{k}:{v}' for k, v in attrs), exp


FIRST_PASS_H1 = 'AAAAAEazZ'


def library(n, offset=0):
    """a library name of n characters running through the whole header-safe alphabet"""
    return ''.join(LIB_ALPHABET[(offset + i) % len(LIB_ALPHABET)] for i in range(n))
