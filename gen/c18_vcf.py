"""C18 - the VCF used by the allele-lookup check.

One small bgzipped+tabixed VCF, 3 samples, 3 contigs with records (c1, c2, c3_random - the last one is
never cached by AlleleResolver because of its name) and the name of a contig that does not occur in the
file at all.  Every contig carries EVERY genotype class of the template below (including haploid / triploid genotypes,
lower-case bases, the * allele, duplicate positions and multi-allelic records that mix SNV and indel); contig k shifts all
positions by k and rotates the genotype columns by k samples, so that no two contigs (and no two sample
selections) have the same answers - mixing up contigs, samples or cache files is visible.
"""
import os
import shutil

# long strain-like names: the second and the third share their first 57 characters, and a sorted two-sample selection is
# longer than 128 characters (file-name length handling of the cache must not make two selections collide)
# the first name holds a blank (legal: the #CHROM line is tab separated, and strain names such as '129S1 SvImJ' occur)
S1 = 'Alpha strain_' + 'r' * 57
S2 = 'Strain_' + 'q' * 60 + '_2'
S3 = 'Strain_' + 'q' * 60 + '_3'
SAMPLES = (S1, S2, S3)
CONTIGS = ('c1', 'c2', 'c3_random')
CACHED_CONTIGS = ('c1', 'c2')
ABSENT = 'zz'                      # not in the header, no records
CONTIG_LENGTH = 60

# (1-based position, REF, ALT, GT of S1, S2, S3, class)
TEMPLATE = [
    (1, 'C', 'A', '0|0', '1|1', '0|1', 'informative site on the first base of the contig (0-based position 0 on c1)'),
    (2, 'A', 'G', '0|0', '1|1', '0|0', 'hom-different'),
    (3, 'T', 'A', '0|1', '0|0', '1|1', 'het (adjacent to the previous site)'),
    (5, 'G', 'C', '1|1', '1|1', '1|1', 'identical in all samples'),
    (6, 'A', 'T', '0|0', '0|0', '1|1', 'identical in two samples'),
    (8, 'A', 'C', '.|.', '1|1', '1|1', 'missing in one sample, rest identical'),
    (9, 'T', 'G', '.|.', '0|0', '1|1', 'missing in one sample, rest different'),
    (10, 'G', 'T', '.|.', '.|.', '.|.', 'missing in all samples'),
    (12, 'AT', 'A', '0|0', '1|1', '0|1', 'multi-base allele (deletion)'),
    (14, 'G', 'GA', '0|0', '1|1', '0|0', 'multi-base allele (insertion)'),
    (16, 'C', 'A,G', '0|1', '2|2', '0|0', 'multi-allelic SNV'),
    (18, 'C', 'T', '0|0', '1|1', '0|1', 'C>T'),
    (19, 'G', 'A', '1|1', '0|0', '0|0', 'G>A (adjacent)'),
    (21, 'T', 'C', '0|0', '1|1', '1|1', 'T>C (reverse of an ignored conversion)'),
    (22, 'A', 'G', '1|1', '0|0', '0|0', 'A>G (reverse of an ignored conversion)'),
    (24, 'A', 'C', '0/0', '1/1', '0/1', 'unphased genotypes'),
    (26, 'T', 'A', '0|0', '1|.', '1|1', 'half-missing genotype'),
    (28, 'C', '.', '0|0', '.|.', '0|0', 'reference-only record (ALT .) with a missing genotype'),
    (29, 'G', '.', '0|0', '0|0', '0|0', 'reference-only record, every sample called'),
    # --- VCF peculiarities (audit): all legal VCF, all inside "all VCFs" of the quantifier
    (31, 'C', 'A', '0', '1', '0', 'haploid genotypes'),
    (32, 'G', 'T', '1', '.', '0', 'haploid genotypes, one missing (adjacent)'),
    (34, 'c', 'a', '0|0', '1|1', '0|1', 'lower-case bases'),
    (36, 'C', '*', '0|0', '1|1', '0|1', 'spanning-deletion allele *'),
    (38, 'C', 'A', '0|0', '1|1', '0|1', 'duplicate position, first record'),
    (38, 'C', 'G', '0|1', '0|0', '0|0', 'duplicate position, second record'),
    (40, 'C', 'A,CT', '0|1', '0|0', '1|1', 'multi-allelic SNV + insertion, the insertion is not carried'),
    (42, 'C', 'A', '0|0', '1|1', '0|1', 'duplicate position whose second record is an insertion, first record'),
    (42, 'C', 'CT', '0|1', '0|0', '0|0', 'duplicate position whose second record is an insertion, second record'),
    (44, 'T', 'G', '0/0/1', '1/1/1', '0/0/0', 'triploid genotypes'),
    (45, 'G', 'A,C,T', '1|2', '3|3', '0|0', 'four alleles (adjacent)'),
]
MAX_POS0 = max(t[0] for t in TEMPLATE) - 1 + len(CONTIGS) - 1    # largest 0-based site position
PROBE_POSITIONS = tuple(range(0, MAX_POS0 + 2))                     # every position 0 .. one past the last site
PROBE_BASES = ('A', 'C', 'G', 'T')


# the records of c2 come first in the file although the header declares c1 first (contig order of the file != header order)
FILE_ORDER = ('c2', 'c1', 'c3_random')


def records():
    """[(contig, pos1, ref, alt, (gt S1, gt S2, gt S3), class)] in file order"""
    per = {}
    for k, contig in enumerate(CONTIGS):
        for pos, ref, alt, g1, g2, g3, cls in TEMPLATE:
            gts = [g1, g2, g3]
            gts = gts[-k:] + gts[:-k] if k else gts
            per.setdefault(contig, []).append((contig, pos + k, ref, alt, tuple(gts), cls))
    return [r for contig in FILE_ORDER for r in per[contig]]


def vcf_text():
    lines = ['##fileformat=VCFv4.2']
    for c in CONTIGS:
        lines.append(f'##contig=<ID={c},length={CONTIG_LENGTH}>')
    lines.append('##FORMAT=<ID=GT,Number=1,Type=String,Description="Genotype">')
    lines.append('#CHROM\tPOS\tID\tREF\tALT\tQUAL\tFILTER\tINFO\tFORMAT\t' + '\t'.join(SAMPLES))
    for contig, pos, ref, alt, gts, _ in records():
        lines.append(f'{contig}\t{pos}\t.\t{ref}\t{alt}\t.\tPASS\t.\tGT\t' + '\t'.join(gts))
    return '\n'.join(lines) + '\n'


VCF_NAME = 'alleles.vcf.gz'


def build(directory):
    """Write alleles.vcf (plain text, read by the independent oracle), alleles.vcf.gz and its .tbi."""
    import pysam
    plain = os.path.join(directory, 'alleles.vcf')
    with open(plain, 'w') as f:
        f.write(vcf_text())
    gz = os.path.join(directory, VCF_NAME)
    pysam.tabix_compress(plain, gz, force=True)
    pysam.tabix_index(gz, preset='vcf', force=True)
    return gz


def clone(master_dir, directory):
    """Private copy of the VCF + index (the cache directory is derived from the VCF path)."""
    os.makedirs(directory, exist_ok=True)
    for name in (VCF_NAME, VCF_NAME + '.tbi'):
        shutil.copyfile(os.path.join(master_dir, name), os.path.join(directory, name))
    return os.path.join(directory, VCF_NAME)


# ---- second VCF: contig NAMES (audit).  The cache is per contig and the resolver decides by the NAME whether a contig is
# cached at all (KN*, KZ*, chrUn*, *_random, *ERCC* are not); one name is a prefix of another (chr5 / chr5_alt), one carries
# characters that are legal in a contig name but unusual in a file name.
NAME_CONTIGS = ('chr5', 'chr5_alt', 'KN1', 'KZ2', 'chrUn_3', 'x_random', 'ERCC-4', 'HLA-A*01', 'chr5_al')
NAME_UNCACHED = ('KN1', 'KZ2', 'chrUn_3', 'x_random', 'ERCC-4')
NAME_TEMPLATE = [t for t in TEMPLATE if t[0] in (1, 2, 3, 5, 6, 8, 18, 19, 21)]
NAME_MAX_POS0 = max(t[0] for t in NAME_TEMPLATE) - 1 + len(NAME_CONTIGS) - 1
NAME_PROBE_POSITIONS = tuple(range(0, NAME_MAX_POS0 + 2))
NAMES_VCF = 'names.vcf.gz'


def name_records():
    out = []
    for k, contig in enumerate(NAME_CONTIGS):
        for pos, ref, alt, g1, g2, g3, cls in NAME_TEMPLATE:
            gts = [g1, g2, g3]
            r = k % 3
            gts = gts[-r:] + gts[:-r] if r else gts
            out.append((contig, pos + k, ref, alt, tuple(gts), cls))
    return out


def names_vcf_text():
    lines = ['##fileformat=VCFv4.2']
    for c in NAME_CONTIGS:
        lines.append(f'##contig=<ID={c},length={CONTIG_LENGTH}>')
    lines.append('##FORMAT=<ID=GT,Number=1,Type=String,Description="Genotype">')
    lines.append('#CHROM\tPOS\tID\tREF\tALT\tQUAL\tFILTER\tINFO\tFORMAT\t' + '\t'.join(SAMPLES))
    for contig, pos, ref, alt, gts, _ in name_records():
        lines.append(f'{contig}\t{pos}\t.\t{ref}\t{alt}\t.\tPASS\t.\tGT\t' + '\t'.join(gts))
    return '\n'.join(lines) + '\n'


def build_names(directory):
    import pysam
    plain = os.path.join(directory, 'names.vcf')
    with open(plain, 'w') as f:
        f.write(names_vcf_text())
    gz = os.path.join(directory, NAMES_VCF)
    pysam.tabix_compress(plain, gz, force=True)
    pysam.tabix_index(gz, preset='vcf', force=True)
    return gz


def clone_names(master_dir, directory):
    os.makedirs(directory, exist_ok=True)
    for name in (NAMES_VCF, NAMES_VCF + '.tbi'):
        shutil.copyfile(os.path.join(master_dir, name), os.path.join(directory, name))
    return os.path.join(directory, NAMES_VCF)
