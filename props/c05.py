"""C05 - tagging conserves alignment records.

(a) job construction: the real tag_multiome_multi_processing(one_contig_per_process=True) with the contig
    listing answered by the explorer and task generation replaced by a probe: EVERY contig layout (word over
    small/large contigs with reads, with/without the unmapped bin) up to the bound.
(b) end to end: the real command line entry point on real BAMs - every layout of <=3/4 contigs (small/large,
    with/without reads, any header order), with/without unmapped pairs, read classes proper / duplicate /
    reverse / no-motif / half-mapped / mates on different contigs / orphan; methods nla, chic, qflag;
    --no_rejects on/off; single process vs --multiprocess under a scheduler-owned Pool with EVERY completion
    order of the jobs.
(c) the state the INPUT may be in: for a fixed small family of layouts, every combination of record set (the usual classes /
    plus QC-failed, duplicate-flagged, first-mate-unmapped, second-mate-only, single-end, sparsely tagged, clipped / indel /
    spliced records and supplementary + secondary alignments) x header (bare / already carrying @RG, @PG and @CO lines of an
    aligner and of earlier tagging runs) x index (fresh .bai / none / the older .bai of another file / .csi only) x paths
    (absolute with -temp_folder / relative in the working directory with the default temp folder), each under every method,
    single and --multiprocess (submission and reverse order), --no_rejects, -tagthreads 1..4, -read_group_format 1 (only the
    clauses of the property's second sentence), and a second tagging pass over the tagged output (every method pair).
(d) one 12-contig BAM (every contig kind) per method and mode.
Oracle: multiset equality of records, sortedness, index, read groups, --no_rejects removes exactly the invalid.
"""
import contextlib
import itertools
import os
import shutil
import tempfile

import pysam

from gen import c05_bam
from gen.bam import Builder, records, is_coordinate_sorted
from mc import tagger
from mc.sched import all_orders

ID = 'C05'
RULE = ('(a) all contig layouts (words over small 5 kb / small 60 kb / large contigs with reads, length 0..n, with/without the unmapped bin; '
        'shorter words also over contigs of 99 999 and exactly 100 000 bp; two-run words up to 12 contigs) through the '
        'real job builder; (b) all BAM layouts x method x --no_rejects x single/--multiprocess x every completion order of the '
        'pool jobs; (c) record set x header x index state x paths of the input, each x method x mode x --no_rejects x -tagthreads 1..4 '
        'x -read_group_format x second pass over the output; (d) a 12-contig BAM; '
        'non-trivial = multiprocess run with >=3 jobs and an order other than submission order, or (c) any input that is not '
        'usual-records/bare-header/fresh-index/absolute-paths, or a run with -tagthreads / a second pass; '
        'states = runs of the tagger / job-builder, transitions = records compared')
ASSUMPTIONS = [
    'what happens to secondary/supplementary alignments is outside the claim: they occur in the input of (c), are ignored on both sides '
    'of the comparison, and must not disturb the primary records',
    'a mate number exists only on records that carry the paired flag (SAM: 0x40/0x80 mean nothing without 0x1); input reads that are '
    'not flagged paired are not flagged second mate either. The tagger itself clears the paired flag of mates it could not pair, so '
    'in a second pass the mate number is compared only where the first pass left the paired flag on both mates',
    'the only channel by which a worker schedule reaches the output is the order in which job results are delivered (ScheduledPool); '
    'one free-running real-Pool run per tier guards this',
    'samtools is absent: pysam.merge / pysam.sort code paths are the ones executed',
    'reads are pre-tagged (at least SM, RX, MX; usually BC, LY, Fc, La ...), as in the repository test BAMs; name decoding is C04',
    '-read_group_format 1 is run on reads that carry the library tag it reads (LY)',
    'one 10 500-fragment input (more than the default ejection interval) per mode drives the buffer-ejection branch inside the tagger',
]
SMALL, MEDIUM, LARGE = 5000, 60000, 120000   # MEDIUM is still below the 100 kb small-contig threshold
LEN = {'S': SMALL, 'M': MEDIUM, 'L': LARGE, 'U': SMALL, 'V': LARGE,   # U / V: contig holding only a placed unmapped read
       't': 99999, 'T': 100000}                                         # just below / exactly the small-contig threshold
WIDE = ('S+', 'M+', 'L+', 'S0', 'L+', 'S+', 'U+', 'M+', 'L0', 'S+', 'V+', 'M+')


def bounds(tier):
    common = {'unmapped_pairs': [0, 1], 'methods': ['nla', 'chic', 'qflag'],
              'job_builder_two_run_words': 'a^i b^j over S/M/L, 7..12 contigs' if tier == 'quick' else 'subsumed (all words up to 12 contigs)',
              'input_record_sets': ['usual', 'unusual'], 'input_headers': ['bare', 'rich'], 'input_index': list(c05_bam.INDEX_STATES),
              'input_paths': ['absolute', 'relative'], 'tagthreads': [None, 1, 2, 3, 4], 'read_group_format': [0, 1],
              'second_pass': 'every (method, method) pair, single and multiprocess, on fresh-index/absolute-path inputs',
              'wide_bam_contigs': len(WIDE)}
    if tier == 'quick':
        return dict(common, job_builder_max_contigs=6, job_builder_threshold_letters_max_contigs=4, bam_max_contigs=3,
                    contig_kinds=['S+', 'M+', 'L+', 'S0', 'U+'], orders='all (<=24) for nla default; identity+reverse otherwise',
                    input_layouts=[['L+', 'S+']], input_unmapped=[1], tagthreads_methods=['nla'])
    return dict(common, job_builder_max_contigs=12, job_builder_threshold_letters_max_contigs=6, bam_max_contigs=4,
                contig_kinds=['S+', 'M+', 'L+', 'S0', 'L0', 'U+', 'V+'], orders='all (<=120) for nla default; identity+reverse otherwise',
                input_layouts=[list(w) for n in (1, 2) for w in itertools.product(('S+', 'L+'), repeat=n)], input_unmapped=[0, 3],
                tagthreads_methods=['nla', 'chic', 'qflag'])


# ------------------------------------------------------------------ (a) job builder
class _Probe(Exception):
    def __init__(self, job_gen):
        self.job_gen = job_gen


def probe_jobs(layout, unmapped, quiet=True):
    """layout: string over 'S','M','t','T','L' -> list of jobs (each a list of contig names) the real code builds"""
    tm = tagger.tagger_module()
    contigs = [(f'c{i}', LEN[k]) for i, k in enumerate(layout)]
    listing = list(contigs) + ([('*', 0)] if unmapped else [])

    def fake_contigs(path, with_length=False):
        for c, l in listing:
            yield (c, l) if with_length else c

    def fake_tasks(input_bam_path=None, job_gen=None, **k):
        raise _Probe([list(j) for j in job_gen])
    root = tempfile.mkdtemp(prefix='c05a_', dir='/dev/shm')
    saved = (tm.get_contigs_with_reads, tm.generate_tasks)
    tm.get_contigs_with_reads = fake_contigs
    tm.generate_tasks = fake_tasks
    try:
        try:
            with (tagger.silenced() if quiet else contextlib.nullcontext()):
                tm.tag_multiome_multi_processing(input_bam_path='in.bam', out_bam_path='out.bam', molecule_iterator=None,
                                                 molecule_iterator_args={}, fragment_size=1000, bp_per_job=10_000_000,
                                                 bp_per_segment=1_000_000, temp_folder_root=root, one_contig_per_process=True,
                                                 additional_args={})
        except _Probe as p:
            return [[t[0] for t in job] for job in p.job_gen], contigs
        except Exception as ex:
            return ex, contigs
        return RuntimeError('probe not reached'), contigs
    finally:
        tm.get_contigs_with_reads, tm.generate_tasks = saved
        shutil.rmtree(root, ignore_errors=True)


def check_jobs(layout, unmapped, quiet=True):
    jobs, contigs = probe_jobs(layout, unmapped, quiet)
    if isinstance(jobs, Exception):
        return [(f'jobs:exception:{type(jobs).__name__}', repr(jobs))], 0
    flat = [c for j in jobs for c in j]
    out = []
    for c, l in contigs:
        n = flat.count(c)
        kind = 'small' if l < 100000 else ('threshold-length' if l == 100000 else 'large')
        if n == 0:
            out.append((f'jobs:{kind}-contig-with-reads-in-no-job', {'contig': c, 'jobs': jobs}))
        elif n > 1:
            out.append((f'jobs:{kind}-contig-in-several-jobs', {'contig': c, 'jobs': jobs}))
    n = flat.count('*')
    if n > 1:
        out.append(('jobs:unmapped-bin-in-several-jobs', {'jobs': jobs}))
    if unmapped and n == 0:
        out.append(('jobs:unmapped-bin-in-no-job', {'jobs': jobs}))
    extra = set(flat) - {c for c, _ in contigs} - {'*'}
    if extra:
        out.append(('jobs:unknown-contig-in-jobs', {'jobs': jobs}))
    seen = set()
    return [(s, d) for s, d in out if not (s in seen or seen.add(s))], len(jobs)


# ------------------------------------------------------------------ (b) end to end
def build_bam(path, layout, n_unmapped, recs='usual', rich_header=False):
    """layout: tuple of kinds 'S+','L+','S0','L0'. Returns truth: {name: class}"""
    contigs = [(f'c{i}{k[0]}', LEN[k[0]]) for i, k in enumerate(layout)]
    b = c05_bam.builder(contigs, rich_header)
    truth = {}
    with_reads = [c for (c, l), k in zip(contigs, layout) if k.endswith('+') and k[0] not in 'UV']
    for ci, c in enumerate(with_reads):
        base = 1000 + 100 * ci
        # two copies of one molecule with different R2 ends; the copy that completes LATER in coordinate order (the longer
        # one) was sequenced on another lane: its read group occurs only on a non-first fragment of a molecule
        truth[b.pair(c, base, cell=1, umi='AAA', extra_tags={'La': '2'})] = 'valid'
        truth[b.pair(c, base, cell=1, umi='AAA', frag=45)] = 'valid'
        truth[b.pair(c, base + 400, cell=2, umi='ACG', reverse=True)] = 'valid'
        truth[b.pair(c, base + 800, cell=1, umi='CCC', motif='CTTG')] = 'nomotif'
        truth[b.pair(c, base + 1200, cell=1, umi='GGA', r2_unmapped=True)] = 'halfmapped'
        if recs == 'unusual':
            c05_bam.add_unusual_mapped(b, c, 3600 + 3 * ci, truth)
    for (c, l), k in zip(contigs, layout):
        if k[0] in 'UV':
            truth[b.placed_unmapped_orphan(c, 700, cell=2, umi='GCA')] = 'unmapped'
    if len(with_reads) >= 2:
        truth[b.pair(with_reads[0], 3000, cell=1, umi='TTT', r2_contig=with_reads[-1], r2_pos=3500)] = 'split'
    if with_reads:
        truth[b.pair(with_reads[0], 3300, cell=2, umi='TAT', r1_only_in_file=True)] = 'orphan'
    for _ in range(n_unmapped):
        truth[b.unmapped_pair()] = 'unmapped'
    if recs == 'unusual' and n_unmapped:
        c05_bam.add_unusual_unmapped(b, truth)
    b.write(path)
    return truth


def rec_key(r, both):
    mate = r['mate'] if r['name'] in both else 0
    return (r['name'], mate, r['seq'], r['qual'], r['contig'], r['pos'], r['cigar'])


def names_with_both_mates(inp):
    """names of which both mates are present as records that carry the paired flag (only there a mate number exists)"""
    names, unpaired = {}, set()
    for r in inp:
        names.setdefault(r['name'], set()).add(r['mate'])
        if not r['paired']:
            unpaired.add(r['name'])
    return {n for n, m in names.items() if 1 in m and 2 in m and n not in unpaired}


def wellformed(out_path, out, tag):
    """second sentence of the property: coordinate sorted, indexed (and the index serves every placed record), every record
    carries a read group which the header declares"""
    viol = []
    if not is_coordinate_sorted(out):
        viol.append((f'{tag}:output-not-coordinate-sorted', {}))
    if not (os.path.exists(out_path + '.bai') or os.path.exists(out_path + '.csi')):
        viol.append((f'{tag}:index-missing', {}))
    else:
        try:
            with pysam.AlignmentFile(out_path) as f:
                n = 0
                for c in f.references:
                    n += sum(1 for r in f.fetch(c) if not (r.is_secondary or r.is_supplementary))
                n_mapped_placed = sum(1 for r in out if r['tid'] >= 0)
                if n != n_mapped_placed:
                    viol.append((f'{tag}:index-does-not-cover-all-records', {'via_index': n, 'in_file': n_mapped_placed}))
                rgs = {rg['ID'] for rg in f.header.to_dict().get('RG', [])}
        except Exception as ex:
            viol.append((f'{tag}:index-unusable:{type(ex).__name__}', repr(ex)))
            rgs = None
        if rgs is not None:
            for r in out:
                rg = r['tags'].get('RG')
                if rg is None:
                    viol.append((f'{tag}:record-without-read-group', {'name': r['name']}))
                    break
                if rg not in rgs:
                    viol.append((f'{tag}:read-group-not-declared-in-header', {'RG': rg, 'declared': sorted(rgs)}))
                    break
    return viol


def compare(inp, out_path, tag, conservation=True):
    """conservation + well-formedness of one output against the input records"""
    viol = []
    if not os.path.exists(out_path):
        return [(f'{tag}:no-output-bam', {})], None
    try:
        out = records(out_path)
    except Exception as ex:
        return [(f'{tag}:output-unreadable:{type(ex).__name__}', repr(ex))], None
    both = names_with_both_mates(inp)
    want = sorted(rec_key(r, both) for r in inp)
    got = sorted(rec_key(r, both) for r in out)
    if conservation and want != got:
        from collections import Counter
        cw, cg = Counter(want), Counter(got)
        lost = list((cw - cg).elements())
        extra = list((cg - cw).elements())
        lost_names = {(k[0], k[1]) for k in lost}
        extra_names = {(k[0], k[1]) for k in extra}
        if lost_names & extra_names:
            viol.append((f'{tag}:record-altered', {'before': lost[:2], 'after': extra[:2]}))
        if lost_names - extra_names:
            kinds = sorted({'unmapped' if k[4] is None else 'mapped' for k in lost if (k[0], k[1]) not in extra_names})
            viol.append((f'{tag}:record-lost:{"+".join(kinds)}', {'lost': lost[:3], 'n': len(lost)}))
        if extra_names - lost_names:
            kinds = sorted({'unmapped' if k[4] is None else 'mapped' for k in extra if (k[0], k[1]) not in lost_names})
            viol.append((f'{tag}:record-written-twice:{"+".join(kinds)}', {'extra': extra[:3], 'n': len(extra)}))
    viol += wellformed(out_path, out, tag)
    return viol, out


def run_case(case, keep=None):
    """case: {'layout': [...], 'unmapped': n, 'method': m, 'no_rejects': bool, 'mode': 'single'|'multi', 'order': [...]|None}"""
    d = tempfile.mkdtemp(prefix='c05_', dir='/dev/shm')
    try:
        inp_path = os.path.join(d, 'in.bam')
        truth = build_bam(inp_path, tuple(case['layout']), case['unmapped'])
        inp = records(inp_path)
        return run_on(d, inp_path, inp, truth, case)
    finally:
        shutil.rmtree(d, ignore_errors=True)


ENV_DEFAULT = (('recs', 'usual'), ('header', 'bare'), ('index', 'fresh'), ('paths', 'absolute'))


def case_tag(case, name_env=None):
    """configuration class of a run: what a signature names besides the violated clause. Of the letters that describe the state
    of the input only those in name_env are named (None: every one that is not the default)"""
    case = dict(case)
    if name_env is not None:
        for dim, default in ENV_DEFAULT:
            if dim not in name_env:
                case[dim] = default
    tag = f"{case['method']}:{'multiprocess' if case['mode'] == 'multi' else 'single'}" + (':no_rejects' if case['no_rejects'] else '')
    if case.get('tagthreads') is not None:
        tag += ':tagthreads'
    if case.get('rgf'):
        tag += ':read_group_format_1'
    if case.get('index', 'fresh') != 'fresh':
        tag += f":{case['index']}-input-index"
    if case.get('header', 'bare') != 'bare':
        tag += ':input-with-header-lines'
    if case.get('paths', 'absolute') != 'absolute':
        tag += ':relative-paths-default-temp'
    if case.get('recs', 'usual') != 'usual':
        tag += ':unusual-records'
    if case.get('first_pass'):
        tag = f"second-pass-after-{case['first_pass']}:" + tag
    return tag


def run_on(d, inp_path, inp, truth, case, real_pool=False, out_name=None, prepare=None, tag=None):
    """one run of the real command line on inp_path (a file in directory d); inp: the records the output is compared with"""
    out_path = os.path.join(d, out_name or f'out_{case["mode"]}.bam')
    for p in (out_path, out_path + '.bai', out_path + '.csi'):
        if os.path.exists(p):
            os.remove(p)
    if prepare is not None:
        prepare()
    relative = case.get('paths', 'absolute') == 'relative'
    if relative:
        # what a user types in the directory of the data: relative names, no -temp_folder (its default is the working directory)
        argv = [os.path.relpath(inp_path, d), '-method', case['method'], '-o', os.path.relpath(out_path, d)]
    else:
        argv = [inp_path, '-method', case['method'], '-o', out_path, '-temp_folder', d]
    if case['no_rejects']:
        argv.append('--no_rejects')
    if case['mode'] == 'multi':
        argv.append('--multiprocess')
    if case.get('tagthreads') is not None:
        argv += ['-tagthreads', str(case['tagthreads'])]
    if case.get('rgf'):
        argv += ['-read_group_format', str(case['rgf'])]
    if case.get('extra_argv'):
        argv += list(case['extra_argv'])
    order = case.get('order')
    if order == 'reverse':
        def order(n, call_index):       # whatever the number of jobs turns out to be
            return list(reversed(range(n)))
    tag = tag or case_tag(case)
    cwd = os.getcwd()
    try:
        if relative:
            os.chdir(d)
        if real_pool:
            err = tagger.run_tagger_subprocess(argv)
            if err is not None:
                return [(f'{tag}:real-pool-run-failed', err)], {'jobs': None}
            info = {'jobs': None}
        else:
            exc, sch = tagger.run_tagger(argv, order=order)
            if exc is not None:
                return [(f'{tag}:exception:{type(exc).__name__}', repr(exc))], {'jobs': None}
            info = {'jobs': sch.log[0]['n'] if sch.log else None}
    finally:
        if relative:
            os.chdir(cwd)
    if not case['no_rejects']:
        viol, out = compare(inp, out_path, tag, conservation=not case.get('rgf'))
        return viol, info
    # --no_rejects: exactly the invalid fragments are removed
    #   removal allowed: no NlaIII motif (nla), unmapped, QC-failed on input; must stay: the usual valid classes;
    #   the other classes (half-mapped, orphan, split, single-end, clipped) are left open by the property
    removed_ok = {'nomotif', 'unmapped', 'qcfail_in'} if case['method'] == 'nla' else {'unmapped', 'qcfail_in'}
    must_keep = {'valid'} if case['method'] == 'nla' else {'valid', 'nomotif'}
    keep_inp = [r for r in inp if truth[r['name']] in must_keep]
    viol = []
    if not os.path.exists(out_path):
        return [(f'{tag}:no-output-bam', {})], info
    out = records(out_path)
    names_out = {r['name'] for r in out}
    lost = sorted({r['name'] for r in keep_inp} - names_out)
    if lost:
        viol.append((f'{tag}:valid-fragment-removed', {'names': lost[:3]}))
    bad = sorted(n for n in names_out if truth[n] in removed_ok)
    if bad:
        viol.append((f'{tag}:invalid-fragment-kept', {'names': bad[:3], 'classes': sorted({truth[n] for n in bad})}))
    rej = [r['name'] for r in out if r['qcfail']]
    if rej:
        viol.append((f'{tag}:rejected-(qcfail)-record-written', {'names': rej[:3]}))
    # every kept record is an unaltered input record, written once
    both = names_with_both_mates(inp)
    inp_keys = {}
    for r in inp:
        inp_keys[rec_key(r, both)] = inp_keys.get(rec_key(r, both), 0) + 1
    seen = {}
    for r in out:
        k = rec_key(r, both)
        seen[k] = seen.get(k, 0) + 1
        if k not in inp_keys:
            viol.append((f'{tag}:record-altered', {'record': k}))
            break
        if seen[k] > inp_keys[k]:
            viol.append((f'{tag}:record-written-twice', {'record': k}))
            break
    viol += wellformed(out_path, out, tag)
    return viol, info


def layouts(tier):
    b = bounds(tier)
    for n in range(1, b['bam_max_contigs'] + 1):
        for lay in itertools.product(b['contig_kinds'], repeat=n):
            yield lay


# ------------------------------------------------------------------ (a) enumeration
_JOB_WORDS = {}


def job_words(tier):
    """every layout word the job builder is probed with, grouped by the first (up to) two letters so that the groups can run
    side by side; simplest first inside a group"""
    if tier in _JOB_WORDS:
        return _JOB_WORDS[tier]
    b = bounds(tier)
    n_max, n_thr = b['job_builder_max_contigs'], b['job_builder_threshold_letters_max_contigs']
    groups = {}

    plen = 2 if tier == 'quick' else 3

    def add(w):
        groups.setdefault(w[:plen], []).append(w)
    seen = set()
    for k in range(0, n_max + 1):
        for lay in itertools.product('SML', repeat=k):
            w = ''.join(lay)
            seen.add(w)
            add(w)
    for k in range(1, n_thr + 1):
        for lay in itertools.product('SMtTL', repeat=k):
            w = ''.join(lay)
            if w not in seen:
                seen.add(w)
                add(w)
    if n_max < 12:
        # two-run words a^i b^j up to the 12 contigs the property speaks of
        for k in range(n_max + 1, 13):
            for a in 'SML':
                for bb in 'SML':
                    for i in range(0, k + 1):
                        w = a * i + bb * (k - i)
                        if w not in seen:
                            seen.add(w)
                            add(w)
    _JOB_WORDS[tier] = groups
    return groups


# ------------------------------------------------------------------ (c) enumeration
def input_variants(tier):
    """(recs, header, index) triples: one shard each; layouts, unmapped counts and paths are enumerated inside"""
    b = bounds(tier)
    return [(r, h, i) for r in b['input_record_sets'] for h in b['input_headers'] for i in b['input_index']]


def shards(tier):
    out = [('jobs', tier, key) for key in sorted(job_words(tier), key=lambda k: (len(k), k))]
    ls = list(layouts(tier))
    G = 2 if tier == 'quick' else 6
    for i in range(0, len(ls), G):
        out.append(('bams', ls[i:i + G]))
    for v in input_variants(tier):
        if tier == 'quick':
            out.append(('inputs', v, None))
        else:
            for lay in bounds(tier)['input_layouts']:
                out.append(('inputs', v, lay))
    out.append(('wide', tier))
    out.append(('conformance', tier))
    out.append(('big', 'single'))
    out.append(('big', 'multi'))
    return out


def run_shard(shard, tier, acc):
    if shard[0] == 'jobs':
        words = job_words(tier)[shard[2]]
        with tagger.silenced():
            for w in words:
                for unmapped in (False, True):
                    case = {'kind': 'jobs', 'layout': w, 'unmapped': unmapped}
                    viols, njobs = check_jobs(w, unmapped, quiet=False)
                    small = any(c in w for c in 'SMt')
                    acc.case(case, transitions=max(njobs, 1), nontrivial=(small and any(c in w for c in 'LT')),
                             outcome=f'jobs={min(njobs, 6)}' + (':threshold-letter' if ('t' in w or 'T' in w) else '') + (':>8-contigs' if len(w) > 8 else ''))
                    for sig, d in viols:
                        acc.violation(sig, case, d)
        return
    if shard[0] == 'big':
        # more fragments than the default buffer-ejection interval (10 000): the ejection branch runs inside the tagger
        case = {'kind': 'big', 'mode': shard[1], 'method': 'chic', 'no_rejects': False, 'order': None, 'fragments': 10500}
        viols, info = run_big(case)
        acc.case(case, transitions=21000, nontrivial=True, outcome=f'big:{shard[1]}:viol={len(viols)}')
        for sig, d in viols:
            acc.violation(sig, case, d)
        return
    if shard[0] == 'conformance':
        # free-running pass with the real multiprocessing.Pool: the fake pool must not hide anything
        for lay, um, tt in ((('S+', 'L+', 'S+'), 1, None), (('M+', 'M+', 'S+'), 1, 2), (('L+', 'S+', 'S0', 'L+')[:bounds(tier)['bam_max_contigs']], 1, None)):
            case = {'kind': 'conformance', 'layout': list(lay), 'unmapped': um, 'method': 'nla', 'no_rejects': False, 'mode': 'multi',
                    'order': None}
            if tt is not None:
                case['tagthreads'] = tt     # a real pool of exactly two workers
            viols, info = _conformance(case)
            acc.case(case, transitions=1, nontrivial=True, outcome='conformance-real-pool' + (f':tagthreads={tt}' if tt else ''))
            acc.count('conformance_runs')
            for sig, d in viols:
                acc.violation(sig, case, d)
        return
    if shard[0] == 'inputs':
        run_inputs_shard(shard, tier, acc)
        return
    if shard[0] == 'wide':
        run_wide(acc)
        return
    # One directory and ONE input path for the whole shard: every layout replaces the BAM (and its index) at the same path,
    # as a pipeline that regenerates its input does. Anything the code under test remembers about a path between runs
    # (contig tables, index statistics) is then stale.
    shard_dir = tempfile.mkdtemp(prefix='c05_', dir='/dev/shm')
    for lay in shard[1]:
        for um in bounds(tier)['unmapped_pairs']:
            d = shard_dir
            _empty(d)
            try:
                inp_path = os.path.join(d, 'in.bam')
                truth = build_bam(inp_path, lay, um)
                inp = records(inp_path)
                njobs = None
                for method in bounds(tier)['methods']:
                    for no_rej in (False, True):
                        if method == 'qflag' and no_rej:
                            continue
                        base = {'kind': 'bam', 'layout': list(lay), 'unmapped': um, 'method': method, 'no_rejects': no_rej}
                        plans = [('single', None)]
                        # learn the number of jobs from a first multiprocess run in submission order
                        c0 = dict(base, mode='multi', order=None)
                        viols, info = run_on(d, inp_path, inp, truth, c0)
                        _report(acc, c0, viols, info, len(inp))
                        njobs = info.get('jobs')
                        if njobs:
                            if method == 'nla' and not no_rej:
                                orders = [o for o in all_orders(njobs) if list(o) != list(range(njobs))] if njobs <= 5 else [tuple(reversed(range(njobs)))]
                            else:
                                orders = [tuple(reversed(range(njobs)))] if njobs > 1 else []
                            plans += [('multi', list(o)) for o in orders]
                        for mode, order in plans:
                            c = dict(base, mode=mode, order=order)
                            viols, info = run_on(d, inp_path, inp, truth, c)
                            _report(acc, c, viols, info, len(inp))
            finally:
                pass
    shutil.rmtree(shard_dir, ignore_errors=True)


def _empty(d):
    for fn in os.listdir(d):
        fp = os.path.join(d, fn)
        if os.path.isdir(fp):
            shutil.rmtree(fp, ignore_errors=True)
        else:
            os.remove(fp)


def _report(acc, case, viols, info, nrec, nontrivial=None, label=''):
    nj = info.get('jobs')
    if nontrivial is None:
        nontrivial = (case['mode'] == 'multi' and (nj or 0) >= 3 and case.get('order') is not None)
    acc.case(case, transitions=nrec, nontrivial=nontrivial,
             outcome=f"{label}{case['method']}:{case['mode']}:jobs={nj}:norej={case['no_rejects']}:viol={len(viols)}")
    for sig, d in viols:
        acc.violation(sig, case, d)


# ------------------------------------------------------------------ (c) the state of the input
class _Input:
    """one input BAM of part (c) at <d>/in.bam, with the means to put its index back into the state under test before every run
    (the first run repairs a missing / stale index, so the state has to be re-established each time)"""

    def __init__(self, d, layout, um, recs, header, index):
        self.d, self.index = d, index
        self.path = os.path.join(d, 'in.bam')
        self.truth = build_bam(self.path, tuple(layout), um, recs=recs, rich_header=(header == 'rich'))
        self.records = records(self.path)
        self.bai, self.csi = c05_bam.index_bytes(self.path)
        contigs = [(f'c{i}{k[0]}', LEN[k[0]]) for i, k in enumerate(layout)]
        self.foreign = c05_bam.make_foreign_index(contigs, d)

    def prepare(self):
        c05_bam.set_index_state(self.path, self.index, self.foreign, self.bai, self.csi)


def input_runs(tier, recs):
    """the runs every input of part (c) is put through: (options, label)"""
    b = bounds(tier)
    runs = []
    for method in b['methods']:
        runs.append((dict(method=method, no_rejects=False, mode='single', order=None), 'default'))
        runs.append((dict(method=method, no_rejects=False, mode='multi', order=None), 'default'))
        runs.append((dict(method=method, no_rejects=False, mode='multi', order='reverse'), 'default'))
    for method in ('nla', 'chic'):
        for mode in ('single', 'multi'):
            runs.append((dict(method=method, no_rejects=True, mode=mode, order=None), 'no_rejects'))
    for method in b['tagthreads_methods']:
        for t in (1, 2, 3, 4):
            runs.append((dict(method=method, no_rejects=False, mode='multi', order=None, tagthreads=t), f'tagthreads={t}'))
    if recs == 'usual':          # every usual read carries LY
        for mode in ('single', 'multi'):
            runs.append((dict(method='nla', no_rejects=False, mode=mode, order=None, rgf=1), 'rgf=1'))
    return runs


def run_input_case(case, inp=None):
    """one case of part (c) with the violated clauses attributed to the letters of the input that are needed for them: every
    letter that is not the default is put back to its default in turn (a fresh input in its own directory); a clause that is
    still violated then does not get that letter into its signature. A defect that shows for every input is thus reported
    under ONE signature, one that needs the stale index under a signature that says so. Costs nothing while nothing fails."""
    bare = case_tag(case, name_env=())
    viols, info = _run_input_case(case, inp, bare)
    varied = [dim for dim, default in ENV_DEFAULT if case.get(dim, default) != default]
    if not viols or not varied:
        return viols, info
    still = {}
    for dim in varied:
        v2, _ = _run_input_case(dict(case, **{dim: dict(ENV_DEFAULT)[dim]}), None, bare)
        still[dim] = {sig for sig, _ in v2}
    out = []
    for sig, detail in viols:
        needed = [dim for dim in varied if sig not in still[dim]]
        clause = sig[len(bare) + 1:]
        out.append((f'{case_tag(case, name_env=needed)}:{clause}', detail))
    return out, info


def _run_input_case(case, inp, tag):
    """builds the input unless `inp` (an _Input in its own directory) is handed in; signatures are <tag>:<clause>"""
    own = inp is None
    d = tempfile.mkdtemp(prefix='c05i_', dir='/dev/shm') if own else inp.d
    try:
        if own:
            inp = _Input(d, case['layout'], case['unmapped'], case['recs'], case['header'], case['index'])
        c = dict(case)
        if not case.get('first_pass'):
            return run_on(d, inp.path, inp.records, inp.truth, c, prepare=inp.prepare, tag=tag)
        # second pass: tag the input with the first method, then tag THAT output; its records are the reference
        first = dict(method=case['first_pass'], no_rejects=False, mode=case['mode'], order=None, paths=case.get('paths', 'absolute'),
                     index=case['index'], header=case['header'], recs=case['recs'])
        mid_name = f"first_{case['first_pass']}_{case['mode']}.bam"
        mid = os.path.join(d, mid_name)
        if own or not os.path.exists(mid + '.ok'):
            viols, info = run_on(d, inp.path, inp.records, inp.truth, first, out_name=mid_name, prepare=inp.prepare)
            if viols:
                # reported by the first-pass case itself; nothing to feed into a second pass
                return [], {'jobs': None, 'skipped': True}
            open(mid + '.ok', 'w').close()      # the same first pass serves the three second-pass methods of a shard
        mid_records = records(mid)
        return run_on(d, mid, mid_records, inp.truth, c, out_name='second.bam', tag=tag)
    finally:
        if own:
            shutil.rmtree(d, ignore_errors=True)


def run_inputs_shard(shard, tier, acc):
    (recs, header, index) = shard[1]
    b = bounds(tier)
    lays = b['input_layouts'] if shard[2] is None else [shard[2]]
    d = tempfile.mkdtemp(prefix='c05i_', dir='/dev/shm')
    try:
        for lay in lays:
            for um in b['input_unmapped']:
                _empty(d)
                inp = _Input(d, lay, um, recs, header, index)
                plain = (recs, header, index) == ('usual', 'bare', 'fresh')
                for paths in b['input_paths']:
                    for opts, label in input_runs(tier, recs):
                        case = dict(opts, kind='input', layout=list(lay), unmapped=um, recs=recs, header=header, index=index, paths=paths)
                        viols, info = run_input_case(case, inp)
                        _report(acc, case, viols, info, len(inp.records),
                                nontrivial=(not plain or paths != 'absolute' or label != 'default'), label=f'input:{label}:')
                        for key in (f'records={recs}', f'header={header}', f'index={index}', f'paths={paths}', f'run={label}'):
                            acc.count('input.' + key)
                if index == 'fresh':
                    # a second tagging pass over the tagged file (its flags, tags and header lines are now those the tagger writes)
                    for first in b['methods']:
                        for method in b['methods']:
                            for mode in ('single', 'multi'):
                                case = dict(kind='input', layout=list(lay), unmapped=um, recs=recs, header=header, index=index, paths='absolute',
                                            method=method, no_rejects=False, mode=mode, order=None, first_pass=first)
                                viols, info = run_input_case(case, inp)
                                _report(acc, case, viols, info, len(inp.records), nontrivial=not info.get('skipped'),
                                        label=f'input:second-pass-after-{first}:' + ('SKIPPED:' if info.get('skipped') else ''))
                                for key in (f'records={recs}', f'header={header}', 'run=second-pass'):
                                    acc.count('input.' + key)
    finally:
        shutil.rmtree(d, ignore_errors=True)


# ------------------------------------------------------------------ (d) twelve contigs end to end
def wide_cases():
    for method in ('nla', 'chic', 'qflag'):
        yield dict(kind='wide', layout=list(WIDE), unmapped=1, method=method, no_rejects=False, mode='single', order=None)
        yield dict(kind='wide', layout=list(WIDE), unmapped=1, method=method, no_rejects=False, mode='multi', order=None)
        yield dict(kind='wide', layout=list(WIDE), unmapped=1, method=method, no_rejects=False, mode='multi', order='reverse')
        if method != 'qflag':
            yield dict(kind='wide', layout=list(WIDE), unmapped=1, method=method, no_rejects=True, mode='multi', order=None)


def run_wide_case(case):
    return run_case(case)


def run_wide(acc):
    for case in wide_cases():
        viols, info = run_wide_case(case)
        _report(acc, case, viols, info, 0, nontrivial=True, label='wide:')


def run_big(case):
    d = tempfile.mkdtemp(prefix='c05b_', dir='/dev/shm')
    try:
        b = Builder([('cL', 3000000), ('cS', 5000)])
        truth = {}
        for i in range(case['fragments']):
            truth[b.pair('cL', 1000 + 200 * i, cell=1 + i % 3, umi='AAA', method='chic', mx='scCHIC384C8U3')] = 'valid'
        truth[b.pair('cS', 1000, cell=1, umi='CCC', method='chic', mx='scCHIC384C8U3')] = 'valid'
        inp_path = b.write(os.path.join(d, 'in.bam'))
        inp = records(inp_path)
        return run_on(d, inp_path, inp, truth, case)
    finally:
        shutil.rmtree(d, ignore_errors=True)


def _conformance(case):
    d = tempfile.mkdtemp(prefix='c05c_', dir='/dev/shm')
    try:
        inp_path = os.path.join(d, 'in.bam')
        truth = build_bam(inp_path, tuple(case['layout']), case['unmapped'])
        inp = records(inp_path)
        return run_on(d, inp_path, inp, truth, case, real_pool=True)
    finally:
        shutil.rmtree(d, ignore_errors=True)


def replay(case):
    if case['kind'] == 'jobs':
        return check_jobs(case['layout'], case['unmapped'])[0]
    if case['kind'] == 'conformance':
        return _conformance(case)[0]
    if case['kind'] == 'big':
        return run_big(case)[0]
    if case['kind'] == 'input':
        return run_input_case(case)[0]
    if case['kind'] == 'wide':
        return run_wide_case(case)[0]
    return run_case(case)[0]
