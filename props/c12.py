"""C12 - binned molecule counting is independent of how the genome is split into jobs (and of the schedule).

Seams   generate_commands -> count_fragments_binned -> obtain_counts(live_update=False)   and
        get_binned_counts(regions=None), on the real bamBinCounts module; the module's Pool is replaced
        by mc.sched.ScheduledPool (in-process, completion order chosen here, arguments and results through a
        pickle round trip).  Nothing else is changed except that AlignmentFile(threads=4) is opened without
        htslib decompression threads (3.9 ms of thread start per job body; no influence on the records read).
Space   tagged BAMs from gen/c12_bam.py (3-4 contigs, 3 cells, DS on every multiple of 50 and +-1, at 0/1 and at
        the last two bases of every contig, sites at / D bases beside the read on both sides and strands, allele
        tag DA, plus records that must not be counted: duplicate, QC-fail(+RR), read 2, MAPQ below threshold /
        0, mp != unique; and countable specials: MAPQ at the threshold, mp == unique, not-proper pair)
        x bin size {50,100,250} x bins-per-job 1..N (N = bins on the longest contig)
        x max_fragment_size D in {read length 20, 100, 1000} (BAM built for D: every site within D of its read,
          some exactly D) x key_tags {None, ['DA']} x EVERY completion order of the jobs (<= 5 jobs; thorough <= 6)
          or every order within 2 (thorough 3) adjacent swaps of submission order plus the reversal.
        + 'default-options' cases: generate_commands(path, bin_size, bins_per_job) with every other option at its
          default, the way bamMutProfiler / vcfMutProfiler / the module's __main__ call it.
        + 'edge' BAMs: read-1 records whose DS lies just outside the contig (what the CHiC tagger writes for a
          read touching a contig end); no bin contains such a site, so ONLY the invariance clause is demanded:
          the matrix must be the same for every bins-per-job and order (reference: 1 bin per job, submission order).
        + get_binned_counts: bin sizes x n_threads {None,1,4} x every execution order of the per-contig jobs,
          filter_function = the module's read_counts configured as the property words the filter.
        + conformance: free-running runs with the real multiprocessing.Pool in a fresh interpreter (gen/c12_run.py),
          compared with the oracle and with the scheduled result.
Oracle  oracles/c12_oracle.py: direct count over the BAM records (until_eof), from the property text.
"""
import atexit
import contextlib
import json
import os
import shutil
import subprocess
import sys
import tempfile

from mc import bind, sched

ID = 'C12'
DESIGN_REF = 'DESIGN.md section 3, C12; section 4 lead 18'
RULE = ('one case = one complete run of the real counter (generate_commands -> obtain_counts, or get_binned_counts) '
        'for one (BAM, bin size, bins per job, max fragment size, key tags, completion order); all completion orders '
        'of the job set are enumerated when it has <= full_upto jobs, else every order within `swaps` adjacent swaps '
        'of submission order plus the reversal; transitions = job bodies executed. A case is non-trivial when at '
        'least one contig is split into >= 2 jobs (so records with sites on, and one base beside, a job boundary and '
        'records fetched by two neighbouring jobs exist) and the order is not the submission order, or it is a '
        'conformance run with the real Pool')
ASSUMPTIONS = [
    'every counted record carries DS and SM; |DS - aligned span| <= max_fragment_size (each BAM is built for the '
    'max_fragment_size it is counted with; the bound is tight for some records)',
    'core BAMs: 0 <= DS < contig length. Edge BAMs (DS in {-2,-1,length,length+1}) are only required to give the '
    'same matrix for every bins-per-job and schedule, not to be counted in any particular bin',
    '"passing the mapping-quality threshold" means MAPQ >= min_mq (the CLI help says "Minimum mapping quality"); '
    '"rejected" means the QC-fail flag (how rejected molecules are written)',
    'one BAM file per run (the property speaks of "the BAM"); alt_spans, head, skip_contigs and dedup=False are not '
    'part of the property and are left at their defaults',
    'bin identity: a bin is named by (key tag values, contig, bin start); a reported bin end must be start+bin size '
    'or that clipped to the contig length',
    'get_binned_counts has no filter of its own for MAPQ / mp; it is run with filter_function = read_counts(min_mq, '
    'read1_only) so that it is asked for the matrix the property describes',
    'job bodies run in-process without htslib decompression threads; the free-running conformance runs keep them',
]

READ_LEN = 20
BIN_SIZES = (50, 100, 250)
KWARGS = {'ignore_mp': False, 'ignore_qcfail': False}      # what bamCopyNumber passes by default

_DIR = None
_BAMS = {}        # tuple(spec) -> path
_PARENT = None


# ------------------------------------------------------------------------------------------------ bounds

def bounds(tier):
    if tier == 'quick':
        return {'layouts': [0], 'bin_sizes': list(BIN_SIZES), 'bins_per_job': '1..bins on the longest contig',
                'max_fragment_size': [READ_LEN, 100, 1000], 'key_tags': [None, ['DA']], 'min_mq': [50],
                'full_upto': 5, 'swaps': 2, 'edge_max_fragment_size': [1000], 'edge_orders': 'submission, reversed',
                'get_binned_counts_threads': [None, 1, 4], 'conformance_threads': [3],
                'contigs': _layouts([0])}
    return {'layouts': [0, 1], 'bin_sizes': list(BIN_SIZES), 'bins_per_job': '1..bins on the longest contig',
            'max_fragment_size': [READ_LEN, 100, 1000], 'key_tags': [None, ['DA']], 'min_mq': [50, 1],
            'full_upto': 6, 'swaps': 3, 'edge_max_fragment_size': [READ_LEN, 100, 1000],
            'edge_orders': 'submission, reversed, <=1 swap', 'get_binned_counts_threads': [None, 1, 4],
            'conformance_threads': [1, 3], 'contigs': _layouts([0, 1])}


def _layouts(idx):
    from gen import c12_bam as G
    return {str(i): G.LAYOUTS[i] for i in idx}


def _nbins(layout, bin_size):
    from gen import c12_bam as G
    longest = max(l for _, l in G.LAYOUTS[layout])
    return -(-longest // bin_size)


def _all_specs():
    out = []
    for layout in (0, 1):
        for D in (READ_LEN, 100, 1000):
            for mq in (50, 1):
                for variant in ('core', 'edge'):
                    out.append((variant, D, mq, layout))
    return out


# ------------------------------------------------------------------------------------------------ setup

def _cleanup():
    global _DIR
    if _DIR and os.getpid() == _PARENT:
        shutil.rmtree(_DIR, ignore_errors=True)
        _DIR = None


def setup():
    """Build every BAM once, in the parent, before the workers fork."""
    global _DIR, _PARENT
    from singlecellmultiomics.bamProcessing import bamBinCounts as B
    for name in ('generate_jobs', 'generate_commands', 'count_fragments_binned', 'read_counts', 'obtain_counts',
                 'get_binned_counts', '_generate_count_dict', 'multiprocessing', 'pysam'):
        bind.seam(B, name)
    if _DIR is None:
        _PARENT = os.getpid()
        _DIR = tempfile.mkdtemp(prefix='c12_', dir='/dev/shm')
        atexit.register(_cleanup)
    from gen import c12_bam as G
    for spec in _all_specs():
        if spec not in _BAMS:
            path = os.path.join(_DIR, 'bam_%s_%d_%d_%d.bam' % spec)
            G.write_bam(list(spec), path)
            _BAMS[spec] = path


def _bam(spec):
    spec = tuple(spec)
    if spec not in _BAMS:
        setup()
    if spec not in _BAMS:
        raise bind.HarnessError(f'unknown BAM spec {spec!r}')
    return _BAMS[spec]


# ------------------------------------------------------------------------------------------------ shards

def shards(tier):
    b = bounds(tier)
    out = []
    for layout in b['layouts']:
        for mq in b['min_mq']:
            for bin_size in b['bin_sizes']:
                for bpj in range(1, _nbins(layout, bin_size) + 1):
                    for D in b['max_fragment_size']:
                        for kt in b['key_tags']:
                            out.append(('oc', layout, mq, bin_size, bpj, D, kt))
                for D in b['edge_max_fragment_size']:
                    out.append(('edge', layout, mq, bin_size, D))
                out.append(('gbc', layout, mq, bin_size))
            if mq == 50:                        # the default threshold of generate_commands: one BAM family only
                out.append(('defaults', layout, mq))
    out.append(('conformance',))
    out.append(('hist',))
    # biggest job sets first: better packing on the worker pool
    out.sort(key=lambda s: (0 if s[0] == 'oc' and s[4] == 1 else 1))
    return out


# ------------------------------------------------------------------------------------------------ running the real code

class _PysamShim:
    """module attribute `pysam` of bamBinCounts: AlignmentFile without htslib worker threads"""

    def __init__(self, real):
        self._real = real

    def AlignmentFile(self, *a, **k):
        k.pop('threads', None)
        return self._real.AlignmentFile(*a, **k)

    def __getattr__(self, name):
        return getattr(self._real, name)


@contextlib.contextmanager
def _scheduled(order):
    from singlecellmultiomics.bamProcessing import bamBinCounts as B
    import pysam as real_pysam
    sch = sched.Schedule(order=order, isolate=True)
    cur = bind.seam(B, 'pysam')
    if cur is not real_pysam and not isinstance(cur, _PysamShim):
        raise bind.HarnessError('seam-missing bamBinCounts.pysam is not the pysam module')
    B.pysam = _PysamShim(real_pysam)
    try:
        with sched.patched(B, sch, names=('Pool', 'multiprocessing')):
            yield sch
    finally:
        B.pysam = cur


def _run_scheduled(case):
    """-> (matrix or None, exception or None, schedule)"""
    from gen import c12_run
    path = _bam(case['bam'])
    with _scheduled(case.get('order')) as sch:
        try:
            got = c12_run.call(case, path)
            err = None
        except bind.HarnessError:
            raise
        except Exception as e:
            got, err = None, e
    return got, err, sch


def _canon_to_matrix(got, n_tags):
    """canonical rows -> ({key-without-end: {cell: n}}, [(key, why)] malformed keys)"""
    m = {}
    bad = []
    for key, row in got:
        key = tuple(key)
        if len(key) == n_tags + 3:
            short = key[:-1]
        elif len(key) == n_tags + 2:
            short = key
        else:
            bad.append((key, 'key-shape'))
            continue
        r = m.setdefault(short, {})
        for cell, n in row:
            r[cell] = r.get(cell, 0) + n
    return m, bad


_EXPECT = {}
_EXPLAIN = {}


def _expected(spec, bin_size, min_mq, key_tags):
    from oracles import c12_oracle as O
    k = (tuple(spec), bin_size, min_mq, tuple(key_tags or ()))
    if k not in _EXPECT:
        _EXPECT[k] = O.expected(_bam(spec), bin_size, min_mq, key_tags)
    return _EXPECT[k]


def _lengths(spec):
    from gen import c12_bam as G
    return dict(G.LAYOUTS[spec[3]])


def _explain(spec, bin_size, min_mq, key_tags, got_matrix):
    """Best-effort EXPLANATION of a discrepancy for the detail field: every hypothesis "all records of kind K are
    counted f times" (f in 0..3) whose what-if matrix equals the observed one (several kinds may share a
    footprint, then all are listed).  Pure recomputation with the oracle; never decides or names a violation."""
    from oracles import c12_oracle as O
    from gen import c12_bam as G
    k = (tuple(spec), bin_size, min_mq, tuple(key_tags or ()))
    if k not in _EXPLAIN:
        recs = G.records(list(spec))
        labels = {r['name']: set(r['labels']) for r in recs}
        kinds = []
        for r in recs:
            for lab in r['labels']:
                if lab not in kinds:
                    kinds.append(lab)
        hyp = []
        for lab in kinds:
            for f in (0, 1, 2, 3):
                def weight(name, q, lab=lab, f=f):
                    if lab in labels[name]:
                        return f
                    return 1 if q else 0
                m, _, _ = O.expected(_bam(spec), bin_size, min_mq, key_tags, weight=weight)
                hyp.append((lab, f, m))
        _EXPLAIN[k] = hyp
    want = _expected(spec, bin_size, min_mq, key_tags)[0]
    return [f'{lab} records counted {f}x' for lab, f, m in _EXPLAIN[k] if m != want and m == got_matrix][:6]


def _site_name(case):
    s = case['fn']
    if case.get('defaults'):
        s += ':default-options'
    return s


def judge(case, got, err):
    """Compare one observed result with the property. -> [(signature, detail)]"""
    from oracles import c12_oracle as O
    site = _site_name(case)
    if err is not None:
        return [(f'{site}:exception:{type(err).__name__}', repr(err))]
    spec = case['bam']
    bin_size = case['bin_size']
    if case.get('defaults'):
        min_mq, key_tags = 50, None          # documented defaults of generate_commands
    else:
        min_mq, key_tags = case['min_mq'], case.get('key_tags')
    n_tags = len(key_tags or ())
    out = []
    matrix, bad = _canon_to_matrix(got, n_tags)
    lengths = _lengths(spec)
    if case['fn'] == 'obtain_counts':
        for key, row in got:
            if len(key) == n_tags + 3 and not O.tiling_ok(key[-3], key[-2], key[-1], bin_size, lengths):
                bad.append((tuple(key), 'not-a-bin-of-the-tiling'))
    else:
        for key, row in got:
            if len(key) == 2 and not (key[0] in lengths and key[1] % bin_size == 0 and 0 <= key[1] < lengths[key[0]]):
                bad.append((tuple(key), 'not-a-bin-of-the-tiling'))
    if bad:
        out.append((f'{site}:count-in-unknown-bin', {'keys': bad[:5]}))
    want, total, _ = _expected(spec, bin_size, min_mq, key_tags)
    under, over = O.diff(matrix, want)
    if under or over:
        clause = 'undercount' if under and not over else 'overcount' if over and not under else 'miscount'
        out.append((f'{site}:{clause}', {'expected_total': total, 'got_total': O.total(matrix),
                          'consistent_with': _explain(spec, bin_size, min_mq, key_tags, matrix),
                          'under(key,cell,got,want)': under[:4], 'over(key,cell,got,want)': over[:4],
                          'n_under': len(under), 'n_over': len(over)}))
    return out


def _order_kind(order, n):
    if order is None or list(order) == list(range(n)):
        return 'submission'
    if list(order) == list(range(n - 1, -1, -1)):
        return 'reversed'
    return 'other'


def _split(spec, bin_size, bpj):
    """is at least one contig split into >= 2 jobs (computed from the layout, not from the code)"""
    return any(length > bin_size * bpj for length in _lengths(spec).values())


def _report(acc, case, viols, n_jobs, nontrivial, outcome):
    acc.case(case, transitions=max(n_jobs, 1), execs=1, nontrivial=nontrivial, outcome=outcome)
    for sig, d in viols:
        acc.violation(sig, case, d)


def _explore_orders(acc, base_case, tier, judge_fn, order_set=None):
    """first run in submission order (learns the number of jobs from the pool log), then every other order"""
    b = bounds(tier)
    case = dict(base_case, order=None)
    got, err, sch = _run_scheduled(case)
    n = sch.log[0]['n'] if sch.log else 0
    if sch.log and len(sch.log) != 1:
        raise bind.HarnessError(f'expected one pool call, saw {sch.log!r}')
    if sch.pools and base_case.get('threads') is not None and not base_case.get('defaults') \
            and sch.pools[0]['processes'] != base_case['threads']:
        raise bind.HarnessError(f'thread count not passed to Pool: {sch.pools!r}')
    split = _split(base_case['bam'], base_case['bin_size'], base_case.get('bins_per_job', 10 ** 9)) \
        if base_case['fn'] == 'obtain_counts' else n >= 2
    first = judge_fn(case, got, err)
    label = 'exception' if err is not None else ('violation' if first else 'ok')
    _report(acc, case, first, sch.executed, False, f'{_site_name(case)},jobs={n},order=submission,{label}')
    acc.count('job_bodies_executed', sch.executed)
    if n == 0:
        return n, got
    if order_set is None:
        all_orders = sched.orders(n, full_upto=b['full_upto'], swaps=b['swaps'])
    else:
        all_orders = order_set(n)
    for order in all_orders:
        if list(order) == list(range(n)):
            continue
        case = dict(base_case, order=list(order))
        g, e, s = _run_scheduled(case)
        v = judge_fn(case, g, e)
        if not v and err is None and e is None and g != got:
            v = [(f'{_site_name(case)}:depends-on-schedule', {'submission_order': got[:6], 'this_order': g[:6]})]
        label = 'exception' if e is not None else ('violation' if v else 'ok')
        _report(acc, case, v, s.executed, split, f'{_site_name(case)},jobs={n},order={_order_kind(order, n)},{label}')
        acc.count('job_bodies_executed', s.executed)
    return n, got


# ------------------------------------------------------------------------------------------------ histories / several BAMs
def _renamed_copy(src, dst, suffix, only=None):
    """copy of a BAM in which the cells (SM) listed in `only` (None: every cell) get a suffix: a second library whose cells
    are disjoint from / partly shared with / the same as those of the first"""
    import pysam
    with pysam.AlignmentFile(src) as f, pysam.AlignmentFile(dst, 'wb', header=f.header) as o:
        for r in f.fetch(until_eof=True):
            if r.has_tag('SM') and (only is None or r.get_tag('SM') in only):
                r.set_tag('SM', r.get_tag('SM') + suffix)
            o.write(r)
    pysam.index(dst)


def _renamed(cell, only):
    return cell + '_L2' if (only is None or cell in only) else cell


def _run_histories(acc, tier):
    """(a) the BAM at one path is replaced between counting runs of the same process (nothing remembered about a path may be
    reused); (b) two libraries with disjoint cells counted in one call (as the copy-number caller does): every bin arrives once
    per file and the cells of both must survive the merge, for every completion order"""
    from oracles import c12_oracle as O
    from gen import c12_run
    work = tempfile.mkdtemp(prefix='c12h_', dir='/dev/shm')
    try:
        specA, specB = ('core', 100, 50, 0), ('core', 100, 50, 1)
        P = os.path.join(work, 'reused.bam')
        seq = [specA, specB, specA]
        for step, spec in enumerate(seq):
            shutil.copy(_bam(spec), P)
            shutil.copy(_bam(spec) + '.bai', P + '.bai')
            for bpj in (1, 3):
                case = {'fn': 'obtain_counts', 'bam': list(spec), 'bin_size': 50, 'bins_per_job': bpj, 'min_mq': 50,
                        'max_fragment_size': 100, 'key_tags': None, 'kwargs': None, 'threads': 4, 'order': None,
                        'history': f'path-reused-step{step}'}
                with _scheduled(None) as sch:
                    try:
                        got, err = c12_run.call(case, P), None
                    except bind.HarnessError:
                        raise
                    except Exception as e:
                        got, err = None, e
                viols = [(s_.replace('obtain_counts', 'obtain_counts:bam-replaced-at-same-path', 1), d) for s_, d in judge(case, got, err)]
                _report(acc, case, viols, len(sch.log[0]['order']) if sch.log else 0, True, f'history:path-reused:step{step}')
        # (b) two libraries
        # the second library holds the same records with: every cell renamed (disjoint cells) / no cell renamed (the same cells
        # sequenced twice, e.g. two lanes) / one cell renamed (partly shared). Every record of both files counts once.
        for libkind, only in (('two-libraries', None), ('two-libraries-same-cells', ()), ('two-libraries-shared-cells', ('cellB',))):
          lib2 = os.path.join(work, f'lib2_{libkind}.bam')
          _renamed_copy(_bam(specA), lib2, '_L2', only)
          for bpj in (1, 2, 5):
            base = {'fn': 'obtain_counts', 'bam': list(specA), 'bin_size': 50, 'bins_per_job': bpj, 'min_mq': 50,
                    'max_fragment_size': 100, 'key_tags': None, 'kwargs': None, 'threads': 4, 'history': libkind}
            want1, total1, _ = _expected(specA, 50, 50, None)
            want = {k: dict(v) for k, v in want1.items()}
            for k, row in want1.items():
                for cell, n in row.items():
                    want[k][_renamed(cell, only)] = want[k].get(_renamed(cell, only), 0) + n
            n_jobs = None
            orders = [None]
            tried = 0
            while orders:
                order = orders.pop(0)
                case = dict(base, order=order)
                with _scheduled(order) as sch:
                    try:
                        got, err = c12_run.call(case, [_bam(specA), lib2]), None
                    except bind.HarnessError:
                        raise
                    except Exception as e:
                        got, err = None, e
                if n_jobs is None and sch.log:
                    n_jobs = sch.log[0]['n']
                    from mc.sched import near_orders
                    orders = [list(o) for o in near_orders(n_jobs, 1) if list(o) != list(range(n_jobs))][:12] + [list(reversed(range(n_jobs)))]
                viols = []
                if err is not None:
                    viols.append((f'obtain_counts:{libkind}:exception:{type(err).__name__}', repr(err)))
                else:
                    matrix, bad = _canon_to_matrix(got, 0)
                    under, over = O.diff(matrix, want)
                    if under or over:
                        clause = 'undercount' if under and not over else 'overcount' if over and not under else 'miscount'
                        viols.append((f'obtain_counts:{libkind}:{clause}',
                                      {'expected_total': 2 * total1, 'got_total': O.total(matrix), 'under': under[:3], 'over': over[:3]}))
                _report(acc, case, viols, n_jobs or 0, True, f'history:{libkind}:bpj={bpj}')
                tried += 1
    finally:
        shutil.rmtree(work, ignore_errors=True)


def run_shard(shard, tier, acc):
    if shard[0] == 'hist':
        _run_histories(acc, tier)
        return
    kind = shard[0]
    b = bounds(tier)
    if kind == 'oc':
        _, layout, mq, bin_size, bpj, D, kt = shard
        base = {'fn': 'obtain_counts', 'bam': ['core', D, mq, layout], 'bin_size': bin_size, 'bins_per_job': bpj,
                'max_fragment_size': D, 'key_tags': kt, 'min_mq': mq, 'kwargs': dict(KWARGS), 'threads': 4,
                'show_progress': bool(bpj % 2 == 0)}
        _explore_orders(acc, base, tier, judge)
    elif kind == 'defaults':
        _, layout, mq = shard
        for bin_size in b['bin_sizes']:
            for bpj in range(1, _nbins(layout, bin_size) + 1):
                base = {'fn': 'obtain_counts', 'defaults': True, 'bam': ['core', 1000, 50, layout],
                        'bin_size': bin_size, 'bins_per_job': bpj}
                _explore_orders(acc, base, tier, judge, order_set=lambda n: [tuple(range(n - 1, -1, -1))])
    elif kind == 'gbc':
        _, layout, mq, bin_size = shard
        for threads in b['get_binned_counts_threads']:
            base = {'fn': 'get_binned_counts', 'bam': ['core', 1000, mq, layout], 'bin_size': bin_size,
                    'min_mq': mq, 'threads': threads}
            _explore_orders(acc, base, tier, judge)
    elif kind == 'edge':
        _, layout, mq, bin_size, D = shard
        _run_edge(acc, tier, layout, mq, bin_size, D)
    elif kind == 'conformance':
        _run_conformance(acc, tier)
    else:
        raise bind.HarnessError(f'unknown shard {shard!r}')


# ------------------------------------------------------------------------------------------------ edge BAMs

def _edge_case(layout, mq, bin_size, D, bpj, order):
    return {'fn': 'obtain_counts', 'clause': 'invariance', 'bam': ['edge', D, mq, layout], 'bin_size': bin_size,
            'bins_per_job': bpj, 'max_fragment_size': D, 'key_tags': None, 'min_mq': mq, 'kwargs': dict(KWARGS),
            'threads': 4, 'order': order}


def _judge_edge(case, got, err, ref, ref_err):
    site = 'obtain_counts:site-outside-contig'
    if ref_err is not None:
        return [(f'{site}:exception:{type(ref_err).__name__}', repr(ref_err))]
    if err is not None:
        return [(f'{site}:exception:{type(err).__name__}', repr(err))]
    if got != ref:
        a = {json.dumps(k): row for k, row in ref}
        c = {json.dumps(k): row for k, row in got}
        differ = [(k, a.get(k), c.get(k)) for k in sorted(set(a) | set(c)) if a.get(k) != c.get(k)]
        same_split = case['bins_per_job'] == 1
        clause = 'depends-on-schedule' if same_split else 'depends-on-bins-per-job'
        return [(f'{site}:{clause}', {'bins(key, 1-bin-per-job, this)': differ[:4], 'n_differing_bins': len(differ)})]
    return []


def _edge_orders(tier, n):
    out = [tuple(range(n)), tuple(range(n - 1, -1, -1))]
    if tier != 'quick':
        out = sched.near_orders(n, swaps=1)
    seen, res = set(), []
    for o in out:
        if o not in seen:
            seen.add(o)
            res.append(o)
    return res


def _run_edge(acc, tier, layout, mq, bin_size, D):
    ref_case = _edge_case(layout, mq, bin_size, D, 1, None)
    ref, ref_err, sch = _run_scheduled(ref_case)
    for bpj in range(1, _nbins(layout, bin_size) + 1):
        first = _edge_case(layout, mq, bin_size, D, bpj, None)
        g0, e0, s0 = _run_scheduled(first)
        n = s0.log[0]['n'] if s0.log else 0
        for order in _edge_orders(tier, n):
            ident = list(order) == list(range(n))
            case = _edge_case(layout, mq, bin_size, D, bpj, None if ident else list(order))
            if ident:
                g, e, s = g0, e0, s0
            else:
                g, e, s = _run_scheduled(case)
            v = _judge_edge(case, g, e, ref, ref_err)
            label = 'exception' if e is not None else ('violation' if v else 'ok')
            _report(acc, case, v, s.executed, _split(case['bam'], bin_size, bpj) and not (bpj == 1 and ident),
                    f'edge,jobs={n},order={_order_kind(order, n)},{label}')
            acc.count('job_bodies_executed', s.executed)


# ------------------------------------------------------------------------------------------------ conformance (real Pool)

def _conformance_cases(tier):
    b = bounds(tier)
    out = []
    for layout in b['layouts']:
        for threads in b['conformance_threads']:
            for bin_size in b['bin_sizes']:
                out.append({'fn': 'obtain_counts', 'real_pool': True, 'bam': ['core', 100, 50, layout],
                            'bin_size': bin_size, 'bins_per_job': 1, 'max_fragment_size': 100, 'key_tags': ['DA'],
                            'min_mq': 50, 'kwargs': dict(KWARGS), 'threads': threads, 'show_progress': True})
            out.append({'fn': 'get_binned_counts', 'real_pool': True, 'bam': ['core', 1000, 50, layout],
                        'bin_size': 100, 'min_mq': 50, 'threads': threads})
    return out


def _real_pool(cases):
    """free-running: fresh interpreter, real multiprocessing.Pool, nothing patched"""
    verif = os.path.dirname(os.path.dirname(os.path.abspath(__file__)))
    jobs = [[c, _bam(c['bam'])] for c in cases]
    env = dict(os.environ, VERIF_REPO=bind.REPO, PYTHONHASHSEED='0')
    p = subprocess.run([sys.executable, '-m', 'gen.c12_run'], input=json.dumps(jobs), capture_output=True,
                       text=True, cwd=verif, env=env, timeout=600)
    if p.returncode != 0:
        raise bind.HarnessError(f'conformance runner failed: {p.stderr[-600:]}')
    res = json.loads(p.stdout)
    if len(res) != len(cases):
        raise bind.HarnessError('conformance runner returned a wrong number of results')
    return res


class _RemoteError(Exception):
    pass


def _judge_conformance(case, res):
    if 'exception' in res:
        e = type(res['exception'], (_RemoteError,), {})(res['repr'])
        return judge(case, None, e), None
    got = res['ok']
    v = judge(case, got, None)
    sgot, serr, _ = _run_scheduled(dict(case, order=None))
    if not v and (serr is not None or sgot != got):
        v = [(f'{_site_name(case)}:real-pool-differs-from-scheduled-pool',
              {'real': got[:4], 'scheduled': (sgot or [])[:4], 'scheduled_exception': repr(serr)})]
    return v, got


def _run_conformance(acc, tier):
    cases = _conformance_cases(tier)
    results = _real_pool(cases)
    for case, res in zip(cases, results):
        v, got = _judge_conformance(case, res)
        label = 'exception' if 'exception' in res else ('violation' if v else 'ok')
        _report(acc, case, v, 1, True, f'real-pool,{case["fn"]},{label}')


# ------------------------------------------------------------------------------------------------ replay

def replay(case):
    if case.get('real_pool'):
        res = _real_pool([case])[0]
        return _judge_conformance(case, res)[0]
    if case.get('clause') == 'invariance':
        spec = case['bam']
        ref_case = _edge_case(spec[3], spec[2], case['bin_size'], spec[1], 1, None)
        ref, ref_err, _ = _run_scheduled(ref_case)
        g, e, _ = _run_scheduled(case)
        return _judge_edge(case, g, e, ref, ref_err)
    g, e, _ = _run_scheduled(case)
    v = judge(case, g, e)
    if not v and case.get('order') is not None:
        g0, e0, _ = _run_scheduled(dict(case, order=None))
        if e0 is None and g0 != g:
            v = [(f'{_site_name(case)}:depends-on-schedule', {'submission_order': g0[:6], 'this_order': g[:6]})]
    return v
