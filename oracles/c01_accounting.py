"""C01 oracle: accounting of read pairs over the demultiplexed and the rejects output.

Written from the property statement only:

  each input read (pair) is written exactly once: either to the demultiplexed output or, with a rejection
  reason and its original bases and qualities, to the rejects output - never both and never neither.  The R1
  and R2 outputs stay mate-synchronised: equal record counts, input order preserved, mates on the same record
  index; the reported counters equal the number of records written.

Nothing here knows how a strategy decides; it only needs the input records, the output files, the returned
counters and the log text.  Identity of a record = the 9xxxx id token of the input header, which every header
shape carries in a field that survives re-tagging (see gen/c01_reads.py).
"""
import gzip
import os
import re

ID_RE = re.compile(r'(?<!\d)9\d{4}(?!\d)')


def read_fastq_strict(path):
    """-> (records [(header, seq, plus, qual)], problem or None).  Strict: valid gzip, every line newline
    terminated, 4 lines per record, '@' / '+' markers, len(seq) == len(qual)."""
    try:
        with gzip.open(path, 'rb') as f:
            raw = f.read()
    except Exception as e:       # truncated / invalid gzip
        return [], f'unreadable gzip ({type(e).__name__})'
    try:
        text = raw.decode('ascii')
    except UnicodeDecodeError:
        return [], 'non-ascii bytes'
    if text == '':
        return [], None
    problem = None
    if not text.endswith('\n'):
        problem = 'last record is not newline terminated'
        lines = text.split('\n')
    else:
        lines = text[:-1].split('\n')
    if len(lines) % 4 != 0 and problem is None:
        problem = f'{len(lines)} lines is not a multiple of 4'
    recs = []
    for i in range(0, len(lines) - len(lines) % 4, 4):
        h, s, p, q = lines[i:i + 4]
        if not h.startswith('@'):
            problem = problem or f'record {i // 4}: header line does not start with @: {h[:60]!r}'
        if not p.startswith('+'):
            problem = problem or f'record {i // 4}: third line does not start with +: {p[:60]!r}'
        if len(s) != len(q):
            problem = problem or f'record {i // 4}: {len(s)} bases but {len(q)} qualities'
        recs.append((h, s, p, q))
    return recs, problem


def ident(header):
    """the id token of a record header, or None when there is none / more than one distinct"""
    found = set(ID_RE.findall(header))
    if len(found) != 1:
        return None
    return int(next(iter(found)))


def has_reason(header):
    """a rejected record must carry a rejection reason: an RR tag among the ';' separated header fields"""
    for field in header.lstrip('@').split(';'):
        if field.startswith('RR:'):
            return True
    return False


class Outputs:
    """what one loader run left on disk, parsed"""

    def __init__(self):
        self.dem = {}       # cell key (None for joint) -> {'R1': [records], 'R2': [records]}
        self.rej = None     # {'R1': [...], 'R2': [...]} or None when no reject handle was given
        self.problems = []  # (which, text)


def collect(prefix_dem, prefix_rej, paired, percell, rejects):
    out = Outputs()
    mates = ('R1', 'R2') if paired else ('R1',)
    d = os.path.dirname(prefix_dem)
    base = os.path.basename(prefix_dem)
    if percell:
        pat = re.compile(re.escape(base) + r'\.(.*)\.(R[12])\.fastq\.gz$')
        for fn in sorted(os.listdir(d)):
            m = pat.match(fn)
            if not m:
                continue
            cell, mate = m.group(1), m.group(2)
            recs, prob = read_fastq_strict(os.path.join(d, fn))
            if prob:
                out.problems.append(('demultiplexed', f'{fn[len(base):]}: {prob}'))
            out.dem.setdefault(cell, {})[mate] = recs
    else:
        out.dem[None] = {}
        for mate in mates:
            p = f'{prefix_dem}{mate}.fastq.gz'
            if not os.path.exists(p):
                out.problems.append(('demultiplexed', f'{mate} file missing'))
                out.dem[None][mate] = []
                continue
            recs, prob = read_fastq_strict(p)
            if prob:
                out.problems.append(('demultiplexed', f'{mate}: {prob}'))
            out.dem[None][mate] = recs
        unexpected = [fn for fn in os.listdir(d) if fn.startswith(base) and fn.endswith('.gz')
                      and fn not in {f'{base}{m}.fastq.gz' for m in mates}]
        if unexpected:
            out.problems.append(('demultiplexed', f'unexpected files {sorted(unexpected)}'))
    if rejects:
        out.rej = {}
        for mate in mates:
            p = f'{prefix_rej}{mate}.fastq.gz'
            if not os.path.exists(p):
                out.problems.append(('rejects', f'{mate} file missing'))
                out.rej[mate] = []
                continue
            recs, prob = read_fastq_strict(p)
            if prob:
                out.problems.append(('rejects', f'{mate}: {prob}'))
            out.rej[mate] = recs
    return out


def _ids(records):
    return [ident(r[0]) for r in records]


def parse_log(text):
    """-> (processed or None, {strategy: reads}) from the loader's log block"""
    processed = None
    yields = {}
    lines = text.split('\n')
    in_table = False
    for line in lines:
        m = re.match(r'processed (\d+) read pairs$', line)
        if m:
            processed = int(m.group(1))
            continue
        if line == 'Strategy\tReads':
            in_table = True
            continue
        if in_table:
            parts = line.split('\t')
            if len(parts) == 2 and parts[1].isdigit():
                yields[parts[0]] = int(parts[1])
            else:
                in_table = False
    return processed, yields


def check(inputs, paired, percell, rejects, max_pairs, short, processed, yields, log_text, out):
    """Compare one finished loader run with the property.

    inputs: [((h1,s1,q1),(h2,s2,q2))] in input order (second mate ignored when not paired);
    -> (violations [(clause, offending input position or None, detail)], fates [one char per input pair])
    """
    v = []
    n = len(inputs)
    expect_processed = n if max_pairs is None else min(n, max_pairs)
    mates = ('R1', 'R2') if paired else ('R1',)
    id_to_pos = {}
    for k, pr in enumerate(inputs):
        i = ident(pr[0][0])
        id_to_pos[i] = k

    for which, text in out.problems:
        v.append((f'{which}-file-malformed', None, text))
    # records of a file that does not parse cannot be trusted: report the malformation only for that side
    dem_ok = not any(which == 'demultiplexed' for which, _ in out.problems)
    rej_ok = not any(which == 'rejects' for which, _ in out.problems)

    # ---- demultiplexed side: mate synchronisation and order per output unit (joint file pair / cell)
    dem_count = [0] * n
    dem_total = 0
    for cell, files in sorted(out.dem.items(), key=lambda kv: str(kv[0])):
        if not dem_ok:
            break
        r1 = files.get('R1', [])
        ids1 = _ids(r1)
        if None in ids1:
            v.append(('demultiplexed-record-unidentifiable', None, {'cell': cell, 'headers': [r[0] for r in r1][:3]}))
        if paired:
            ids2 = _ids(files.get('R2', []))
            if len(ids1) != len(ids2):
                v.append(('demultiplexed-mates-desynchronised', None,
                          {'cell': cell, 'R1_records': len(ids1), 'R2_records': len(ids2)}))
            elif ids1 != ids2:
                v.append(('demultiplexed-mates-desynchronised', None, {'cell': cell, 'R1_ids': ids1[:6], 'R2_ids': ids2[:6]}))
        elif 'R2' in files and files['R2']:
            v.append(('demultiplexed-mates-desynchronised', None, {'cell': cell, 'why': 'R2 records for single end input'}))
        known = [i for i in ids1 if i in id_to_pos]
        if len(known) != len([i for i in ids1 if i is not None]):
            v.append(('demultiplexed-record-unidentifiable', None, {'cell': cell, 'ids': ids1[:6]}))
        pos = [id_to_pos[i] for i in known]
        if any(b < a for a, b in zip(pos, pos[1:])):
            v.append(('demultiplexed-order-changed', None, {'cell': cell, 'positions': pos[:8]}))
        for p in pos:
            dem_count[p] += 1
        dem_total += len(ids1)
        # a record of the R1 file has to be the R1 mate (and R2 the R2 mate)
        if paired:
            for mi, mate in enumerate(mates):
                for rec in files.get(mate, []):
                    i = ident(rec[0])
                    if i not in id_to_pos or not rec[1]:
                        continue
                    own = inputs[id_to_pos[i]][mi][1]
                    other = inputs[id_to_pos[i]][1 - mi][1]
                    if rec[1] not in own and rec[1] in other:
                        v.append(('demultiplexed-mate-in-wrong-file', id_to_pos[i], {'file': mate, 'record': rec[:2]}))

    # ---- rejects side
    rej_count = [0] * n
    if out.rej is not None and rej_ok:
        r1 = out.rej.get('R1', [])
        ids1 = _ids(r1)
        if paired:
            ids2 = _ids(out.rej.get('R2', []))
            if len(ids1) != len(ids2):
                v.append(('rejects-mates-desynchronised', None, {'R1_records': len(ids1), 'R2_records': len(ids2)}))
            elif ids1 != ids2:
                v.append(('rejects-mates-desynchronised', None, {'R1_ids': ids1[:6], 'R2_ids': ids2[:6]}))
        known = [i for i in ids1 if i in id_to_pos]
        if len(known) != len(ids1):
            v.append(('rejects-record-unidentifiable', None, {'headers': [r[0] for r in r1][:3]}))
        pos = [id_to_pos[i] for i in known]
        if any(b < a for a, b in zip(pos, pos[1:])):
            v.append(('rejects-order-changed', None, {'positions': pos[:8]}))
        for p in pos:
            rej_count[p] += 1
        for mi, mate in enumerate(mates):
            for rec in out.rej.get(mate, []):
                i = ident(rec[0])
                if i not in id_to_pos:
                    continue
                k = id_to_pos[i]
                _, s, q = inputs[k][mi]
                if rec[1] != s or rec[3] != q:
                    v.append(('reject-bases-or-qualities-altered', k,
                              {'file': mate, 'written': [rec[1], rec[3]], 'input': [s, q]}))
                if not has_reason(rec[0]):
                    v.append(('reject-without-reason', k, {'file': mate, 'header': rec[0]}))

    # ---- every consumed pair exactly once, nothing beyond the cut-off
    fates = []
    for k in range(n):
        d, r = dem_count[k], rej_count[k]
        if not (dem_ok and rej_ok):
            fates.append('m')
            continue
        if k >= expect_processed:
            if d or r:
                v.append(('pair-beyond-maxReadPairs-written', k, {'demultiplexed': d, 'rejects': r}))
            fates.append('.')
            continue
        if d and r:
            v.append(('pair-both-demultiplexed-and-rejected', k, {'demultiplexed': d, 'rejects': r}))
            fates.append('B')
        elif d > 1 or r > 1:
            v.append(('pair-written-more-than-once', k, {'demultiplexed': d, 'rejects': r}))
            fates.append('D')
        elif d == 1:
            fates.append('A')
        elif r == 1:
            fates.append('R')
        else:
            if out.rej is not None:
                v.append(('pair-vanished', k, {'header': inputs[k][0][0]}))
                fates.append('-')
            else:
                fates.append('?')     # without a reject handle a missing pair cannot be told from a rejected one

    # ---- counters
    if processed != expect_processed:
        v.append(('processedReadPairs-wrong', None, {'returned': processed, 'expected': expect_processed}))
    y = dict(yields)
    got = y.pop(short, 0)
    if dem_ok and got != dem_total:
        v.append(('yield-counter-differs-from-records-written', None,
                  {'strategyYields': got, 'records_in_demultiplexed_R1': dem_total}))
    if any(y.values()):
        v.append(('yield-counter-for-unselected-strategy', None, y))
    lp, ly = parse_log(log_text)
    if lp != processed or ly.get(short, 0) != got:
        v.append(('log-counters-differ-from-returned', None, {'log_processed': lp, 'log_yields': ly,
                                                               'returned': [processed, dict(yields)]}))
    return v, fates


# ------------------------------------------------------------------------------------------------ extensions
def parse_cli_log(text):
    """demultiplexing.log as demux.py writes it for a library: one run per "Demultiplexing operation started" line
    (several when the logs of lane jobs were glued), in every run one loader block per set of mate files.
    -> [{'blocks': [(processed, {strategy: reads})], 'cumulative': [n after every block], 'finished': bool}]"""
    runs = []
    run = None
    cur = None
    in_table = False
    for line in text.split('\n'):
        if line.startswith('Demultiplexing operation started'):
            run = {'blocks': [], 'cumulative': [], 'finished': False}
            runs.append(run)
            cur, in_table = None, False
            continue
        if run is None:
            continue
        m = re.match(r'processed (\d+) read pairs$', line)
        if m:
            cur = (int(m.group(1)), {})
            run['blocks'].append(cur)
            in_table = False
            continue
        if line == 'Strategy\tReads':
            in_table = True
            continue
        if in_table:
            parts = line.split('\t')
            if len(parts) == 2 and parts[1].isdigit() and cur is not None:
                cur[1][parts[0]] = cur[1].get(parts[0], 0) + int(parts[1])
                continue
            in_table = False
        m = re.match(r'done, processed:\t(\d+) reads$', line)
        if m:
            run['cumulative'].append(int(m.group(1)))
        if line == 'Demultiplexing finished':
            run['finished'] = True
    return runs


def check_multi(inputs, paired, percell, rejects, max_pairs, shorts, processed, yields, log_text, out):
    """Several strategies selected for one run (demux.py -use A,B).

    The property sentence is phrased per selected strategy.  With k strategies it can be read as "every pair once per
    run" or as "every pair once per strategy"; only what BOTH readings demand is checked here:
    every consumed pair is written at least once and at most k times over both sinks together, nothing beyond the
    cut-off, mates synchronised (same ids on the same record index), input order kept (ids never decrease), rejected
    records carry a reason and the original bases / qualities, processedReadPairs = pairs consumed, the yield counters
    add up to the records written to the demultiplexed output and name selected strategies only, log = returned.
    -> (violations [(clause, position or None, detail)], fates)"""
    v = []
    n = len(inputs)
    k = len(shorts)
    expect_processed = n if max_pairs is None else min(n, max_pairs)
    mates = ('R1', 'R2') if paired else ('R1',)
    id_to_pos = {ident(pr[0][0]): i for i, pr in enumerate(inputs)}
    for which, text in out.problems:
        v.append((f'{which}-file-malformed', None, text))
    dem_ok = not any(which == 'demultiplexed' for which, _ in out.problems)
    rej_ok = not any(which == 'rejects' for which, _ in out.problems)

    def side(name, files, count, cell=None):
        r1 = files.get('R1', [])
        ids1 = _ids(r1)
        if paired:
            ids2 = _ids(files.get('R2', []))
            if len(ids1) != len(ids2):
                v.append((f'{name}-mates-desynchronised', None, {'cell': cell, 'R1_records': len(ids1), 'R2_records': len(ids2)}))
            elif ids1 != ids2:
                v.append((f'{name}-mates-desynchronised', None, {'cell': cell, 'R1_ids': ids1[:6], 'R2_ids': ids2[:6]}))
        elif files.get('R2'):
            v.append((f'{name}-mates-desynchronised', None, {'cell': cell, 'why': 'R2 records for single end input'}))
        known = [i for i in ids1 if i in id_to_pos]
        if len(known) != len(ids1):
            v.append((f'{name}-record-unidentifiable', None, {'cell': cell, 'headers': [r[0] for r in r1][:3]}))
        pos = [id_to_pos[i] for i in known]
        if any(b < a for a, b in zip(pos, pos[1:])):
            v.append((f'{name}-order-changed', None, {'cell': cell, 'positions': pos[:8]}))
        for p in pos:
            count[p] += 1
        return len(ids1)

    dem_count, rej_count = [0] * n, [0] * n
    dem_total = 0
    if dem_ok:
        for cell, files in sorted(out.dem.items(), key=lambda kv: str(kv[0])):
            dem_total += side('demultiplexed', files, dem_count, cell)
            if paired:
                for mi, mate in enumerate(mates):
                    for rec in files.get(mate, []):
                        i = ident(rec[0])
                        if i not in id_to_pos or not rec[1]:
                            continue
                        own, other = inputs[id_to_pos[i]][mi][1], inputs[id_to_pos[i]][1 - mi][1]
                        if rec[1] not in own and rec[1] in other:
                            v.append(('demultiplexed-mate-in-wrong-file', id_to_pos[i], {'file': mate, 'record': rec[:2]}))
    if out.rej is not None and rej_ok:
        side('rejects', out.rej, rej_count)
        for mi, mate in enumerate(mates):
            for rec in out.rej.get(mate, []):
                i = ident(rec[0])
                if i not in id_to_pos:
                    continue
                pos = id_to_pos[i]
                _, s, q = inputs[pos][mi]
                if rec[1] != s or rec[3] != q:
                    v.append(('reject-bases-or-qualities-altered', pos, {'file': mate, 'written': [rec[1], rec[3]], 'input': [s, q]}))
                if not has_reason(rec[0]):
                    v.append(('reject-without-reason', pos, {'file': mate, 'header': rec[0]}))
    fates = []
    for i in range(n):
        d, r = dem_count[i], rej_count[i]
        if not (dem_ok and rej_ok):
            fates.append('m')
        elif i >= expect_processed:
            if d or r:
                v.append(('pair-beyond-maxReadPairs-written', i, {'demultiplexed': d, 'rejects': r}))
            fates.append('.')
        elif d + r > k:
            v.append(('pair-written-more-often-than-strategies-selected', i, {'demultiplexed': d, 'rejects': r, 'strategies': k}))
            fates.append('D')
        elif d + r == 0:
            if out.rej is not None:
                v.append(('pair-vanished', i, {'header': inputs[i][0][0]}))
                fates.append('-')
            else:
                fates.append('?')
        else:
            fates.append('B' if d and r else ('A' if d else 'R'))
    if processed != expect_processed:
        v.append(('processedReadPairs-wrong', None, {'returned': processed, 'expected': expect_processed}))
    y = dict(yields)
    got = sum(y.pop(s, 0) for s in shorts)
    if dem_ok and got != dem_total:
        v.append(('yield-counter-differs-from-records-written', None,
                  {'strategyYields': dict(yields), 'records_in_demultiplexed_R1': dem_total}))
    if any(y.values()):
        v.append(('yield-counter-for-unselected-strategy', None, y))
    # per strategy: every demultiplexed record names the strategy that produced it (MX tag = short name, "put into
    # EVERY fastq record"); when all records of the run are attributable to a selected strategy the single counters
    # can be compared as well
    if dem_ok and k > 1:
        by_mx = {}
        for files in out.dem.values():
            for rec in files.get('R1', []):
                mx = [f[3:] for f in rec[0].lstrip('@').split(';') if f.startswith('MX:')]
                by_mx[mx[0] if len(mx) == 1 else None] = by_mx.get(mx[0] if len(mx) == 1 else None, 0) + 1
        if all(m in shorts for m in by_mx):
            for s_ in shorts:
                if dict(yields).get(s_, 0) != by_mx.get(s_, 0):
                    v.append(('yield-counter-of-one-strategy-differs-from-its-records', None,
                              {'strategyYields': dict(yields), 'records_by_MX_tag': by_mx}))
                    break
    if log_text is not None:
        lp, ly = parse_log(log_text)
        if lp != processed or {s: c for s, c in ly.items() if c} != {s: c for s, c in dict(yields).items() if c}:
            v.append(('log-counters-differ-from-returned', None, {'log_processed': lp, 'log_yields': ly,
                                                                   'returned': [processed, dict(yields)]}))
    return v, fates
