#!/bin/bash
# usage: tools/run_all.sh [quick|thorough] [seed]   -> one summary line per property
cd "$(dirname "$0")/.." || exit 2
TIER=${1:-quick}; SEED=${2:-0}
rc=0
for id in $(/venv/bin/python -c "import json;print(' '.join(c['property_id'] for c in json.load(open('MANIFEST.json'))['checks']))"); do
  s=$(date +%s)
  out=$(VERIF_SEED=$SEED ./check $id --tier $TIER 2>&1); code=$?
  e=$(date +%s)
  echo "$id exit=$code $((e-s))s $(echo "$out" | grep -E "^$id tier=" | sed 's/.*states=/states=/')"
  if [ $code -ne 0 ]; then rc=1; echo "$out" | grep -E "VIOLATION|ERROR|signature=" | head -5; fi
done
exit $rc
