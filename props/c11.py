"""C11 - count tables count exactly the reads passing the filters, at documented weights.

Level 1 (read)   bamToCountTable.assignReads on ONE in-memory pysam read and a fresh count table:
                 every read differing from a plain good read in <= 2 attributes (gen/c11_reads.py: mate role /
                 unpaired, qcfail, duplicate, RR, MAPQ 0/29/30/60, proper bit, mate unmapped, unmapped, CIGAR I/D/S,
                 NM 0/1/2/absent, XA non-alt / alt-only / mixed, NH, mp, SM, feature value, by-value value, contig,
                 position in/out of the blacklist)  x  option sets (11 booleans incl. blacklist x minMQ {0,30} x
                 max_base_edits {None,1} x feature mode {joined, single tags, joined+byValue}).
                 quick: option sets within distance <= 3 of the default; thorough: ALL 24576.
Level 2 (table)  create_count_table(args, return_df=True) on a BAM holding all these reads (synthesised with pysam
                 under /dev/shm, sorted + indexed) x option sets within distance <= 2 (quick) / <= 3 (thorough)
                 x -contig {none, chr1, chr2} x -bedfile {none, 3 regions} (joined mode); blacklist from a BED file.
                 Sample tags 'SM,ri' (ri = unique read id) give every read its own column, so the table is compared
                 read by read; additionally 'SM' alone (reads pooled per sample) for option sets within distance 1.

Oracle: oracles/c11_oracle.py - an independent recomputation from the property text and the CLI help strings on the
abstract read descriptions.  Where the documentation is silent/ambiguous the case is executed (exceptions still count)
but its result is not compared (outcome label 'ambiguous').
"""
import collections
import os
import shutil
import tempfile

ID = 'C11'
DESIGN_REF = 'DESIGN.md section 3, C11'
RULE = ('level 1: exhaustive product (reads within 2 attribute changes of a plain good read) x (option sets within the '
        'stated distance of the default; thorough = all) through assignReads, one state per (read, option set); '
        'non-trivial when at least one selected option or changed attribute bears on the verdict, i.e. the read is '
        'excluded by a selected filter, its weight differs from the default 0.5 or it feeds more than one cell; level 2: one table per (option set, '
        '-contig, -bedfile, sample tags) through create_count_table on the BAM of all reads, compared cell by cell '
        '(per read with sample tags SM,ri), non-trivial always (the BAM holds counted, filtered and re-weighted reads); '
        'ambiguous (undocumented) cases are executed but not compared and are never counted as non-trivial')
ASSUMPTIONS = [
    'XA tags are in bwa format (one "chr,pos,CIGAR,NM;" entry per alternative hit, trailing semicolon); the number of '
    'reported hits is the number of XA entries + 1, or NH',
    'every read carries SM, the feature tag (XT) and the by-value tag (RC); feature values contain no delimiter',
    'reads lie fully inside or fully outside blacklist / BED regions; BED regions are disjoint',
    'undocumented interactions are not judged: unpaired read with --r1only/--r2only, missing NM with -max_base_edits, '
    'missing/other mp with --filterMP, XA and NH disagreeing, -byValue with a divided weight (value or value x weight '
    'accepted), -byValue / single feature tags together with -bedfile (not generated)',
    'level 1 calls assignReads the way create_count_table does (feature tag list with the by-value tag appended)',
    'the per-read sample tag pair SM,ri is a device of this check, not part of the quantified space: those tables are '
    'requested with --noNames (naming the two column levels of an EMPTY result raises ValueError in pandas, which is '
    'outside this property); the pooled SM tables keep the default naming',
]

TOL = 1e-9


def bounds(tier):
    from gen import c11_reads as R
    b = {'read_attribute_changes': 2, 'attributes': {a: v for a, v in R.ALTS}, 'options': {d: v for d, v in R.DIMS},
         'contig_selection': [None, 'chr1', 'chr2'], 'bed_regions': R.BED, 'blacklist': R.BLACKLIST,
         'level2_sample_tags': ['SM,ri', 'SM (distance<=1)']}
    if tier == 'quick':
        b.update({'level1_option_distance': 3, 'level2_option_distance': 2})
    else:
        b.update({'level1_option_distance': 'all', 'level2_option_distance': 3})
    return b


N_TABLE_SHARDS = 32


def shards(tier):
    from gen import c11_reads as R
    import itertools
    out = []
    for combo in itertools.product([False, True], repeat=len(R.SHARD_DIMS)):
        out.append(('read', combo))
    for i in range(N_TABLE_SHARDS):
        out.append(('table', i))
    return out


# ------------------------------------------------------------------------------------------------ comparison

def _ok(value, acceptable):
    return any(abs(value - a) <= TOL for a in acceptable)


def classify(site, rd, opt, blacklist_idx, got, exp, excluded_by=None):
    """got {(sample,key): value}, exp {(sample,key): set(acceptable)} of ONE read -> [(signature, detail)]"""
    from oracles import c11_oracle as O
    got = {k: v for k, v in got.items() if abs(v) > TOL}
    if not exp and not got:
        return []
    detail = {'read': rd, 'got': sorted(([list(k[0]), list(k[1]), v] for k, v in got.items()), key=repr),
              'expected': sorted(([list(k[0]), list(k[1]), sorted(v)] for k, v in exp.items()), key=repr)}
    if not exp:
        why = list(excluded_by or []) + O.why_not(rd, opt, blacklist_idx)
        return [(f'{site}:counted-read-excluded-by:{why[0] if why else "unknown"}', detail)]
    if not got:
        return [(f'{site}:dropped-read-passing-all-filters', detail)]
    if set(got) != set(exp):
        return [(f'{site}:wrong-sample-or-feature-key', detail)]
    for k in exp:
        if not _ok(got[k], exp[k]):
            if opt['features'] == 'joined+byValue':
                cls = 'byValue'
            elif opt['divideMultimapping'] and (rd['XA'] is not None or rd['NH'] is not None):
                cls = 'multimapping-division'
            else:
                cls = 'fragment-division'
            return [(f'{site}:wrong-weight:{cls}', detail)]
    return []


def _nontrivial(rd, opt, exp):
    if exp == {}:
        return True
    return any(v != {0.5} for v in exp.values()) or len(exp) > 1


def _outcome(exp):
    from oracles import c11_oracle as O
    if exp == O.AMBIGUOUS:
        return 'ambiguous'
    if not exp:
        return 'excluded'
    v = sorted(next(iter(exp.values())))
    return f'counted:w={"|".join(f"{x:.4g}" for x in v)}:cells={len(exp)}'


# ------------------------------------------------------------------------------------------------ level 1

def _level1_setup():
    from gen import c10_counttable as G
    from gen import c11_reads as R
    hdr = G.header(R.CONTIGS)
    reads = R.all_reads(2)
    return hdr, reads, [R.to_pysam(rd, hdr) for rd in reads]


def _feature_lists(opt):
    """what create_count_table hands to assignReads for the three feature modes (joinFeatures, featureTags)"""
    if opt['features'] == 'single':
        return False, ['XT', 'chrom']
    if opt['features'] == 'joined':
        return True, ['XT', 'chrom']
    return True, ['XT', 'chrom', 'RC']


def check_read(rd, pr, opt, args=None):
    from gen import c10_counttable as G
    from gen import c11_reads as R
    from oracles import c11_oracle as O
    from singlecellmultiomics.bamProcessing import bamToCountTable as T
    if args is None:
        args = R.make_args(opt)
    join, feats = _feature_lists(opt)
    bl_real = R.BLACKLIST if opt['blacklist'] else None
    bl_idx = R.BLACKLIST_IDX if opt['blacklist'] else None
    exp = O.expected_read(rd, opt, R.CONTIG_NAMES, bl_idx)
    ct = collections.defaultdict(collections.Counter)
    try:
        T.assignReads(pr, ct, args, join, list(feats), ['SM'], blacklist_dic=bl_real)
    except Exception as ex:
        return [(f'assignReads:exception:{type(ex).__name__}', {'read': rd, 'error': repr(ex)})], exp
    if exp == O.AMBIGUOUS:
        return [], exp
    return classify('assignReads', rd, opt, bl_idx, G.counter_to_dict(ct), exp), exp


# ------------------------------------------------------------------------------------------------ level 2

class Files:
    """BAMs (full / without unmapped reads / only never-ambiguous reads), BED and blacklist files in one temp dir"""

    def __init__(self):
        from gen import c10_counttable as G
        from gen import c11_reads as R
        self.dir = tempfile.mkdtemp(prefix='c11_', dir='/dev/shm')
        hdr = G.header(R.CONTIGS)
        self.reads = R.all_reads(2)
        self.by_ri = {rd['ri']: rd for rd in self.reads}
        self.sets = {
            'full': self.reads,
            'mapped': [rd for rd in self.reads if not rd['unmapped']],
            'clean': [rd for rd in self.reads if R.never_ambiguous(rd)],
        }
        self.bam = {}
        for name, rds in self.sets.items():
            self.bam[name] = G.write_bam(os.path.join(self.dir, f'{name}.bam'), hdr, [R.to_pysam(rd, hdr) for rd in rds])
        self.bed = os.path.join(self.dir, 'regions.bed')
        with open(self.bed, 'w') as f:
            for c, s, e, n in R.BED:
                f.write(f'{c}\t{s}\t{e}\t{n}\n')
        self.blacklist = os.path.join(self.dir, 'blacklist.bed')
        with open(self.blacklist, 'w') as f:
            for c, ivs in R.BLACKLIST.items():
                for s, e in ivs:
                    f.write(f'{c}\t{s}\t{e}\n')

    def close(self):
        shutil.rmtree(self.dir, ignore_errors=True)


def table_configs(max_distance):
    """[(opt, contig, bed, sample_tags)] - the level-2 space, deterministic order"""
    from gen import c11_reads as R
    out = []
    for opt in R.option_sets(max_distance):
        d = R.distance(opt)
        for contig in (None, 'chr1', 'chr2'):
            for bed in (False, True):
                if bed and opt['features'] != 'joined':
                    continue
                out.append((opt, contig, bed, 'SM,ri'))
                if d <= 1:
                    out.append((opt, contig, bed, 'SM'))
    return out


def _run_table(files, which, opt, contig, bed, sample_tags):
    from gen import c10_counttable as G
    from gen import c11_reads as R
    args = R.make_args(opt, alignmentfiles=[files.bam[which]], contig=contig, bedfile=(files.bed if bed else None),
                       blacklist=(files.blacklist if opt['blacklist'] else None), sampleTags=sample_tags,
                       noNames=(sample_tags != 'SM'))
    return G.table_to_dict(G.run_table(args))


def check_table(files, opt, contig, bed, sample_tags):
    from gen import c11_reads as R
    from oracles import c11_oracle as O
    out = []
    which = 'full' if sample_tags == 'SM,ri' else 'clean'
    stags = tuple(sample_tags.split(','))
    try:
        got = _run_table(files, which, opt, contig, bed, sample_tags)
    except Exception as ex:
        out.append((f'create_count_table:exception:{type(ex).__name__}', {'error': repr(ex), 'bam': which}))
        if which != 'full':
            return out, 0, 0
        which = 'mapped'      # keep judging the rest of the table: same reads minus the unmapped ones
        try:
            got = _run_table(files, which, opt, contig, bed, sample_tags)
        except Exception as ex2:
            out.append((f'create_count_table:exception:{type(ex2).__name__}', {'error': repr(ex2), 'bam': which}))
            return out, 0, 0
    reads = files.sets[which]
    bl_idx = R.BLACKLIST_IDX if opt['blacklist'] else None
    exp, amb = O.expected_table(reads, opt, R.CONTIG_NAMES, bl_idx, stags, contig=contig,
                                bed=(R.BED if bed else None))
    compared = 0
    if sample_tags == 'SM,ri':
        got_by, exp_by = collections.defaultdict(dict), collections.defaultdict(dict)
        for (sm, k), v in got.items():
            got_by[sm][(sm, k)] = v
        for (sm, k), v in exp.items():
            exp_by[sm][(sm, k)] = v
        known = set()
        for rd in reads:
            sm = (rd['SM'], rd['ri'])
            known.add(sm)
            if sm in amb:
                continue
            compared += 1
            excl = []
            cname = R.CONTIG_NAMES[rd['contig']]
            if contig is not None and cname != contig:
                excl.append('contig-selection')
            elif bed and not any(c == cname and s <= rd['pos'] and rd['pos'] + 1 <= e for c, s, e, _ in R.BED):
                excl.append('bed-region')
            out.extend(classify('create_count_table', rd, opt, bl_idx, got_by.get(sm, {}), exp_by.get(sm, {}), excl))
        stray = sorted(set(got_by) - known, key=repr)
        if stray:
            out.append(('create_count_table:column-of-no-read', {'columns': [list(s) for s in stray][:5]}))
    else:
        assert not amb
        for cell in sorted(set(got) | set(exp), key=repr):
            compared += 1
            if not _ok(got.get(cell, 0.0), exp.get(cell, {0.0})):
                out.append(('create_count_table:pooled-samples:cell-total-differs',
                            {'cell': [list(cell[0]), list(cell[1])], 'got': got.get(cell, 0.0),
                             'expected': sorted(exp.get(cell, {0.0}))[:6]}))
                break
    seen, dedup = set(), []
    for sig, d in out:
        if sig not in seen:
            seen.add(sig)
            dedup.append((sig, d))
    return dedup, compared, len(amb)


# ------------------------------------------------------------------------------------------------ engine hooks

def _d2(tier):
    return 2 if tier == 'quick' else 3


def run_shard(shard, tier, acc):
    from gen import c11_reads as R
    from oracles import c11_oracle as O
    if shard[0] == 'read':
        fixed = dict(zip(R.SHARD_DIMS, shard[1]))
        maxd = 3 if tier == 'quick' else len(R.DIMS)
        hdr, reads, pys = _level1_setup()
        for opt in R.option_sets(maxd, fixed):
            args = R.make_args(opt)
            for i, (rd, pr) in enumerate(zip(reads, pys)):
                viols, exp = check_read(rd, pr, opt, args)
                case = {'level': 'read', 'read_index': i, 'opt': opt}
                amb = exp == O.AMBIGUOUS
                acc.case(case, nontrivial=(not amb and _nontrivial(rd, opt, exp)), outcome=_outcome(exp))
                for sig, d in viols:
                    acc.violation(sig, case, d)
    elif shard[0] == 'table':
        cfgs = table_configs(_d2(tier))
        mine = [c for j, c in enumerate(cfgs) if j % N_TABLE_SHARDS == shard[1]]
        if not mine:
            return
        files = Files()
        try:
            for opt, contig, bed, stags in mine:
                viols, compared, namb = check_table(files, opt, contig, bed, stags)
                case = {'level': 'table', 'opt': opt, 'contig': contig, 'bed': bed, 'sampleTags': stags}
                acc.case(case, transitions=len(files.reads), nontrivial=True,
                         outcome=f'table:{stags}:contig={contig}:bed={bed}:{opt["features"]}')
                acc.count('table_reads_compared', compared)
                acc.count('table_reads_ambiguous_not_compared', namb)
                for sig, d in viols:
                    acc.violation(sig, case, d)
        finally:
            files.close()
    else:
        raise ValueError(shard)


def replay(case):
    if case['level'] == 'read':
        hdr, reads, pys = _level1_setup()
        i = case['read_index']
        return check_read(reads[i], pys[i], case['opt'])[0]
    files = Files()
    try:
        return check_table(files, case['opt'], case['contig'], case['bed'], case['sampleTags'])[0]
    finally:
        files.close()
