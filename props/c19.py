"""C19 - per-cell file splitting loses no record under handle limits and open failures.

Fault enumeration on the real HandleLimiter / FastqHandle(single_cell=True): the module's gzip.open,
open and clock are replaced by an in-memory store with a descriptor budget (real GzipFile objects
over per-path buffers).  EVERY write sequence up to the bound x every limiter setting x every fault
plan: EMFILE budgets, every placement of <=2 transient open failures (deviation bound 2, placements
discovered from the execution itself), permanent failure of one path.
"""
import errno
import itertools

from mc.faults import MemStore, LogicalClock, gunzip_all_members

ID = 'C19'
RULE = ('all words over P paths up to length n x maxHandles x pruneEvery x fault plan (none; EMFILE (also ENFILE) when >=k descriptors open, '
        'k=1..3; every set of <=2 failing open() calls; one permanently failing path; the same with stale files of an earlier run at '
        'the paths and after an earlier writer object of the same process); both methods (gzip / plain); '
        'non-trivial = an injected failure was hit while >=1 other descriptor was open; states = distinct executions')
ASSUMPTIONS = [
    'the operating system is represented by an in-memory store: open fails only as injected; writes and closes never fail',
    'after a legitimately raised write() the run stops (callers abort); everything acknowledged before must be intact',
    'a raise is legitimate only if the last failed open happened while no other descriptor was open',
]


def bounds(tier):
    if tier == 'quick':
        return {'paths': 3, 'max_len': 7, 'maxHandles': [1, 2, 3, 4], 'pruneEvery': [1, 2, 3, 4, 10000], 'emfile_k': [1, 2, 3],
                'transient_failures': 2, 'methods': ['gzip for all', 'plain for len<=4'], 'sweep_paths': 200}
    return {'paths': 3, 'max_len': 9, 'paths4_max_len': 7, 'maxHandles': [1, 2, 3, 4], 'pruneEvery': [1, 2, 3, 4, 10000],
            'emfile_k': [1, 2, 3], 'transient_failures': 2, 'methods': ['gzip for all', 'plain for len<=5'], 'sweep_paths': 200}


def words(P, n):
    for l in range(1, n + 1):
        for w in itertools.product(range(P), repeat=l):
            # path symmetry: the first occurrences of paths appear in order 0,1,2 (renaming paths changes nothing
            # the limiter can observe: it only uses paths as dictionary keys)
            seen = -1
            ok = True
            for x in w:
                if x > seen + 1:
                    ok = False
                    break
                seen = max(seen, x)
            if ok:
                yield w


def shards(tier):
    b = bounds(tier)
    out = []
    for w in words(b['paths'], b['max_len']):
        out.append(('w', w))
    if tier == 'thorough':
        for w in words(4, b['paths4_max_len']):
            if 3 in w:
                out.append(('w', w))
    # group
    G = 6 if tier == 'quick' else 24
    grouped = [('group', out[i:i + G]) for i in range(0, len(out), G)]
    grouped.append(('fastq',))
    grouped.append(('sweep',))
    return grouped


def execute(word, maxHandles, pruneEvery, plan, method=1):
    """Run one write sequence on the real HandleLimiter over a MemStore with the fault plan.
    Returns (violations, info)."""
    from mc.bind import seam
    import singlecellmultiomics.pyutils.handlelimiter as hl
    seam(hl, 'gzip')
    seam(hl, 'time')
    store = MemStore(plan)
    if plan.get('stale'):
        # files left at the same paths by an earlier (aborted) run: a new writer starts every file anew
        import gzip as _gz
        for p_ in sorted(set(word)):
            junk = b'@stale\nNNNN\n+\n!!!!\n'
            store.files[f'/mem/cell{p_}.fq.gz'] = bytearray(_gz.compress(junk) if method == 1 else junk)

    class _G:
        open = staticmethod(store.gzip_open)
    saved = (hl.gzip, hl.time, hl.__dict__.get('open'), hl.__dict__.get('print'))
    hl.gzip = _G
    hl.time = LogicalClock()
    hl.open = store.open
    hl.print = lambda *a, **k: None
    ack = {}
    viol = []
    raised = None
    try:
        if plan.get('earlier_writer'):
            # history: an earlier HandleLimiter object of the same process wrote the same paths and was closed; the store's
            # fault plan only applies to the second writer
            saved_plan, store.plan = store.plan, {}
            first = hl.HandleLimiter(maxHandles=maxHandles, pruneEvery=pruneEvery, compressionLevel=1)
            for i, p in enumerate(word):
                first.write(f'/mem/cell{p}.fq.gz', f'@old{i}\nTTTT\n+\n####\n', method=method)
            first.close()
            store.plan = saved_plan
            store.open_calls = 0
            store.failures = []
        lim = hl.HandleLimiter(maxHandles=maxHandles, pruneEvery=pruneEvery, compressionLevel=1)
        for i, p in enumerate(word):
            path = f'/mem/cell{p}.fq.gz'
            payload = f'@r{i}:{p}\nACGT{i}\n+\nIIII{i}\n'
            nfail_before = len(store.failures)
            try:
                lim.write(path, payload, method=method)
            except Exception as ex:
                raised = (i, type(ex).__name__)
                new_fail = store.failures[nfail_before:]
                if not new_fail:
                    viol.append(('write:exception-without-any-open-failure:' + type(ex).__name__, {'at': i, 'ex': repr(ex)}))
                elif new_fail[-1][2] > 0:
                    viol.append(('write:raised-although-other-handles-were-open',
                                 {'at': i, 'ex': repr(ex), 'failures(call,path,open)': new_fail}))
                break
            ack.setdefault(path, []).append(payload)
        try:
            lim.close()
        except Exception as ex:
            viol.append(('close:exception:' + type(ex).__name__, repr(ex)))
    finally:
        hl.gzip, hl.time = saved[0], saved[1]
        for name, val in (('open', saved[2]), ('print', saved[3])):
            if val is None:
                hl.__dict__.pop(name, None)
            else:
                hl.__dict__[name] = val
    # content oracle
    for path, payloads in ack.items():
        want = ''.join(payloads).encode()
        if path not in store.files:
            viol.append(('content:file-missing-for-acknowledged-records', {'path': path}))
            continue
        data = store.content(path)
        try:
            got = gunzip_all_members(data) if method == 1 else data
        except Exception as ex:
            viol.append(('content:invalid-or-truncated-gzip', {'path': path, 'ex': repr(ex)}))
            continue
        if got != want:
            if len(got) < len(want) and want.startswith(got):
                sig = 'content:acknowledged-records-lost-at-end'
            elif want.endswith(got) and got:
                sig = 'content:earlier-records-overwritten'
            else:
                sig = 'content:records-differ-from-writes'
            viol.append((sig, {'path': path, 'got': got.decode(errors='replace'), 'want': want.decode()}))
    if store.open_count != 0 and raised is None:
        viol.append(('close:descriptors-left-open-after-close', {'open': store.open_count}))
    hit_with_others = any(f[2] > 0 for f in store.failures)
    info = {'opens': store.open_calls, 'failures': len(store.failures), 'hit_with_others_open': hit_with_others,
            'raised': raised, 'max_open': store.max_open}
    seen = set()
    return [(s, d) for s, d in viol if not (s in seen or seen.add(s))], info


def plans_for(word, maxHandles, pruneEvery, method, acc_cb):
    """Deviation-bounded enumeration of fault plans; placements come from the executions themselves."""
    P = max(word) + 1
    # 0 deviations
    base_viol, base_info = execute(word, maxHandles, pruneEvery, {}, method)
    acc_cb({}, base_viol, base_info)
    for k in (1, 2, 3):
        plan = {'emfile_k': k}
        acc_cb(plan, *execute(word, maxHandles, pruneEvery, plan, method))
    # histories: files of an earlier run at the same paths / an earlier writer object in the same process, without and with a budget
    for extra in ({'stale': True}, {'earlier_writer': True}):
        for base in ({}, {'emfile_k': 1}, {'emfile_k': 2}):
            plan = dict(base, **extra)
            acc_cb(plan, *execute(word, maxHandles, pruneEvery, plan, method))
    for p in range(P):
        plan = {'dead_paths': [f'/mem/cell{p}.fq.gz']}
        acc_cb(plan, *execute(word, maxHandles, pruneEvery, plan, method))
    # transient failures: 1 then 2 deviations
    for i in range(base_info['opens']):
        plan1 = {'fail_calls': [i]}
        v1, info1 = execute(word, maxHandles, pruneEvery, plan1, method)
        acc_cb(plan1, v1, info1)
        plan1s = {'fail_calls': [i], 'stale': True}
        acc_cb(plan1s, *execute(word, maxHandles, pruneEvery, plan1s, method))
        # the same transient failure reported as the system-wide variant of "too many open files" (ENFILE)
        plan1b = {'fail_calls': [i], 'errno': errno.ENFILE}
        acc_cb(plan1b, *execute(word, maxHandles, pruneEvery, plan1b, method))
        for j in range(i + 1, info1['opens']):
            plan2 = {'fail_calls': [i, j]}
            acc_cb(plan2, *execute(word, maxHandles, pruneEvery, plan2, method))
    # a descriptor budget enforced system wide: ENFILE instead of EMFILE
    plan = {'emfile_k': 2, 'errno': errno.ENFILE}
    acc_cb(plan, *execute(word, maxHandles, pruneEvery, plan, method))


def _norm_plan(plan):
    p = dict(plan)
    for k in ('fail_calls', 'dead_paths'):
        if k in p:
            p[k] = set(p[k])
    return p


def run_word(word, tier, acc):
    b = bounds(tier)
    plain_max = 4 if tier == 'quick' else 5
    for mh in b['maxHandles']:
        for pe in b['pruneEvery']:
            for method in ((1, 0) if len(word) <= plain_max else (1,)):
                def cb(plan, viols, info, mh=mh, pe=pe, method=method):
                    case = {'kind': 'limiter', 'word': list(word), 'maxHandles': mh, 'pruneEvery': pe, 'method': method,
                            'plan': plan}
                    lab = (f"fail={min(info['failures'], 3)},others={info['hit_with_others_open']},"
                           f"raised={info['raised'] is not None},maxopen={info['max_open']}")
                    acc.case(case, transitions=len(word), nontrivial=info['hit_with_others_open'], outcome=lab)
                    for sig, d in viols:
                        acc.violation(sig, case, d)
                plans_for(word, mh, pe, method, lambda plan, v, i: cb(plan, v, i))


class _Rec:
    def __init__(self, cell, mate, i):
        self.tags = {'bi': cell, 'MX': 'NLAIII384C8U3'}
        self.s = f'@x{i}:{cell}:{mate}\nAC{i}\n+\nII{i}\n'

    def __str__(self):
        return self.s


def execute_fastq(word, maxHandles, plan):
    import singlecellmultiomics.pyutils.handlelimiter as hl
    from singlecellmultiomics.fastqProcessing.fastqHandle import FastqHandle
    store = MemStore(plan)

    class _G:
        open = staticmethod(store.gzip_open)
    saved = (hl.gzip, hl.time, hl.__dict__.get('print'))
    hl.gzip = _G
    hl.time = LogicalClock()
    hl.print = lambda *a, **k: None
    viol = []
    ack = {}
    raised = None
    try:
        fh = FastqHandle('/mem/lib', pairedEnd=True, single_cell=True, maxHandles=maxHandles)
        for i, cell in enumerate(word):
            recs = (_Rec(cell, 'R1', i), _Rec(cell, 'R2', i))
            n0 = len(store.failures)
            try:
                fh.write(recs)
            except Exception as ex:
                raised = (i, type(ex).__name__)
                nf = store.failures[n0:]
                if not nf:
                    viol.append(('fastqhandle:exception-without-any-open-failure:' + type(ex).__name__, repr(ex)))
                elif nf[-1][2] > 0:
                    viol.append(('fastqhandle:raised-although-other-handles-were-open', {'at': i, 'ex': repr(ex), 'failures': nf}))
                break
            for mate, r in zip(('R1', 'R2'), recs):
                ack.setdefault((cell, mate), []).append(str(r))
        try:
            fh.close()
        except Exception as ex:
            viol.append(('fastqhandle:close:exception:' + type(ex).__name__, repr(ex)))
    finally:
        hl.gzip, hl.time = saved[0], saved[1]
        if saved[2] is None:
            hl.__dict__.pop('print', None)
        else:
            hl.print = saved[2]
    # each (cell, mate) must be in exactly one file holding exactly its records
    by_content = {}
    for path, data in store.files.items():
        try:
            by_content[path] = gunzip_all_members(bytes(data)).decode()
        except Exception as ex:
            by_content[path] = None
            if any(True for _ in ack):
                viol.append(('fastqhandle:invalid-or-truncated-gzip', {'path': path, 'ex': repr(ex)}))
    for (cell, mate), payloads in ack.items():
        want = ''.join(payloads)
        holders = [p for p, c in by_content.items() if c is not None and c == want]
        named = [p for p in by_content if f'.{cell}.' in p and p.endswith(f'.{mate}.fastq.gz')]
        if len(named) != 1 or by_content.get(named[0]) != want:
            viol.append(('fastqhandle:cell-file-does-not-hold-exactly-its-records',
                         {'cell': cell, 'mate': mate, 'files': {p: by_content[p] for p in named}, 'want': want}))
    info = {'opens': store.open_calls, 'failures': len(store.failures),
            'hit_with_others_open': any(f[2] > 0 for f in store.failures), 'raised': raised, 'max_open': store.max_open}
    seen = set()
    return [(s, d) for s, d in viol if not (s in seen or seen.add(s))], info


def run_shard(shard, tier, acc):
    if shard[0] == 'group':
        for _, w in shard[1]:
            run_word(w, tier, acc)
    elif shard[0] == 'fastq':
        n = 4 if tier == 'quick' else 5
        for w in words(3, n):
            for mh in (1, 2, 500):
                plans = [{}] + [{'emfile_k': k} for k in (1, 2, 3, 4)] + [{'fail_calls': [i]} for i in range(2 * len(w) + 2)]
                for plan in plans:
                    case = {'kind': 'fastq', 'word': list(w), 'maxHandles': mh, 'plan': plan}
                    viols, info = execute_fastq(w, mh, _norm_plan(plan))
                    acc.case(case, transitions=2 * len(w), nontrivial=info['hit_with_others_open'],
                             outcome=f"fq:fail={min(info['failures'], 3)},others={info['hit_with_others_open']},raised={info['raised'] is not None}")
                    for sig, d in viols:
                        acc.violation(sig, case, d)
    elif shard[0] == 'sweep':
        word = tuple(list(range(200)) + list(range(199, -1, -1)) + [0, 100, 199, 0])
        for mh, pe, plan in ((32, 50, {}), (32, 50, {'emfile_k': 20}), (500, 10000, {'emfile_k': 64}), (4, 1, {'emfile_k': 3}),
                             (32, 7, {'emfile_k': 40}), (32, 50, {'fail_calls': [150, 151, 320]})):
            case = {'kind': 'limiter', 'word': list(word), 'maxHandles': mh, 'pruneEvery': pe, 'method': 1, 'plan': plan}
            viols, info = execute(word, mh, pe, _norm_plan(plan), 1)
            acc.case({'kind': 'sweep', 'maxHandles': mh, 'pruneEvery': pe, 'plan': plan}, transitions=len(word),
                     nontrivial=info['hit_with_others_open'], outcome=f"sweep:fail={min(info['failures'], 3)}")
            for sig, d in viols:
                acc.violation(sig, case, d)


def replay(case):
    if case['kind'] == 'fastq':
        return execute_fastq(tuple(case['word']), case['maxHandles'], _norm_plan(case['plan']))[0]
    return execute(tuple(case['word']), case['maxHandles'], case['pruneEvery'], _norm_plan(case['plan']), case['method'])[0]
