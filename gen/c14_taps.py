"""Generator side of C14: the reference (de-Bruijn word of order 3 over ACGTN + contig-end and soft-masked
contigs), the enumeration of windows / conversion patterns / fragment shapes, and the construction of the
in-memory read pairs (with a correct MD tag, which is where the code under test reads the reference base from).

Nothing in here knows anything about methylation contexts or call letters (that is oracles/c14_caller.py).
"""
import itertools

from gen.reads import header, make_read

ALPHABET = 'ACGTN'


def debruijn(alphabet, n):
    """Lexicographically smallest de-Bruijn sequence B(k, n) (FKM / Lyndon-word concatenation), linearised by
    appending its first n-1 letters so that every word of length n occurs as a substring."""
    k = len(alphabet)
    a = [0] * (k * n)
    seq = []

    def db(t, p):
        if t > n:
            if n % p == 0:
                seq.extend(a[1:p + 1])
        else:
            a[t] = a[t - p]
            db(t + 1, p)
            for j in range(a[t - p] + 1, k):
                a[t] = j
                db(t + 1, t)

    db(1, 1)
    word = ''.join(alphabet[i] for i in seq)
    return word + word[:n - 1]


LONG = 'lg'


def contigs():
    """[(name, sequence)].  'db' carries every 3-letter word over ACGTN.  The 'eX' contigs put a G at positions
    0/1 and a C at the last two positions next to every letter X (contexts truncated at both contig ends; one
    contig has one start and one end, hence several).  'lc' is a soft-masked (lower case) stretch;
    'c1' 'g1' 'cg' 'gc' are shorter than a context; 'mx0' 'mx1' are mixed case; 'iu' carries IUPAC letters R and Y."""
    out = [('db', debruijn(ALPHABET, 3))]
    for x in ALPHABET:
        out.append((f'e{x}', f'{x}GTAC{x}'))
    out.append(('eGC', 'GGCC'))              # G at 0 and 1, C at the last two positions
    # the FIRST position whose context is complete: a G on position 2 (both preceding bases exist) and a C on the third
    # position from the end (both following bases exist) - one off the truncated ones above
    for x in ALPHABET:
        out.append((f's{x}', f'{x}{x}GTAC{x}{x}'))
    out.append(('lc', 'tacgccagctggaca'))
    # contigs shorter than a three-base context (a C / G whose neighbours do not exist on either side)
    out.extend([('c1', 'C'), ('g1', 'G'), ('cg', 'CG'), ('gc', 'GC')])
    # mixed case: the soft-masked word in both alternating-case phases (a context never is all lower or all upper)
    lc = 'tacgccagctggaca'
    out.append(('mx0', ''.join(c.upper() if i % 2 else c for i, c in enumerate(lc))))
    out.append(('mx1', ''.join(c if i % 2 else c.upper() for i, c in enumerate(lc))))
    # IUPAC ambiguity letters other than N (R = A/G, Y = C/T) as first / second neighbour of a C and of a G
    out.append(('iu', ''.join(f'C{x}GAC{x}ACG{x}T{x}AG{x}CGT' for x in 'RY')))
    # a contig longer than any plausible reference-window cache: molecules are tiled over it in sequence
    out.append((LONG, debruijn('ACGT', 5)))
    return out


def self_check():
    """harness self test: raises when the reference does not have the advertised content"""
    db = dict(contigs())['db']
    words = {db[i:i + 3] for i in range(len(db) - 2)}
    if len(db) != 127 or words != {''.join(w) for w in itertools.product(ALPHABET, repeat=3)}:
        raise ValueError('de-Bruijn reference broken')


def write_fasta(path):
    import pysam
    with open(path, 'w') as f:
        for name, seq in contigs():
            f.write(f'>{name}\n{seq}\n')
    pysam.faidx(path)


# ------------------------------------------------------------------------------------------------ shapes
SHAPES_QUICK = ('single', 'full', 'split', 'gap', 'dove1', 'evert', 'tandem', 'indel', 'skipN', 'clip3', 'sindel')
SHAPES_THOROUGH = ('single', 'full', 'split', 'gap', 'dove1', 'dove2', 'evert', 'tandem', 'indel', 'skipN', 'clip3',
                   'sindel')
# shapes added by the audit wave: the quick tier runs them on windows up to this length only
SHAPES_THIN = ('evert', 'tandem', 'indel', 'skipN', 'clip3', 'sindel')
UNORIENTED_SHAPES = ('tandem',)          # mates on the same strand: the statement's safe span is not defined
SINGLE_SHAPES = ('single', 'sindel')


def shape_layout(shape, L):
    """Layout of a FORWARD fragment over a window of length L in window offsets:
    (r1, r2) with r = dict(a, b, ins, dele, skip, clip3, clip5, same) or None; None when the shape does not fit.
    ins=k : one extra query base is inserted after k aligned bases;  dele=k : window offset k is deleted (CIGAR D);
    skip=k : window offset k is skipped (CIGAR N, a spliced read);  clip3 / clip5 : extra soft-clipped bases at the
    3' / 5' end of the read;  same : the mate maps to the strand of R1."""
    def iv(a, b, ins=None, dele=None, skip=None, clip3='', clip5='', same=False):
        return {'a': a, 'b': b, 'ins': ins, 'dele': dele, 'skip': skip, 'clip3': clip3, 'clip5': clip5, 'same': same}
    if shape == 'single':
        return iv(0, L), None
    if shape == 'full':
        return iv(0, L), iv(0, L)
    if shape == 'split':
        if L < 2:
            return None
        return iv(0, (L + 1) // 2), iv(L // 2, L)
    if shape == 'gap':                     # mates do not touch: the bases in between are covered by nobody
        if L < 3:
            return None
        return iv(0, (L - 1) // 2), iv((L + 2) // 2, L)
    if shape == 'dove1':
        if L < 2:
            return None
        return iv(1, L), iv(0, L - 1)
    if shape == 'dove2':
        if L < 4:
            return None
        return iv(2, L), iv(0, L - 2)
    if shape == 'evert':                   # outward facing mates which do not overlap: there is no safe span at all
        if L < 2:
            return None
        return iv((L + 1) // 2, L), iv(0, L // 2)
    if shape == 'tandem':                  # improper pair: R2 maps to the same strand as R1
        if L < 2:
            return None
        return iv(0, (L + 1) // 2), iv(L // 2, L, same=True)
    if shape == 'indel':
        if L < 3:
            return None
        return iv(0, L, ins=L // 2), iv(0, L, dele=L // 2)
    if shape == 'skipN':                   # R1 is a spliced read (one reference base skipped), R2 covers everything
        if L < 3:
            return None
        return iv(0, L, skip=L // 2), iv(0, L)
    if shape == 'clip3':                   # soft clips at the 3' ends of both mates and at the 5' end of R2
        return iv(0, L, clip3='GG'), iv(0, L, clip3='CC', clip5='TT')
    if shape == 'sindel':                  # single-end read with a deletion (and an insertion when there is room)
        if L < 3:
            return None
        return iv(0, L, dele=L // 2, ins=(1 if L >= 5 else None)), None
    raise ValueError(shape)


def mirror_layout(layout, L):
    """the same fragment seen on the reverse strand: intervals reflected inside the window"""
    out = []
    for r in layout:
        if r is None:
            out.append(None)
            continue
        m = dict(r, a=L - r['b'], b=L - r['a'], ins=None, dele=None, skip=None)
        n_gone = (1 if r['dele'] is not None else 0) + (1 if r['skip'] is not None else 0)
        if r['ins'] is not None:
            m['ins'] = (r['b'] - r['a'] - n_gone) - r['ins']
        if r['dele'] is not None:
            m['dele'] = L - 1 - r['dele']
        if r['skip'] is not None:
            m['skip'] = L - 1 - r['skip']
        out.append(m)
    return tuple(out)


def layout_for(shape, L, strand):
    lay = shape_layout(shape, L)
    if lay is None:
        return None
    return lay if strand == '+' else mirror_layout(lay, L)


# ------------------------------------------------------------------------------------------------ cases
CONV = {'C': 'T', 'G': 'A'}
CROSS = {'C': 'A', 'G': 'T'}          # a substitution which is NOT the TAPS conversion of that base


def convertible_offsets(refwin):
    return [i for i, b in enumerate(refwin) if b.upper() in 'CG']


def window_cases(contig, seq, start, L, shapes, unsafe_single=True, unsafe_pairs=False):
    """all cases on one window (without class / strand / convention, which the caller multiplies in)"""
    refwin = seq[start:start + L]
    conv_off = convertible_offsets(refwin)
    subsets = []
    for k in range(len(conv_off) + 1):
        subsets.extend(itertools.combinations(conv_off, k))
    for shape in shapes:
        if shape_layout(shape, L) is None:
            continue
        if shape in SINGLE_SHAPES:
            modes = (False, True) if unsafe_single else (False,)
        else:
            modes = (False, True) if unsafe_pairs else (False,)
        for unsafe in modes:
            for sub in subsets:
                yield {'contig': contig, 'start': start, 'len': L, 'shape': shape, 'unsafe': unsafe,
                       'conv': list(sub), 'sub': None}
            if shape == 'full' and not unsafe:
                for o in conv_off:
                    for b in (CROSS[refwin[o].upper()], 'N'):
                        yield {'contig': contig, 'start': start, 'len': L, 'shape': shape, 'unsafe': unsafe,
                               'conv': [], 'sub': [o, b]}


# ---- the vote family: ONE convertible position of the window is shown differently by a mate / by further fragments
Q_HI, Q_LO = 40, 30                          # phred of R1 / R2 in every other family ('I' / '?')
VOTE_SHAPES = ('full', 'split', 'dove1', 'single')
MATE_QUALS = ([Q_HI, Q_LO], [Q_LO, Q_HI], [Q_LO, Q_LO])
MIN_PHREDS = (Q_LO, Q_LO + 1, Q_HI + 1)      # keeps both mates (boundary: equal counts) / R1 only / nothing
# what the further fragments of the molecule show at the position, relative to the first fragment
COPY_PATTERNS = (('opp',), ('same',), ('N',), ('opp', 'opp'), ('opp', 'same'), ('same', 'opp'), ('opp', 'cross'),
                 ('opp', 'N'), ('opp', 'opp', 'same'))


def vote_cases(contig, seq, start, L, shapes=VOTE_SHAPES):
    """For every convertible offset o of the window and both things the first fragment can show there
    (reference base / conversion):
      mate    - R2 shows the opposite / a non-conversion substitution / N at o  x  mate qualities R1>R2, R1<R2, equal
      minq    - methylation_consensus_kwargs={'min_phred_score': q} for q keeping both mates (q equal to the lower
                quality), R1 only, nothing
      copies  - 1..3 further fragments of the same layout showing the same / the opposite / a third base / N at o
    Single-end fragments are generated with allow_unsafe_base_calls=True only (nothing can be demanded otherwise)."""
    refwin = seq[start:start + L]
    for shape in shapes:
        if shape_layout(shape, L) is None:
            continue
        single = shape in SINGLE_SHAPES
        for o in convertible_offsets(refwin):
            b = refwin[o].upper()
            for shows_conv in (False, True):
                base = {'contig': contig, 'start': start, 'len': L, 'shape': shape, 'unsafe': single,
                        'conv': [o] if shows_conv else [], 'sub': None}
                alt = {'opp': b if shows_conv else CONV[b], 'same': CONV[b] if shows_conv else b,
                       'cross': CROSS[b], 'N': 'N'}
                if not single:
                    for other in ('opp', 'cross', 'N'):
                        for quals in MATE_QUALS:
                            yield dict(base, r2sub=[o, alt[other]], quals=list(quals))
                for q in MIN_PHREDS:
                    yield dict(base, minq=q)
                for pat in COPY_PATTERNS:
                    yield dict(base, extra=[[o, alt[k]] for k in pat])


def molecule_sequence(refwin, conv, sub):
    """what the sequenced molecule shows over the window (upper case; an 'A' is read where the reference has a
    letter other than ACGT)"""
    out = []
    for i, b in enumerate(refwin.upper()):
        if sub is not None and sub[0] == i:
            out.append(sub[1])
        elif i in conv:
            out.append(CONV[b])
        elif b not in 'ACGT':
            out.append('A')
        else:
            out.append(b)
    return ''.join(out)


# ------------------------------------------------------------------------------------------------ reads
def md_tag(ref_aln, query_aln):
    """MD tag from two gapped strings of equal length (ref '-' = insertion in the read, query '-' = deletion),
    written from the SAM specification: [0-9]+(([A-Z]|\\^[A-Z]+)[0-9]+)*"""
    out = []
    run = 0
    in_del = False
    for r, q in zip(ref_aln.upper(), query_aln.upper()):
        if r == '-':
            continue
        if q == '-':
            if not in_del:
                out.append(str(run))
                run = 0
                out.append('^')
                in_del = True
            out.append(r)
            continue
        in_del = False
        if r == q:
            run += 1
        else:
            out.append(str(run))
            run = 0
            out.append(r)
    out.append(str(run))
    return ''.join(out)


def read_spec(refwin, molseq, start, r, reverse, clip5):
    """Turn one layout entry into (query, cigar, pos, md, aligned_ref_positions, aligned bases).
    clip5: bases soft-clipped at the 5' end OF THE READ (left for forward, right for reverse reads)."""
    a, b = r['a'], r['b']
    ref_aln, q_aln, cig = [], [], []
    positions = []
    aligned = []

    def push(op, n=1):
        if cig and cig[-1][0] == op:
            cig[-1][1] += n
        else:
            cig.append([op, n])

    n_aligned = 0
    inserted = False
    for o in range(a, b):
        if r['ins'] is not None and not inserted and n_aligned == r['ins'] and o > a:
            ref_aln.append('-')
            q_aln.append('T')
            push('I')
            inserted = True
        if r['dele'] is not None and o == r['dele']:
            ref_aln.append(refwin[o])
            q_aln.append('-')
            push('D')
            continue
        if r.get('skip') is not None and o == r['skip']:
            push('N')                       # a skipped reference base appears neither in the query nor in MD
            continue
        ref_aln.append(refwin[o])
        q_aln.append(molseq[o])
        push('M')
        positions.append(start + o)
        aligned.append(molseq[o])
        n_aligned += 1
    query = ''.join(c for c in q_aln if c != '-')
    clip5 = clip5 + r.get('clip5', '')
    clip3 = r.get('clip3', '')
    left, right = (clip3, clip5) if reverse else (clip5, clip3)
    if left:
        query = left + query
        cig.insert(0, ['S', len(left)])
    if right:
        query = query + right
        cig.append(['S', len(right)])
    cigar = ''.join(f'{n}{op}' for op, n in cig)
    return {'query': query, 'cigar': cigar, 'pos': start + a, 'md': md_tag(''.join(ref_aln), ''.join(q_aln)),
            'positions': positions, 'aligned': ''.join(aligned), 'reverse': reverse}


NLA_CLASSES = ('nla', 'nla_annot', 'nla_ptag')


def build_reads(hdr, case, seq):
    """-> (fragments [[R1, R2|None], ...], specs [[spec1, spec2|None], ...], what the first fragment shows)
    for a case (needs cls, strand on top of window_cases / vote_cases).  Optional keys of the case:
      quals  [q1, q2]  phred of every base of R1 / R2 (default 40 / 30)
      r2sub  [o, b]    R2 of the first fragment shows b at window offset o (mate disagreement)
      extra  [[o, b] | None, ...]  further fragments of the same layout which show b at offset o"""
    start, L = case['start'], case['len']
    refwin = seq[start:start + L]
    molseq = molecule_sequence(refwin, set(case['conv']), case['sub'])
    lay = layout_for(case['shape'], L, case['strand'])
    r1_rev = case['strand'] == '-'
    clip = 'CATG' if case['cls'] in NLA_CLASSES else ''
    quals = case.get('quals') or [Q_HI, Q_LO]

    def shown(sub):
        if sub is None:
            return molseq
        return molseq[:sub[0]] + sub[1] + molseq[sub[0] + 1:]

    shows = [(molseq, shown(case.get('r2sub')))]
    for e in case.get('extra') or []:
        shows.append((shown(e), shown(e)))
    frags, specs = [], []
    for fi, (show1, show2) in enumerate(shows):
        s1 = read_spec(refwin, show1, start, lay[0], r1_rev, clip)
        s2 = (read_spec(refwin, show2, start, lay[1], r1_rev if lay[1].get('same') else not r1_rev, '')
              if lay[1] is not None else None)
        reads = []
        for i, s in enumerate((s1, s2)):
            if s is None:
                reads.append(None)
                continue
            s['qual'] = quals[i]
            other = (s1, s2)[1 - i]
            mate = (case['contig'], other['pos'], other['reverse'], False) if other is not None else None
            tags = {'SM': 'LIB_1', 'RX': 'ACG', 'BC': 'AAAA', 'bi': 1, 'MQ': 60, 'MD': s['md']}
            if case['cls'] in NLA_CLASSES:
                tags.update({'lh': 'TG'})
            else:
                tags.update({'lh': 'TA', 'MX': 'scCHIC384C8U3'})
            qual = chr(33 + quals[i]) * len(s['query'])
            reads.append(make_read(hdr, 'frag' if fi == 0 else f'frag{fi}', s['query'], case['contig'], s['pos'],
                                   s['cigar'], reverse=s['reverse'], read1=(i == 0),
                                   paired=True if other is not None else False, mate=mate, qual=qual,
                                   tags=tags, proper=True))
        frags.append(reads)
        specs.append([s1, s2])
    return frags, specs, molseq


def make_header():
    return header([(n, len(s)) for n, s in contigs()])
