"""In-memory file store with a descriptor budget and a fault plan, for the open()/gzip.open() seams."""
import errno
import gzip
import io
import os


class MemStore:
    """path -> bytearray; counts open descriptors; injects open failures according to a plan.

    plan: dict with optional keys
      'emfile_k'   : fail (EMFILE) every open attempted while >= k descriptors are open
      'fail_calls' : set of 0-based indices of open CALLS which fail (transient)
      'dead_paths' : set of paths which can never be opened
    """

    def __init__(self, plan=None):
        self.files = {}
        self.open_count = 0
        self.open_calls = 0
        self.plan = plan or {}
        self.failures = []       # (call index, path, descriptors open at that moment)
        self.max_open = 0
        self.opened_modes = []   # (path, mode)

    # -- injection ----------------------------------------------------------------
    def _maybe_fail(self, path):
        idx = self.open_calls
        self.open_calls += 1
        fail = False
        k = self.plan.get('emfile_k')
        if k is not None and self.open_count >= k:
            fail = True
        if idx in self.plan.get('fail_calls', ()):
            fail = True
        if path in {self.key(d) for d in self.plan.get('dead_paths', ())}:
            fail = True
        if fail:
            self.failures.append((idx, path, self.open_count))
            code = self.plan.get('errno', errno.EMFILE)
            raise OSError(code, os.strerror(code) + ' (injected)', path)

    def _raw(self, path, mode):
        if 'w' in mode:
            self.files[path] = bytearray()
        elif 'a' in mode:
            self.files.setdefault(path, bytearray())
        else:
            raise ValueError(mode)
        self.open_count += 1
        self.max_open = max(self.max_open, self.open_count)
        self.opened_modes.append((path, mode))
        return _Raw(self, path)

    # -- seams --------------------------------------------------------------------
    def gzip_open(self, path, mode='rb', compresslevel=9, *a, **k):
        path = self.key(path)
        self._maybe_fail(path)
        raw = self._raw(path, mode)
        if 't' in mode:
            g = _Gz(raw, mode.replace('t', ''), compresslevel)
            return io.TextIOWrapper(g)
        return _Gz(raw, mode, compresslevel)

    def open(self, path, mode='r', *a, **k):
        path = self.key(path)
        self._maybe_fail(path)
        raw = self._raw(path, mode)
        return _Text(raw)

    def content(self, path):
        return bytes(self.files[self.key(path)])

    @staticmethod
    def key(path):
        """one file per location, however the path is spelled (relative, './', doubled separators), as on a file system"""
        return os.path.abspath(os.fspath(path))


class _Raw(io.RawIOBase):
    def __init__(self, store, path):
        super().__init__()
        self.store = store
        self.path = path
        self._open = True

    def writable(self):
        return True

    def write(self, b):
        if not self._open:
            raise ValueError('write to closed file')
        self.store.files[self.path] += bytes(b)
        return len(b)

    def close(self):
        if self._open:
            self._open = False
            self.store.open_count -= 1
        super().close()


class _Gz(gzip.GzipFile):
    def __init__(self, raw, mode, compresslevel):
        self._raw_owned = raw
        super().__init__(filename='', mode=mode[0] + 'b', compresslevel=compresslevel, fileobj=raw, mtime=0)

    def close(self):
        try:
            super().close()
        finally:
            self._raw_owned.close()


class _Text:
    def __init__(self, raw):
        self.raw = raw

    def write(self, s):
        return self.raw.write(s.encode('utf-8'))

    def close(self):
        self.raw.close()


def gunzip_all_members(data):
    """Decompress every gzip member; raises on a truncated / invalid stream."""
    if not data:
        return b''
    return gzip.decompress(data)


class LogicalClock:
    def __init__(self):
        self.t = 0

    def time(self):
        self.t += 1
        return float(self.t)
