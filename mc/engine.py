"""Exploration engine shared by all properties.

A property module (props/cNN.py) provides

    ID, RULE, ASSUMPTIONS, DESIGN_REF
    bounds(tier)            -> JSON-able dict describing alphabet + limits actually used
    shards(tier)            -> list of picklable shard descriptions; the shards PARTITION the space
    run_shard(shard, tier, acc)   explores one shard completely, reporting into `acc`
    replay(case)            -> list of (signature, detail) for ONE case, calling the real code directly
                               (no explorer) - used for the determinism gate and for --replay

The engine forks workers AFTER binding to the tree under test, runs every shard (the run is only
declared exhaustive when every shard finished), merges counts, applies the known-findings file,
passes every reported violation through the replay-determinism gate, writes replay files and the
evidence file, prints VIOLATION / KNOWN-FINDING lines and returns the exit code.
"""
import hashlib
import json
import multiprocessing
import os
import sys
import time
import traceback

from . import bind
from . import findings as findings_mod
from . import evidence as evidence_mod

VERIF = os.path.dirname(os.path.dirname(os.path.abspath(__file__)))
MAX_KEEP_PER_SIG = 3


def jsonable(x):
    if isinstance(x, (str, int, float, bool)) or x is None:
        return x
    if isinstance(x, bytes):
        return x.decode('latin-1')
    if isinstance(x, dict):
        return {str(k): jsonable(v) for k, v in x.items()}
    if isinstance(x, (list, tuple)):
        return [jsonable(v) for v in x]
    if isinstance(x, (set, frozenset)):
        return sorted((jsonable(v) for v in x), key=repr)
    try:
        import numpy as np
        if isinstance(x, np.integer):
            return int(x)
        if isinstance(x, np.floating):
            return float(x)
    except Exception:
        pass
    return repr(x)


class Acc:
    """Per-shard accumulator. All counts are measured here, never constants."""

    def __init__(self, seed=0, shard_index=0):
        self.seed = seed
        self.shard_index = shard_index
        self.states = 0          # distinct canonical cases / states visited
        self.transitions = 0     # real-code steps executed
        self.execs = 0           # executions of the real implementation
        self.nontrivial = 0      # distinct cases that are non-trivial by the property's rule
        self.outcomes = {}       # outcome label -> count   (vacuity detector)
        self.samples = []
        self.viol = {}           # signature -> {'count': n, 'cases': [(case, detail)]}
        self.extra = {}          # free-form counters (summed on merge)
        self._n = 0

    def case(self, case=None, transitions=1, execs=1, nontrivial=False, outcome=None, states=1):
        self.states += states
        self.transitions += transitions
        self.execs += execs
        if nontrivial:
            self.nontrivial += 1
        if outcome is not None:
            if len(self.outcomes) < 5000 or outcome in self.outcomes:
                self.outcomes[outcome] = self.outcomes.get(outcome, 0) + 1
        self._n += 1
        if case is not None and len(self.samples) < 2:
            # seed only picks WHICH explored cases are written out as samples
            if self._n == 1 + ((self.seed * 7919 + self.shard_index * 104729) % 97) or (
                    self._n == 1 and not self.samples):
                self.samples.append(jsonable(case))

    def count(self, key, n=1):
        self.extra[key] = self.extra.get(key, 0) + n

    def violation(self, signature, case, detail):
        v = self.viol.setdefault(signature, {'count': 0, 'cases': []})
        v['count'] += 1
        if len(v['cases']) < MAX_KEEP_PER_SIG:
            v['cases'].append((jsonable(case), jsonable(detail), self.shard_index))

    def merge(self, other):
        self.states += other.states
        self.transitions += other.transitions
        self.execs += other.execs
        self.nontrivial += other.nontrivial
        for k, v in other.outcomes.items():
            self.outcomes[k] = self.outcomes.get(k, 0) + v
        for k, v in other.extra.items():
            self.extra[k] = self.extra.get(k, 0) + v
        self.samples.extend(other.samples)
        for sig, v in other.viol.items():
            mine = self.viol.setdefault(sig, {'count': 0, 'cases': []})
            mine['count'] += v['count']
            mine['cases'].extend(v['cases'])


_MOD = None
_TIER = None
_SEED = 0


MAX_GROUPS = 64


def _groups(shards):
    """Deterministic grouping of the shards into at most MAX_GROUPS groups (independent of the seed). Every group runs in
    its own freshly forked process, so the history a case can depend on is exactly the cases of its group before it."""
    n = len(shards)
    G = min(n, MAX_GROUPS) or 1
    return [[(i, shards[i]) for i in range(n) if i % G == g] for g in range(G)]


def _work(arg):
    cov_dir = os.environ.get('VERIF_COVERAGE')
    if not cov_dir:
        return _work_inner(arg)
    # audit aid (tools/coverage_audit.py): line+branch coverage of the tree under test, one data file per shard group
    import coverage
    cov = coverage.Coverage(data_file=os.path.join(cov_dir, f'cov.{arg[0]}'), branch=True,
                            include=[os.path.join(bind.REPO, 'singlecellmultiomics', '*')])
    cov.start()
    try:
        return _work_inner(arg)
    finally:
        cov.stop()
        cov.save()


def _work_inner(arg):
    gidx, members = arg
    acc = Acc(_SEED, gidx)
    t0 = time.time()
    for idx, shard in members:
        try:
            _MOD.run_shard(shard, _TIER, acc)
        except bind.HarnessError as e:
            return ('harness', idx, f'{e}')
        except Exception as ex:
            # Safety net: an exception that escapes a property module is a harness bug - unless it was raised INSIDE the
            # tree under test, in which case the code under test failed where the module did not expect it: a violation.
            tb = traceback.extract_tb(ex.__traceback__)
            last = tb[-1] if tb else None
            if last is not None and os.path.realpath(last.filename).startswith(bind.REPO + os.sep):
                sig = (f'unhandled-exception-in-code-under-test:{type(ex).__name__}:'
                       f'{os.path.basename(last.filename)}:{last.name}')
                acc.violation(sig, {'engine_crash': True, 'shard': idx}, traceback.format_exc()[-1500:])
                acc.count('shards_aborted_by_exception_in_code_under_test')
                continue
            return ('crash', idx, traceback.format_exc())
    return ('ok', gidx, acc, time.time() - t0)


PRELOAD = [
    'singlecellmultiomics.molecule', 'singlecellmultiomics.fragment', 'singlecellmultiomics.features',
    'singlecellmultiomics.alleleTools', 'singlecellmultiomics.barcodeFileParser.barcodeFileParser',
    'singlecellmultiomics.bamProcessing.bamFunctions', 'singlecellmultiomics.bamProcessing.bamBinCounts',
    'singlecellmultiomics.bamProcessing.bamToCountTable', 'singlecellmultiomics.utils.binning',
    'singlecellmultiomics.utils.sequtils', 'singlecellmultiomics.pyutils.handlelimiter',
    'singlecellmultiomics.fastqProcessing.fastqHandle', 'singlecellmultiomics.fastqProcessing.fastqIterator',
    'singlecellmultiomics.modularDemultiplexer.demultiplexingStrategyLoader',
    'singlecellmultiomics.universalBamTagger.bamtagmultiome', 'singlecellmultiomics.universalBamTagger.tagging',
    'singlecellmultiomics.molecule.taps', 'singlecellmultiomics.molecule.featureannotatedmolecule',
]


def _preload():
    """import the package's modules in the parent so that the per-shard forked children start warm; an import that
    fails here fails in the shard too, where it is reported"""
    import importlib
    for name in PRELOAD:
        try:
            importlib.import_module(name)
        except Exception:
            pass


def _replay_case(case):
    try:
        return [(s, jsonable(d)) for s, d in _MOD.replay(case)]
    except Exception:
        return traceback.format_exc()


def _replay_in_child(case):
    ctx = multiprocessing.get_context('fork')
    with ctx.Pool(1) as pool:
        return pool.apply(_replay_case, (case,))


def _rerun_shard(shard, idx):
    """run one shard again in a fresh forked process; returns its Acc or None"""
    ctx = multiprocessing.get_context('fork')
    with ctx.Pool(1) as pool:
        res = pool.apply(_work, ((idx, shard),))
    if res[0] != 'ok':
        return None
    return res[2]


def case_size(case):
    return len(json.dumps(case, sort_keys=True, default=repr))


def run_property(mod, tier, seed, replay_path=None):
    global _MOD, _TIER, _SEED
    _MOD, _TIER, _SEED = mod, tier, seed
    pid = mod.ID
    t0 = time.time()
    try:
        bind.bind()
        _preload()
        if hasattr(mod, 'setup'):
            mod.setup()
    except bind.HarnessError as e:
        print(f'ERROR {pid} {e}')
        return 2

    if replay_path is not None:
        return do_replay(mod, replay_path)

    shards = list(mod.shards(tier))
    groups = _groups(shards)
    n_shards = len(groups)
    order = list(range(n_shards))
    if n_shards > 1:
        r = seed % n_shards          # the seed rotates the visiting order only
        order = order[r:] + order[:r]
    jobs = [(g, groups[g]) for g in order]
    ncpu = int(os.environ.get('VERIF_JOBS', os.cpu_count() or 1))
    total = Acc(seed, 0)
    done = 0
    errors = []
    if ncpu <= 1 or n_shards <= 1:
        results = map(_work, jobs)
        pool = None
    else:
        ctx = multiprocessing.get_context('fork')
        # one fresh forked process per shard group: the history a case can depend on is exactly its group
        pool = ctx.Pool(min(ncpu, n_shards), maxtasksperchild=1)
        results = pool.imap_unordered(_work, jobs, chunksize=1)
    try:
        for res in results:
            if res[0] == 'ok':
                total.merge(res[2])
                done += 1
            else:
                errors.append(res)
    finally:
        if pool is not None:
            pool.terminate()
            pool.join()
    if errors:
        for kind, idx, msg in errors[:3]:
            print(f'ERROR {pid} shard {idx} {kind}: {msg}')
        return 2
    exhaustive = (done == n_shards) and not total.extra.get('shards_aborted_by_exception_in_code_under_test')

    # ---- violations: known-findings, determinism gate, replay files
    known = findings_mod.load(pid)
    new_sigs, known_hit = [], []
    for sig in sorted(total.viol):
        f = findings_mod.match(known, sig)
        if f is not None:
            known_hit.append((sig, f))
        else:
            new_sigs.append(sig)
    exit_code = 0
    out_lines = []
    for sig, f in known_hit:
        out_lines.append(f"KNOWN-FINDING: property={pid} {f.get('what', sig)} "
                         f"[signature={sig} cases={total.viol[sig]['count']}]")
    for sig in new_sigs:
        cases = sorted(total.viol[sig]['cases'], key=lambda cd: (case_size(cd[0]), json.dumps(cd[0], sort_keys=True, default=repr)))
        case, detail, shard_idx = cases[0]
        # determinism gate: the recorded case must fail identically when re-run from its description
        # (run in a forked child: the parent never executes the code under test after setup(), so the main run, the
        # replays and the group re-runs all start from the same process state)
        again = [] if (isinstance(case, dict) and case.get('engine_crash')) else _replay_in_child(case)
        if isinstance(again, str):
            print(f'ERROR {pid} replay raised for signature {sig}: {again}')
            return 2
        again_sigs = [s for s, _ in again]
        if sig not in again_sigs:
            # The case alone does not fail. Either the harness is nondeterministic, or the failure depends on the
            # HISTORY of calls made before it in the same process (state kept by the code under test between calls).
            # Decide by re-running the complete shard in a fresh process: the same schedule must fail the same way.
            res = _rerun_shard(groups[shard_idx], shard_idx)
            same = (res is not None and sig in res.viol and
                    any(json.dumps(c[0], sort_keys=True, default=repr) == json.dumps(case, sort_keys=True, default=repr)
                        for c in res.viol[sig]['cases']))
            if not same:
                print(f'ERROR {pid} nondeterministic: case reported {sig!r} but replay gives {again_sigs!r} and a fresh run '
                      f'of shard {shard_idx} does not reproduce it: {json.dumps(case, default=repr)[:400]}')
                return 2
            sig_out = sig
            case = {'history_dependent': True, 'shard_index': shard_idx, 'tier': tier, 'case': case,
                    'note': 'fails only after the preceding cases of this shard group ran in the same process '
                            '(state carried between calls by the code under test)'}
            out_lines.append(f'  note: signature={sig} is history dependent: reproduces by re-running shard group {shard_idx}, not from the single case')
        path = findings_mod.write_replay(pid, sig, case, detail, total.viol[sig]['count'])
        out_lines.append(f'VIOLATION property={pid} replay={path}')
        out_lines.append(f'  signature={sig} cases={total.viol[sig]["count"]} detail={json.dumps(detail, default=repr)[:300]}')
        exit_code = 1

    wall = time.time() - t0
    samples = total.samples
    if len(samples) > 6:
        k = seed % len(samples)
        samples = (samples[k:] + samples[:k])[:6]
    cov = {
        'states': total.states,
        'transitions': total.transitions,
        'traces_validated_against_impl': total.execs,
        'samples': samples,
        'exhaustive': exhaustive,
        'evaluations': total.execs,
        'distinct_nontrivial': total.nontrivial,
        'rule': mod.RULE,
        'bounds': jsonable(mod.bounds(tier)),
        'distinct_outcomes': len(total.outcomes),
        'outcome_histogram': dict(sorted(total.outcomes.items(), key=lambda kv: -kv[1])[:12]),
        'shards': len(shards),
        'shard_groups': n_shards,
        'workers': ncpu,
        'counters': total.extra,
        'known_findings_hit': [s for s, _ in known_hit],
        'violation_signatures': new_sigs,
        'repo': bind.REPO,
    }
    ev = {
        'property_id': pid,
        'tier': tier,
        'seed': seed,
        'level': 'model_checking',
        'coverage': cov,
        'assumptions': list(mod.ASSUMPTIONS),
        'wall_s': round(wall, 2),
        'violations': len(new_sigs),
    }
    try:
        evidence_mod.write(pid, ev)
    except Exception as e:
        print(f'ERROR {pid} evidence invalid: {e}')
        return 2
    for l in out_lines:
        print(l)
    print(f'{pid} tier={tier} seed={seed} states={total.states} transitions={total.transitions} '
          f'executions={total.execs} nontrivial={total.nontrivial} outcomes={len(total.outcomes)} '
          f'exhaustive={exhaustive} violations={len(new_sigs)} known={len(known_hit)} wall={wall:.1f}s')
    if total.states == 0 or total.execs == 0:
        print(f'ERROR {pid} vacuous run (no states explored)')
        return 2
    return exit_code


def do_replay(mod, path):
    with open(path) as f:
        rec = json.load(f)
    case = rec['case']
    if isinstance(case, dict) and case.get('history_dependent'):
        global _TIER
        _TIER = case['tier']
        groups = _groups(list(mod.shards(case['tier'])))
        acc = _rerun_shard(groups[case['shard_index']], case['shard_index'])
        sig = rec['signature']
        if acc is not None and sig in acc.viol:
            print(f'VIOLATION property={mod.ID} replay={os.path.abspath(path)}')
            print(f'  signature={sig} (history dependent, shard {case["shard_index"]}) cases={acc.viol[sig]["count"]}')
            return 1
        print(f'{mod.ID} replay: shard {case["shard_index"]} no longer reports {sig}')
        return 0
    res = mod.replay(case)
    if not res:
        print(f'{mod.ID} replay: no violation for {json.dumps(case, default=repr)[:300]}')
        return 0
    for sig, detail in res:
        print(f'VIOLATION property={mod.ID} replay={os.path.abspath(path)}')
        print(f'  signature={sig} detail={json.dumps(jsonable(detail), default=repr)[:600]}')
    return 1
