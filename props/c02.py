"""C02 - demultiplexed records contain exactly the bases the protocol layout prescribes.

Seam: `strategy.demultiplex([R1, R2], library=...)` of every strategy object the real
DemultiplexingStrategyLoader registers (shipped barcodes/ and indices/, CLI defaults).
Space: per strategy every read-length pair below the tier bound x 3 whitelisted barcodes planted at the
documented position, every 1-substitution of a barcode (Hamming expansion 1), the barcode planted 1-2
bases off its documented position, single-end input where the layout has no R2, and the content
classes the composite strategies branch on.  Reads are position-coded (oracles/c02_layout.py).
Oracle: the hand-written layout table + table-free window invariants (oracles/c02_layout.py).
"""
import os

from mc import bind
from oracles import c02_layout as L

ID = 'C02'
DESIGN_REF = 'DESIGN.md section 3, C02 and appendix A'
RULE = ('per registered strategy: all read-length pairs (l1,l2) within the tier bound x 3 whitelisted barcodes '
        '(first/middle/last of the shipped list) planted at the documented barcode position of position-coded '
        'reads (de-Bruijn bases with N, quality=f(mate,position) over phred 0..51); plus every single-base '
        'substitution (ACGTN) of one barcode with Hamming expansion 1, the barcode planted -2..+2 off position, '
        'single-end input, and the content classes of composite strategies (VASA barcode, poly-A/G/T, T7, TSO oligo). '
        'Further per strategy: variants 1..51 of the position code (shifted de-Bruijn window, quality code rotated so that '
        'every tag position sees every phred 0..51, an extra N walking over positions 0..19) at two length pairs; the '
        'option word probe in {None, True} x content in {plain, CATG@11, T@11, CA@11, scar primer @0/@4, a different '
        'whitelisted barcode on the other mate} x 3 barcodes x 4 length pairs; single-end and 3-read input for every '
        'strategy; every ordered strategy pair (A, B): A then B on the SAME record objects as the loader does, B judged '
        'against the original reads; loader configurations {CLI default, indexFileAlias=None, user barcode directory '
        'with a 10x and a DamID2_scattered_10bp list}.  Every emitted record is also observed in its written form '
        'record.asFastq(). A case is non-trivial when the pair is accepted and an emitted read is non-empty; states = distinct inputs')
ASSUMPTIONS = [
    'only accepted pairs are judged (acceptance itself belongs to C01/C03); a strategy whose whitelist is non-empty '
    'must accept at least one planted pair, otherwise the run stops as vacuous (exit 2)',
    'bases over ACGTN, qualities phred 0..51, reads of 0..150 nt, Illumina header with index',
    'CHROMC16U12: the shipped 10x whitelist is an emptied file in this snapshot, the strategy accepts nothing '
    '(reported in counters as vacuous, not a violation) in the shipped configuration; it and the DamID branch of '
    'DamID2andT_3u4b3u6b (whitelist DamID2_scattered_10bp not shipped) are exercised through a user barcode directory '
    '(demux.py -barcodeDir: the shipped files plus a 4-barcode 10x list and nine DamID2_scattered_8bp barcodes + GA that '
    'are >= 3 substitutions away from every CS2_scattered_8bp barcode, so that the two sub-layouts never both match)',
    'single-end or 3-read input to a strategy whose documented layout uses R2, and any input under probe=True, may be '
    'refused by ANY exception (the loader treats exceptions while probing as "not this protocol"; refusal of unusable '
    'input is C01/C03); such input is judged only when it is accepted. A 3-read input accepted by a barcode strategy '
    'is counted, not judged (no layout is documented for a third mate); the bulk strategy must return all mates unchanged',
    'weak rows (source = code comment, see oracles/c02_layout.py ROWS[..]["weak"]): DamID insert start / lh, '
    'width of lh, primer side where the description says "ends with" (either side accepted when rS equals the removed bases), '
    'poly-T stripping and VASA R2 trimming of the composite strategies',
]

_ST = {}        # (cfg, hd) -> {shortName: strategy}
_WL = {}
_NM = None
_XLISTS = {}    # alias -> {barcode: index}: the two lists of the user barcode directory (cfg 'xdir')
CFGS = {'std': (0, 1), 'noifa': (0,), 'xdir': (0, 1)}
XSHORT = ('CHROMC16U12', 'DamID2andT_3u4b3u6b')     # strategies whose whitelist only exists in the user directory
SCAR = 'CCTTGAACTTCTGGTTGTAG'                        # scartrace primer the probing branch looks for
TENX = ('AAACCCAAGAAACACT', 'CGATGGCTCAGGTTAC', 'GTCATTTGTCCAGTAT', 'TTTGTTGTCTTTGATC')   # pairwise >= 9 apart


def _wl(alias, cfg='std'):
    if cfg == 'xdir' and alias in _XLISTS:
        return _XLISTS[alias]
    if alias not in _WL:
        _WL[alias] = L.read_whitelist(bind.REPO, alias)
    return _WL[alias]


def _wlf(cfg):
    return lambda alias: _wl(alias, cfg)


def _make_xlists():
    """the two whitelists this snapshot does not ship, as a user would supply them in -barcodeDir"""
    _XLISTS['10x_3M-february-2018'] = {b: str(i + 1) for i, b in enumerate(TENX)}      # one barcode per line
    dam, cs = _wl('DamID2_scattered_8bp') or {}, _wl('CS2_scattered_8bp') or {}
    far = {b + 'GA': idx for b, idx in dam.items() if all(L.hamming(b, c) >= 3 for c in cs if len(c) == len(b))}
    _XLISTS['DamID2_scattered_10bp'] = far
    if len(far) < 3:
        raise bind.HarnessError('cannot derive a DamID2_scattered_10bp list that never collides with CS2_scattered_8bp')


def _make_xdir(shipped):
    import tempfile
    d = tempfile.mkdtemp(prefix='c02_bc_', dir='/dev/shm' if os.path.isdir('/dev/shm') else None)
    for f in sorted(os.listdir(shipped)):
        if f.startswith('10x_3M-february-2018') or f.startswith('DamID2_scattered_10bp'):
            continue
        os.symlink(os.path.join(shipped, f), os.path.join(d, f))
    with open(os.path.join(d, '10x_3M-february-2018.bc'), 'w') as f:
        f.write(''.join(b + '\n' for b in TENX))
    with open(os.path.join(d, 'DamID2_scattered_10bp.bc'), 'w') as f:
        f.write(''.join(f'{idx}\t{b}\n' for b, idx in _XLISTS['DamID2_scattered_10bp'].items()))
    return d


def setup():
    global _NM
    if _ST:
        return
    bad = L.table_selfcheck()
    if bad:
        raise bind.HarnessError(f'layout table inconsistent: {bad}')
    import shutil
    import singlecellmultiomics
    from singlecellmultiomics.barcodeFileParser.barcodeFileParser import BarcodeParser
    from singlecellmultiomics.modularDemultiplexer.demultiplexingStrategyLoader import DemultiplexingStrategyLoader
    from singlecellmultiomics.modularDemultiplexer.baseDemultiplexMethods import NonMultiplexable
    _NM = NonMultiplexable
    root = os.path.dirname(os.path.realpath(singlecellmultiomics.__file__))
    shipped = os.path.join(root, 'modularDemultiplexer/barcodes/')
    ip = BarcodeParser(barcodeDirectory=os.path.join(root, 'modularDemultiplexer/indices/'), hammingDistanceExpansion=1)
    _make_xlists()
    xdir = _make_xdir(shipped)
    try:
        for cfg, hds in CFGS.items():
            for hd in hds:
                # as demux.py builds them: -hd, -barcodeDir, -ifa
                bp = BarcodeParser(barcodeDirectory=xdir if cfg == 'xdir' else shipped,
                                   hammingDistanceExpansion=hd, lazyLoad=("10x_3M-february-2018",))
                if cfg == 'xdir':
                    bp['10x_3M-february-2018']      # resolve the lazily loaded list while the directory exists
                dmx = DemultiplexingStrategyLoader(barcodeParser=bp, indexParser=ip,
                                                   indexFileAlias=None if cfg == 'noifa' else 'illumina_merged_ThruPlex48S_RP')
                d = {}
                for s in dmx.demultiplexingStrategies:
                    if s.shortName in d:
                        raise bind.HarnessError(f'two registered strategies share shortName {s.shortName}')
                    d[s.shortName] = s
                _ST[(cfg, hd)] = d
    finally:
        shutil.rmtree(xdir, ignore_errors=True)
    missing = sorted(set(_ST[('std', 0)]) - set(L.ALL_SHORT))
    if missing:
        raise bind.HarnessError(f'registered strategies without a layout row: {missing}')
    gone = sorted(set(L.ALL_SHORT) - set(_ST[('std', 0)]))
    if gone:
        raise bind.HarnessError(f'layout rows without a registered strategy: {gone}')
    for a in {r['alias'] for r in L.ROWS.values()} | {'celseq2', 'maya_384NLA'}:
        _wl(a)


# ---------------------------------------------------------------------------------------------- space
def _sources(short):
    """[(label, alias, barcode segments)] : where a whitelisted barcode makes the strategy accept"""
    R = L.ROWS
    if short in R:
        return [('wl', R[short]['alias'], R[short]['bc'])]
    if short in ('TCHIC', 'CHICTV'):
        return [('wl', 'maya_384NLA', R['scCHIC384C8U3l']['bc'])]
    if short == 'DamAndT':
        return [('dam', 'DamID2', R['DamID2']['bc']), ('tx', 'celseq2', R['CS2C8U6']['bc'])]
    if short == 'DamID2andT_3u4b3u4b':
        return [('dam', 'DamID2_scattered_8bp', R['DamID2_3u4b3u6b']['bc']), ('tx', 'CS2_scattered_8bp', R['_SCA_TX']['bc'])]
    if short == 'DamID2andT_3u4b3u6b':
        return [('dam', 'DamID2_scattered_10bp', R['_SCA_DAM10']['bc']), ('tx', 'CS2_scattered_8bp', R['_SCA_TX']['bc'])]
    return []   # ILLU


def _plant_bc(barcode, segments, delta=0, only=None, mate=None):
    """write the barcode over its segments; delta moves all segments (or only segment `only`); mate overrides the mate"""
    out, i = [], 0
    for k, (m, s, e) in enumerate(segments):
        out.append([m if mate is None else mate, s + (delta if only in (None, k) else 0), barcode[i:i + (e - s)]])
        i += e - s
    return out


def _pick3(alias, cfg='std'):
    wl = _wl(alias, cfg)
    if not wl:
        return []
    keys = list(wl)
    idx = sorted({0, len(keys) // 2, len(keys) - 1})
    return [keys[i] for i in idx]


def _prefix(short):
    """documented prefix length P per mate (0-based mates)"""
    if short == 'ILLU':
        return [0, 0]
    p = [0, 0]
    rows = [L.ROWS[short]] if short in L.ROWS else {
        'TCHIC': [L.ROWS['scCHIC384C8U3l']], 'CHICTV': [L.ROWS['scCHIC384C8U3l']],
        'DamAndT': [L.ROWS['DamID2'], L.ROWS['CS2C8U6']],
        'DamID2andT_3u4b3u4b': [L.ROWS['_SCA_TX']], 'DamID2andT_3u4b3u6b': [L.ROWS['_SCA_DAM10']]}[short]
    for r in rows:
        for m, s, e in r['bc'] + r['umi'] + r['lig'] + [x for v in r['extra'].values() for x in v]:
            p[m] = max(p[m], e)
        if r['primer']:
            p[r['primer'][0]] = max(p[r['primer'][0]], r['primer'][1])
    if short == 'CHICTV':
        p[0] = 14 + len(L.TSO)
    return p


def _lengths(short, tier):
    p = _prefix(short)
    bcmate = 0
    src = _sources(short)
    if src:
        bcmate = src[0][2][0][0]
    if tier == 'quick':
        ls = [sorted(set(range(0, p[m] + 9)) | {100, L.READLEN - 1, L.READLEN}) for m in (0, 1)]
    else:
        ls = [None, None]
        ls[bcmate] = list(range(0, L.READLEN + 1))
        ls[1 - bcmate] = sorted(set(range(0, 49)) | {L.READLEN})
    return ls


def _base_plant(short):
    if short == 'CHICTV':
        return [[0, 14, L.TSO]]
    return []


def _se_mode(short):
    return L.ROWS[short]['single'] if short in L.ROWS else 'no'


def bounds(tier):
    return {
        'strategies': len(L.ALL_SHORT),
        'read_lengths': ('both mates 0..P+8, 100, 149, 150 (P = documented prefix of the mate)' if tier == 'quick' else
                         'barcode mate 0..150, other mate 0..48 and 150'),
        'barcodes_per_whitelist': 3, 'hamming_expansion': [0, 1],
        'substitution_alphabet': 'ACGTN at every barcode position of one barcode',
        'barcode_offsets': [-2, -1, 0, 1, 2], 'phred': '0..51', 'N_positions': list(L.N_POS),
        'content_classes': 'TCHIC 13, CHICTV 9, poly-T 6 per composite DamID strategy',
        'position_code_variants': f'(bases v, qualities q) in (v,v), (v,0), (0,q) for v, q in 1..{L.VARIANTS - 1} x length pairs {_var_lens("P", tier)}',
        'options': {'probe': ['absent (sweeps)', None, True], 'contents': [c for c, _ in _CONTENTS] + ['decoy'],
                    'length_pairs': _opt_lens('P', tier)},
        'mates': 'pairs; single-end input for every strategy; 3-read input for every strategy',
        'strategy_chains': f'{len(L.ALL_SHORT)} x {len(L.ALL_SHORT)} ordered pairs on shared record objects',
        'loader_configurations': {c: {'hamming_expansion': list(h)} for c, h in CFGS.items()},
        'user_barcode_directory': {'strategies': list(XSHORT), '10x': list(TENX),
                                   'DamID2_scattered_10bp': len(_XLISTS.get('DamID2_scattered_10bp', ()))},
        'observations': 'tags, .sequence, .qualities of every mate; lines 2 and 4 of record.asFastq()',
    }


def _var_lens(p, tier):
    if p == 'P':
        return ['150/150', 'P+2/P+2'] + (['P/P', 'P+1/P+1', '60/40'] if tier != 'quick' else [])
    out = [(L.READLEN, L.READLEN), (p[0] + 2, p[1] + 2)]
    if tier != 'quick':
        out += [(p[0], p[1]), (p[0] + 1, p[1] + 1), (60, 40)]
    return out


def _opt_lens(p, tier):
    if p == 'P':
        return ['150/150', 'P+3/P+3', 'P/P', '11/11', '30/0'] + (['P+1/P+1', '12/12', '13/0', '100/7'] if tier != 'quick' else [])
    out = [(L.READLEN, L.READLEN), (p[0] + 3, p[1] + 3), (p[0], p[1]), (11, 11), (30, 0)]
    if tier != 'quick':
        out += [(p[0] + 1, p[1] + 1), (12, 12), (13, 0), (100, 7)]
    return out


# content letters of the option shard: what the probing branches of the strategies look at (NlaIII site / ligated T /
# CA overhang after the barcode, scar primer at the start of R1 or behind its 4 nt random sequence)
# header written by an earlier demultiplexing round (another strategy, another cell): only tags every barcode strategy sets itself
TAGGED_HEADER = ('@Is:NS500414;RN:628;Fc:H7YVNBGXC;La:1;Ti:11101;CX:15963;CY:1046;Fi:N;CN:0;aa:ATCACG;aA:ATCACG;aI:1;LY:oldlib;'
                 'bi:383;bc:TTTTTTTTTT;MX:OLDSTRATEGY;BC:TTTTTTTTTT')
_CONTENTS = [('plain', []), ('CATG@11', [[0, 11, 'CATG']]), ('T@11', [[0, 11, 'T']]), ('CA@11', [[0, 11, 'CA']]),
             ('scar@0', [[0, 0, SCAR]]), ('scar@4', [[0, 4, SCAR]])]


def _std_shards(short, cfg):
    out = []
    src = _sources(short)
    if not src:
        out.append(('sweep', short, 'none', None, 0))
    for label, alias, _ in src:
        picks = _pick3(alias, cfg)
        if not picks:
            out.append(('sweep', short, label, None, 0))
        for j, _bc in enumerate(picks):
            out.append(('sweep', short, label, j, 0))
    out.append(('hd1', short))
    if _se_mode(short) != 'only':
        out.append(('se', short))
    if short in L.COMPOSITE and short != 'ILLU':
        out.append(('content', short))
    out += [('var', short), ('opt', short), ('three', short)]
    return out


def shards(tier):
    out = []
    for short in L.ALL_SHORT:
        out += _std_shards(short, 'std')
        out += [('chain', short), ('cfg', 'noifa', ('thin', short))]
    for short in XSHORT:
        out += [('cfg', 'xdir', sh) for sh in _std_shards(short, 'xdir')]
    return out


def _cases(shard, tier, cfg='std'):
    """yield (case dict, acceptable: a whitelisted barcode sits at a documented position and the reads are long enough)"""
    kind, short = shard[0], shard[1]
    base = _base_plant(short)
    se_only = _se_mode(short) == 'only'
    srcs = [(label, alias, sg, _pick3(alias, cfg)) for label, alias, sg in _sources(short)]
    if kind == 'sweep':
        _, _, label, j, hd = shard
        plant = list(base)
        acceptable = False
        if j is not None:
            for lab, alias, sg, picks in srcs:
                if lab == label:
                    plant = plant + _plant_bc(picks[j], sg)
                    acceptable = True
        ls = _lengths(short, tier)
        if j is not None:
            # the same barcode planted off its documented position: accepted only by code that reads the wrong bases
            p = _prefix(short)
            for lab, alias, sg, picks in srcs:
                if lab != label:
                    continue
                for only in [None] + (list(range(len(sg))) if len(sg) > 1 else []):
                    for delta in (-2, -1, 1, 2):
                        if min(s0 for _, s0, _ in sg) + delta < 0:
                            continue
                        for l1, l2 in ((L.READLEN, L.READLEN), (p[0] + 3, p[1] + 3)):
                            for h in (0, 1):
                                yield {'s': short, 'hd': h, 'plant': base + _plant_bc(picks[j], sg, delta, only),
                                       'l1': l1, 'l2': None if se_only else l2, 'cls': f'{label}/shift'}, False
        if se_only:
            # the layout has no R2: the sweep is single-end, pairs are only shown to be refused
            for l1 in ls[0]:
                yield {'s': short, 'hd': hd, 'plant': plant, 'l1': l1, 'l2': None, 'cls': label}, acceptable
            for l2 in (0, 20):
                yield {'s': short, 'hd': hd, 'plant': plant, 'l1': L.READLEN, 'l2': l2, 'cls': label + '/pair'}, False
            return
        for l1 in ls[0]:
            for l2 in ls[1]:
                yield {'s': short, 'hd': hd, 'plant': plant, 'l1': l1, 'l2': l2, 'cls': label}, acceptable
    elif kind == 'hd1':
        p = _prefix(short)
        lens = [(L.READLEN, L.READLEN), (p[0], p[1]), (p[0] + 1, 7)]
        if tier == 'thorough':
            lens += [(p[0] + 20, p[1] + 20), (60, 0), (0, 60), (p[0] - 1 if p[0] else 0, p[1] - 1 if p[1] else 0)]
        for label, alias, sg, picks in srcs:
            if not picks:
                continue
            for bc in (picks[:1] if tier == 'quick' else picks):
                for pos in range(len(bc)):
                    for c in 'ACGTN':
                        if c == bc[pos]:
                            continue
                        mut = bc[:pos] + c + bc[pos + 1:]
                        for l1, l2 in lens:
                            yield {'s': short, 'hd': 1, 'plant': base + _plant_bc(mut, sg), 'l1': l1,
                                   'l2': None if se_only else l2, 'cls': label + '/sub'}, False
    elif kind == 'se':
        # single-end input. Layouts that do not involve R2 ('ok'): judged, exceptions are violations. Layouts that
        # document something on R2 and the composite strategies: may refuse in any way, judged when accepted.
        lenient = _se_mode(short) != 'ok'
        l1s = range(0, L.READLEN + 1) if tier == 'thorough' else sorted(set(range(0, _prefix(short)[0] + 9)) | {L.READLEN})
        for label, alias, sg, picks in srcs or [('none', None, [], [])]:
            for bc in picks or [None]:
                plant = base + (_plant_bc(bc, sg) if bc else [])
                for l1 in l1s:
                    c = {'s': short, 'hd': 0, 'plant': plant, 'l1': l1, 'l2': None, 'cls': label + '/se'}
                    if lenient:
                        c['xr'] = True
                    yield c, bc is not None and not lenient
    elif kind == 'content':
        yield from _content_cases(short, tier, cfg)
    elif kind == 'var':
        p = _prefix(short)
        for label, alias, sg, picks in srcs or [('none', None, [], [None])]:
            if not picks:
                continue
            plant = base + (_plant_bc(picks[0], sg) if picks[0] else [])
            # other bases AND qualities, then the same qualities under other bases, then the SAME bases under other qualities
            for fam, vq in (('var', [(v, v) for v in range(1, L.VARIANTS)]), ('var-bases', [(v, 0) for v in range(1, L.VARIANTS)]),
                            ('var-quals', [(0, q) for q in range(1, L.VARIANTS)])):
                for v, q in vq:
                    for l1, l2 in _var_lens(p, tier):
                        yield {'s': short, 'hd': 0, 'plant': plant, 'l1': l1, 'l2': None if se_only else l2, 'v': v, 'q': q,
                               'cls': f'{label}/{fam}'}, picks[0] is not None and l1 == L.READLEN
    elif kind == 'opt':
        p = _prefix(short)
        for label, alias, sg, picks in srcs or [('none', None, [], [None])]:
            if not picks:
                continue
            contents = list(_CONTENTS)
            for j, bc in enumerate(picks):
                cs = list(contents)
                if bc is not None and not se_only and len(picks) > 1:
                    # a DIFFERENT whitelisted barcode at the same coordinates of the other mate
                    other = 1 - sg[0][0]
                    cs.append(('decoy', _plant_bc(picks[(j + 1) % len(picks)], sg, mate=other)))
                for cname, cplant in cs:
                    plant = cplant + base + (_plant_bc(bc, sg) if bc else [])
                    for probe in (None, True):
                        for l1, l2 in _opt_lens(p, tier):
                            yield {'s': short, 'hd': 0, 'plant': plant, 'l1': l1, 'l2': None if se_only else l2,
                                   'probe': probe, 'cls': f'{label}/opt:probe={probe}:{cname}'}, \
                                bc is not None and probe is None and l1 == L.READLEN
                            if cname == 'plain' and probe is None:
                                # a second demultiplexing round: the input header is the k:v header of an earlier round and
                                # carries that round's barcode / cell / strategy tags, which are NOT what these reads hold
                                yield {'s': short, 'hd': 0, 'plant': plant, 'l1': l1, 'l2': None if se_only else l2,
                                       'probe': probe, 'hdr': 'tagged', 'cls': f'{label}/opt:already-demultiplexed-header'}, \
                                    bc is not None and l1 == L.READLEN
    elif kind == 'three':
        p = _prefix(short)
        for label, alias, sg, picks in srcs or [('none', None, [], [None])]:
            if not picks:
                continue
            plant = base + (_plant_bc(picks[0], sg) if picks[0] else [])
            for l1, l2, l3 in ((L.READLEN,) * 3, (20, 20, 20), (p[0] + 1, p[1] + 1, 0), (L.READLEN, L.READLEN, 8)):
                yield {'s': short, 'hd': 0, 'plant': plant, 'l1': l1, 'l2': l2, 'l3': l3, 'cls': label + '/3reads'}, False
    elif kind == 'chain':
        # the loader hands the SAME record objects to every selected strategy in turn (-use A,B / autodetection):
        # what B emits is judged against the reads as they came from the file, whatever A did before
        p = _prefix(short)
        for label, alias, sg, picks in srcs or [('none', None, [], [None])]:
            if not picks:
                continue
            mine = base + (_plant_bc(picks[0], sg) if picks[0] else [])
            for pre in L.ALL_SHORT:
                theirs = []
                for _, a2, sg2 in _sources(pre)[:1]:
                    pk = _pick3(a2, cfg)
                    if pk:
                        theirs = _base_plant(pre) + _plant_bc(pk[0], sg2)
                for l1, l2 in ((L.READLEN, L.READLEN), (p[0] + 3, p[1] + 3)):
                    yield {'s': short, 'hd': 0, 'plant': theirs + mine, 'l1': l1, 'l2': None if se_only else l2,
                           'pre': pre, 'probe': None, 'cls': label + '/chain'}, picks[0] is not None and l1 == L.READLEN
    elif kind == 'thin':
        p = _prefix(short)
        for label, alias, sg, picks in srcs or [('none', None, [], [None])]:
            for bc in picks:
                plant = base + (_plant_bc(bc, sg) if bc else [])
                for l1, l2 in ((L.READLEN, L.READLEN), (p[0] + 1, p[1] + 1)):
                    yield {'s': short, 'hd': 0, 'plant': plant, 'l1': l1, 'l2': None if se_only else l2,
                           'cls': label + '/thin'}, bc is not None and l1 == L.READLEN


def _content_cases(short, tier, cfg='std'):
    if short == 'TCHIC':
        chic, cs2 = _wl('maya_384NLA'), _wl('celseq2')
        bc = _pick3('maya_384NLA')[0]
        by_index = {v: k for k, v in cs2.items()}
        vasa = by_index[chic[bc]] + 'TTTTT'
        other = by_index[chic[_pick3('maya_384NLA')[1]]] + 'TTTTT'
        b = _plant_bc(bc, L.ROWS['scCHIC384C8U3l']['bc'])
        v1 = [[0, 30, vasa]]
        classes = [
            ('vasa-r1', b + v1), ('vasa-r1-at-insert-start', b + [[0, 12, vasa]]), ('vasa-r1-2-bases-in', b + [[0, 14, vasa]]),
            ('vasa-r2-rc', b + [[1, 40, L.revcomp(vasa)]]),
            ('vasa+polyA', b + v1 + [[1, 60, 'A' * 12]]), ('vasa+polyG', b + v1 + [[1, 80, 'G' * 15]]),
            ('vasa+polyG-before-polyA', b + v1 + [[1, 100, 'A' * 10], [1, 50, 'G' * 10]]),
            ('vasa+trailing-AG', b + v1 + [[1, 64, 'GAGAAG']]),
            ('polyT23', b + [[0, 40, 'T' * 23]]),
            ('t7-a', b + [[0, 15, L.T7[0]]]), ('t7-b-beyond-30', b + [[0, 45, L.T7[1]]]), ('t7-c', b + [[0, 80, L.T7[2]]]),
            ('vasa-of-other-cell', b + [[0, 30, other]]),
        ]
        l1s = (25, 42, 43, 150) if tier == 'quick' else (13, 25, 26, 42, 43, 44, 60, 100, 150)
        l2s = (0, 2, 3, 4, 45, 53, 70, 72, 95, 150) if tier == 'quick' else (0, 2, 3, 4, 45, 52, 53, 54, 60, 69, 70, 71, 72, 73, 80, 95, 96, 110, 150)
        for name, plant in classes:
            for l1 in l1s:
                for l2 in l2s:
                    yield {'s': short, 'hd': 0, 'plant': plant, 'l1': l1, 'l2': l2, 'cls': name}, False
    elif short == 'CHICTV':
        bc = _pick3('maya_384NLA')[0]
        b = _plant_bc(bc, L.ROWS['scCHIC384C8U3l']['bc'])
        classes = [('tso@12', [[0, 12, L.TSO]] + b), ('tso@13', [[0, 13, L.TSO]] + b), ('tso@18', [[0, 18, L.TSO]] + b),
                   ('tso@40', [[0, 40, L.TSO]] + b), ('tso@20+60', [[0, 20, L.TSO], [0, 60, L.TSO]] + b),
                   ('tso@8-straddles-insert-start', b + [[0, 8, L.TSO]]), ('tso@141', [[0, 141, L.TSO]] + b),
                   # the oligo starts on the ligation base: it is in R1 but not (completely) in the insert
                   ('tso@11-starts-before-the-insert', b + [[0, 11, L.TSO]]),
                   ('tso@11+50', b + [[0, 11, L.TSO], [0, 50, L.TSO]])]
        for name, plant in classes:
            for l1 in range(0, L.READLEN + 1):
                for l2 in (0, L.READLEN) if tier == 'quick' else (0, 1, 7, L.READLEN):
                    yield {'s': short, 'hd': 0, 'plant': plant, 'l1': l1, 'l2': l2, 'cls': name}, False
    else:
        for label, alias, sg in _sources(short):
            picks = _pick3(alias, cfg)
            if not picks:
                continue
            b = _plant_bc(picks[0], sg)
            start = max(e for _, _, e in sg)
            for k in (1, 2, 5, 30, L.READLEN):
                plant = b + [[0, start, 'T' * k]]
                for l1 in range(0, L.READLEN + 1):
                    for l2 in (0, 6, L.READLEN) if tier == 'quick' else (0, 5, 6, 7, L.READLEN):
                        yield {'s': short, 'hd': 0, 'plant': plant, 'l1': l1, 'l2': l2, 'cls': f'{label}/polyT{k}'}, False
        if short == 'DamAndT':
            # a pair both sub-layouts accept, when the shipped lists allow one
            dam, cs2 = _wl('DamID2'), _wl('celseq2')
            found = None
            for d in dam:
                for c in cs2:
                    if d[3:10] == c[0:7]:
                        found = (d, c)
                        break
                if found:
                    break
            if found:
                d, c = found
                plant = [[0, 3, d], [0, 6, c]]
                for l1 in range(0, 40):
                    for l2 in (0, 6, 20):
                        yield {'s': short, 'hd': 0, 'plant': plant, 'l1': l1, 'l2': l2, 'cls': 'both'}, False


# ---------------------------------------------------------------------------------------------- execution
def _records(case):
    from singlecellmultiomics.fastqProcessing.fastqIterator import FastqRecord
    l2 = case['l2']
    raw = L.build_reads(case['plant'], case['l1'], l2 if l2 is not None else 0, case.get('v', 0), case.get('l3'), case.get('q'))
    if l2 is None:
        raw = raw[:1]
    if case.get('hdr') == 'tagged':
        raw = [(TAGGED_HEADER,) + tuple(r[1:]) for r in raw]
    return raw, tuple(FastqRecord(*r) for r in raw)      # FastqIterator hands out a tuple of named tuples


def _run(case):
    """-> (status, violations, note); status in accepted/rejected/exception/refused-by-exception/accepted-unjudged"""
    short = case['s']
    cfg = case.get('cfg', 'std')
    strat = _ST[(cfg, case['hd'])][short]
    raw, recs = _records(case)
    kw = {'library': 'LIB'}
    if 'probe' in case:
        kw['probe'] = case['probe']        # the loader always passes the keyword (None outside autodetection)
    pre = ''
    if 'pre' in case:
        # an earlier strategy of the loader's list saw the same record objects first; its own outcome is not judged here
        try:
            _ST[(cfg, case['hd'])][case['pre']].demultiplex(recs, **kw)
            pre = 'pre-accepted:'
        except Exception:      # noqa
            pre = 'pre-refused:'
    try:
        res = strat.demultiplex(recs, **kw)
    except _NM:
        return 'rejected', [], pre
    except Exception as ex:      # noqa
        if case.get('xr') or case.get('probe') is True or len(raw) == 3:
            return 'refused-by-exception', [], pre + type(ex).__name__
        return 'exception', [(f'{short}:exception:{type(ex).__name__}', repr(ex))], ''
    out, written = [], []
    try:
        for r in res:
            if isinstance(r, str):
                out.append(r)
                written.append(None)
            else:
                out.append((dict(r.tags), r.sequence, r.qualities))
                try:
                    w = r.asFastq().split('\n')   # the record as it is written to the demultiplexed fastq file
                    written.append((w[1], w[3]) if len(w) >= 4 else ('<no sequence line>', '<no quality line>'))
                except Exception:      # noqa   (a record that refuses to be written belongs to C04)
                    written.append(None)
    except Exception as ex:      # noqa
        return 'exception', [(f'{short}:result-not-a-list-of-records:{type(ex).__name__}', repr(ex))], ''
    if len(raw) != 2 and short != 'ILLU' and (len(raw) == 3 or short in L.COMPOSITE):
        return 'accepted-unjudged', [], pre + f'{len(raw)}-reads'
    wlf = _wlf(cfg)
    exp = L.expected(short, raw, wlf, case['hd'])
    note = pre + (exp[0].get('note', short) if exp else 'no-layout')
    v = L.compare(short, raw, out, exp, wlf, case['hd'])
    for mate, (o, w) in enumerate(zip(out, written)):
        if w is not None and (w[0] != o[1] or w[1] != o[2]):
            v.append((f'written-R{mate + 1}-sequence-or-qualities-differ-from-the-record',
                      {'record': [o[1][:30], o[2][:30]], 'written': [w[0][:30], w[1][:30]]}))
    return 'accepted', [(f'{short}:{c}', {'clause': c, 'detail': d, 'R1': raw[0][1][:40], 'R2': raw[1][1][:40] if len(raw) > 1 else None})
                        for c, d in v], note


def run_shard(shard, tier, acc):
    setup()
    cfg = 'std'
    if shard[0] == 'cfg':
        _, cfg, shard = shard
    short = shard[1]
    n_acceptable = n_accepted_of_those = 0
    for case, acceptable in _cases(shard, tier, cfg):
        if cfg != 'std':
            case['cfg'] = cfg
        status, viols, note = _run(case)
        emitted = status == 'accepted'
        lab = f"{short}:{case['cls']}" if cfg == 'std' else f"{cfg}:{short}:{case['cls']}"
        acc.case(case, transitions=2 if 'pre' in case else 1,
                 nontrivial=emitted and (case['l1'] > 0 or (case['l2'] or 0) > 0),
                 outcome=f"{lab}:{note}:{status}")
        acc.count(f'{status}:{short}')
        if acceptable and case['l1'] == L.READLEN and case['l2'] in (None, L.READLEN):
            n_acceptable += 1
            n_accepted_of_those += emitted
        for sig, d in viols:
            acc.violation(sig, case, d)
    if shard[0] == 'hd1' and cfg == 'std':
        for r in ([L.ROWS[short]] if short in L.ROWS else []):
            if r['weak'] or r['src'] != 'D':
                acc.count(f"weak-row:{short}:src={r['src']}:{r['weak']}")
        if short in L.COMPOSITE:
            acc.count(f'weak-row:{short}:composite:{L.COMPOSITE[short]}')
    if shard[0] == 'sweep' and shard[3] is None and short != 'ILLU':
        alias = [a for lab, a, _ in _sources(short) if lab == shard[2]][0]
        acc.count(f'vacuous:{cfg}:{short}:whitelist {alias} is empty or not shipped')
    if shard[0] in ('sweep', 'var', 'opt', 'chain', 'thin', 'se') and n_acceptable and not n_accepted_of_those and not acc.viol:
        raise bind.HarnessError(f'{short}: none of {n_acceptable} full-length inputs carrying a whitelisted barcode at the '
                                f'documented position was accepted; the check would be vacuous for this strategy ({cfg}, {shard})')


def replay(case):
    setup()
    return _run(case)[1]
