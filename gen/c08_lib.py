"""C08 helpers: libraries other than the main boundary library, reference FASTA files for the methods which need one,
and a free-running (real multiprocessing.Pool) entry point for the region-tiling API.

Everything is deterministic; nothing is sampled.
"""
import os
import sys

import pysam

from gen.bam import Builder
from gen.reads import debruijn_like

# scartrace fragments have no cut site (no get_site_location): the tiling of the property is not defined for them,
# they are run contig-per-process only.
METHODS = {
    # method: (library layout, needs -ref, region tiling defined, needs -exons)
    'nla': ('nla', False, True, False),
    'chic': ('chic', False, True, False),
    'qflag': ('nla', False, True, False),
    'nla_no_overhang': ('noov', True, True, False),
    'nla_taps': ('nla', True, True, False),
    'chic_taps': ('chic', True, True, False),
    'nla_transcriptome': ('nla', False, True, True),
    'scartrace': ('nla', False, False, False),
}


def write_gtf(path, contigs, boundaries):
    """an exon just behind and one just before every bin boundary: a molecule owned by one bin reaches into an exon which
    lies completely inside the neighbouring bin (GTF coordinates are 1-based, inclusive)"""
    with open(path, 'w') as f:
        for c, length in contigs:
            for i, B in enumerate(sorted(boundaries.get(c, ()))):
                for k, (s, e) in enumerate(((B + 10, B + 40), (B - 40, B - 10))):
                    if s < 1 or e > length:
                        continue
                    f.write(f'{c}\tc08\texon\t{s}\t{e}\t.\t+\t.\tgene_id "G_{c}_{i}_{k}"; exon_id "E_{c}_{i}_{k}"; '
                            f'transcript_id "T_{c}_{i}_{k}";\n')
    return path


_BG = {}


def background(n):
    if n not in _BG:
        _BG[n] = debruijn_like(n, avoid=('CATG',))
    return _BG[n]


def write_ref(path, contigs, sites=None):
    """FASTA + .fai: a CATG-free background with CATG written at sites[contig] (sites at least 12 apart)"""
    with open(path, 'w') as f:
        for c, length in contigs:
            s = list(background(length))
            for p in sorted((sites or {}).get(c, ())):
                s[p:p + 4] = 'CATG'
            s = ''.join(s[:length])
            f.write(f'>{c}\n')
            for i in range(0, length, 60):
                f.write(s[i:i + 60] + '\n')
    pysam.faidx(path)
    return path


def noov_sites(contigs, boundaries):
    """cut sites for the no-overhang library: one per bin boundary B at B-1, B, B+1 in turn (a reference cannot hold
    overlapping CATGs), plus one near each contig end; sites closer than 12 to an earlier one are skipped"""
    out = {}
    k = 0
    for c, length in contigs:
        chosen = []
        cands = [12] + [B + (-1, 0, 1)[(k + i) % 3] for i, B in enumerate(sorted(boundaries.get(c, ())))] + [length - 12]
        k += 1
        for s in cands:
            if s < 4 or s + 8 > length:
                continue
            if any(abs(s - t) < 12 for t in chosen):
                continue
            chosen.append(s)
        out[c] = chosen
    return out


def build_noov(path, contigs, sites, maxfrag, extra_contigs=()):
    """NlaIII library WITHOUT the CATG in the reads: the site lies 4..7 bases outside the fragment (reference lookup).
    Forward R1 starts at site+4+off, reverse R1 ends at site-off (off 0..3, cyclic); (site .. far end) <= maxfrag."""
    b = Builder(list(contigs) + list(extra_contigs))
    umis = ['AAA', 'ACG', 'CCT', 'GTA', 'TTC']
    kw = dict(method='nla', mx='NLAIII384C8U3', motif='ACTT')
    k = 0
    for c, length in contigs:
        for s in sites[c]:
            for reverse in (False, True):
                k += 1
                off = k % 4
                frag = maxfrag - 8
                # Builder.pair(nla): forward R1 starts at `site`, reverse R1 ends at `site`+4
                anchor = s + 4 + off if not reverse else s - off - 4
                lo = anchor if not reverse else anchor + 4 - frag
                hi = anchor + frag if not reverse else anchor + 4
                if lo < 0 or hi > length:
                    continue
                umi = umis[k % len(umis)]
                for j in range(1 + k % 2):
                    b.pair(c, anchor, cell=1, umi=umi, reverse=reverse, frag=[frag, frag - 10][j], **kw)
                if k % 3 == 0:
                    b.pair(c, anchor, cell=2, umi=umi, reverse=reverse, frag=frag - 5, **kw)
        # a fragment with no CATG in reach (reject)
        b.pair(c, 60, cell=1, umi='GGG', frag=40, **kw)
    for ci, (c, length) in enumerate(extra_contigs):
        b.pair(c, 1000 + ci, cell=1, umi='AAA', **kw)
        b.pair(c, length - 500, cell=2, umi='CGT', reverse=True, **kw)
    b.unmapped_pair()
    b.write(path)


def pair_short_mate(b, contig, site, base, reverse, dist, cell, umi, mx):
    """a proper pair whose R2 aligns with ONE base only (the rest is soft-clipped), that base being the far end of the
    fragment, `dist` bases from the cut site: the job owning the site sees R2 only if its fetch margin is really >= dist"""
    from gen.bam import _mk, base_tags
    from gen.reads import revcomp
    rl = b.rlen
    name = b._name('m')
    tags = base_tags(cell, umi, mx=mx)
    seq1 = b.seq_nla(b.n, 'CATG')
    s2 = background(400)[150:150 + rl]
    if base == 'chic':
        start_f, end_r = site + 2, site - 1
    else:
        start_f, end_r = site, site + 4
    if not reverse:
        p1, s1, rev1 = start_f, seq1, False
        p2, cig2 = site + dist - 1, f'{rl - 1}S1M'          # last base of the fragment = site+dist-1
    else:
        p1, s1, rev1 = end_r - rl, revcomp(seq1), True
        p2, cig2 = site - dist, f'1M{rl - 1}S'              # first base of the fragment = site-dist
    rev2 = not rev1
    f1 = 0x1 | 0x2 | 0x40 | (0x10 if rev1 else 0) | (0x20 if rev2 else 0)
    f2 = 0x1 | 0x2 | 0x80 | (0x10 if rev2 else 0) | (0x20 if rev1 else 0)
    b.reads.append(_mk(b.h, name, s1, f1, contig, p1, f'{rl}M', contig, p2, tags))
    b.reads.append(_mk(b.h, name, s2, f2, contig, p2, cig2, contig, p1, tags))
    return name


def build_kind(path, kind, contigs, base, boundaries, maxfrag):
    """the small libraries of the `lib` dimension"""
    mx = 'scCHIC384C8U3' if base == 'chic' else 'NLAIII384C8U3'
    kw = dict(method=base, mx=mx)
    b = Builder(contigs)

    def fits(contig_len, site, reverse, frag):
        if base == 'chic':
            lo, hi = (site + 2, site + 2 + frag) if not reverse else (site - 1 - frag, site - 1)
        else:
            lo, hi = (site, site + frag) if not reverse else (site + 4 - frag, site + 4)
        return lo >= 0 and hi <= contig_len and 0 <= site < contig_len

    if kind == 'empty':
        pass
    elif kind == 'only_unmapped':
        b.unmapped_pair()
    elif kind == 'one_molecule':
        # a single molecule in the whole file: its job writes exactly one molecule, every other job nothing
        b.pair(contigs[1][0], 100, cell=1, umi='ACG', frag=50, **kw)
    elif kind in ('one_contig', 'no_unmapped'):
        # one_contig: molecules on the middle contig only (+ unmapped, + placed unmapped reads alone on the last); no_unmapped: all contigs, the `*` job finds nothing
        for c, length in contigs:
            if kind == 'one_contig' and c != contigs[1][0]:
                continue
            k = 0
            for B in sorted(boundaries[c]):
                for d in (-1, 0, 1):
                    for reverse in (False, True):
                        if fits(length, B + d, reverse, 50):
                            k += 1
                            b.pair(c, B + d, cell=1 + k % 2, umi=['AAA', 'CGT'][k % 2], reverse=reverse, frag=50, **kw)
                            if k % 3 == 0:
                                b.pair(c, B + d, cell=1 + k % 2, umi=['AAA', 'CGT'][k % 2], reverse=reverse, frag=40, **kw)
        if kind == 'one_contig':
            b.unmapped_pair()
            # the last contig holds nothing but unmapped reads placed on it (index statistics: 0 mapped, 2 unmapped)
            c, length = contigs[-1]
            b.placed_unmapped_orphan(c, 10, cell=1, umi='AAA')
            b.placed_unmapped_orphan(c, length // 2, cell=2, umi='CGT', read2=False)
    elif kind == 'odd':
        # unusual but legal fragments on, before and after every boundary, both strands:
        #  x: mates on different contigs, u: mate unmapped, r: only R1 in the file, s: single-end read,
        #  o: unmapped read placed next to a mate which is not in the file (R1 / R2), m: mate aligned with a single base
        names = [c for c, _ in contigs]
        k = 0
        for ci, (c, length) in enumerate(contigs):
            other = names[(ci + 1) % len(names)]
            for B in sorted(boundaries[c]):
                for d in (-1, 0, 1):
                    site = B + d
                    for reverse in (False, True):
                        if not fits(length, site, reverse, maxfrag):
                            continue
                        k += 1
                        umi = ['AAA', 'CGT', 'TTC'][k % 3]
                        b.pair(c, site, cell=1, umi=umi, reverse=reverse, frag=50, **kw)          # an ordinary neighbour
                        b.pair(c, site, cell=2, umi=umi, reverse=reverse, r2_contig=other, r2_pos=40 + (k % 5) * 20, **kw)
                        b.pair(c, site, cell=3, umi=umi, reverse=reverse, r2_unmapped=True, **kw)
                        b.pair(c, site, cell=4, umi=umi, reverse=reverse, r1_only_in_file=True, frag=45, **kw)
                        b.single(c, site, cell=5, umi=umi, reverse=reverse, method=base)
                        if not reverse and 0 <= site < length:
                            b.placed_unmapped_orphan(c, site, cell=6, umi=umi, read2=bool(k % 2))
                        # m: the mate aligns with one base only, as far from the site as a fragment of the longest length
                        # reaches (nla reverse: the site lies 4 inside the fragment)
                        dist = maxfrag if (base == 'chic' or not reverse) else maxfrag - 4
                        if (not reverse and site + dist <= length) or (reverse and site - dist >= 0):
                            pair_short_mate(b, c, site, base, reverse, dist, cell=7, umi=umi, mx=mx)
        b.unmapped_pair()
    else:
        raise ValueError(kind)
    b.write(path)


# ----------------------------------------------------------------------------------------------
# free-running region tiling (real multiprocessing.Pool) in a fresh interpreter:
#   python -m gen.c08_lib <bin> <margin> <job> <tagger argv ...>
# ----------------------------------------------------------------------------------------------

def _main(argv):
    from mc import bind, tagger
    bind.bind()
    b, f, j = int(argv[0]), int(argv[1]), int(argv[2])
    tm = tagger.tagger_module()
    real = tm.tag_multiome_multi_processing

    def wrapper(**kw):
        kw.update(one_contig_per_process=False, bp_per_segment=b, fragment_size=f, bp_per_job=j, use_pool=True)
        return real(**kw)
    tm.tag_multiome_multi_processing = wrapper
    exc, _ = tagger.run_tagger(argv[3:], real_pool=True)
    if exc is not None:
        sys.stderr.write(f'{type(exc).__name__}: {exc}\n')
        return 1
    return 0


def run_tiling_subprocess(b, f, j, argv, timeout=600):
    """None on success, else an error string"""
    import subprocess
    verif = os.path.dirname(os.path.dirname(os.path.abspath(__file__)))
    p = subprocess.run([sys.executable, '-m', 'gen.c08_lib', str(b), str(f), str(j)] + list(argv), cwd=verif,
                       stdout=subprocess.DEVNULL, stderr=subprocess.PIPE, timeout=timeout)
    if p.returncode != 0:
        return f'exit {p.returncode}: {p.stderr.decode(errors="replace")[-400:]}'
    return None


if __name__ == '__main__':
    sys.exit(_main(sys.argv[1:]))
