"""MANIFEST.setup_cmd: nothing to build (pure Python); verify the binding and the tool chain offline."""
import json
import os
import sys

from . import bind


def main():
    m = bind.bind()
    import pysam, numpy, pandas, jsonschema  # noqa
    verif = os.path.dirname(os.path.dirname(os.path.abspath(__file__)))
    for d in ('evidence', 'replays'):
        os.makedirs(os.path.join(verif, d), exist_ok=True)
    man = json.load(open(os.path.join(verif, 'MANIFEST.json')))
    schema = json.load(open(os.path.join(verif, 'schemas', 'MANIFEST.schema.json')))
    jsonschema.validate(man, schema)
    print('setup ok: singlecellmultiomics from', os.path.dirname(m.__file__), '| checks:', len(man['checks']))


if __name__ == '__main__':
    try:
        main()
    except Exception as e:
        print('setup FAILED:', e)
        sys.exit(1)
