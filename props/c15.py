"""C15 - consensus pseudo-reads are well-formed and span exactly the molecule coverage.

Seams (all on in-memory pysam.AlignedSegment reads with MD tags, a real pysam.FastaFile reference):
  * Molecule.deduplicate_majority(target_bam, name, max_N_span)            (api 'dedup')
  * Molecule.write_pysam(file, consensus=True, no_source_reads=..)         (api 'write_pysam', records read back)
  * universalBamTagger.tagging.run_tagging_task(.., consensus_mode='majority')  - the function the
    `bamtagmultiome --consensus --multiprocess` workers execute - fed by a real MoleculeIterator (api 'tagging')
  * the real command line `bamtagmultiome -method nla|chic --consensus --multiprocess [--no_source_reads]` run as a
    subprocess on a BAM that holds a whole batch of molecules (forward ones on chr1, reverse ones on chr2, one
    cell per molecule); only its pure delay `sleep(5)` is replaced by a no-op                  (api 'cli')
for NlaIII and CHIC molecules (site bearing, what the command line uses) and, as its own call-site class,
the plain Molecule/Fragment classes.

Space: every multiset of <= K fragment letters; a letter = (mate gap, variant, R1 length): mate gap in
{single-end, overlap, adjacent, small gaps, gap == max_N_span, gaps > max_N_span}, variant in {clean, R1 carries
a mismatch at q30 / q10 (inside the mate overlap when there is one), R2 carries a mismatch behind the gap};
x molecule strand x class x max_N_span in {None, 5} x api x with / without source reads.
Further letters (words of <= 2 letters in the quick tier): a fragment whose R2 is UNMAPPED (flag 4, placed at its mate, no
CIGAR), R1 with a one-base deletion (a covered block of exactly one position / a hole of exactly one base), R1 soft
clipped at its far end (leading clip on the reverse strand).  Solo letters (one-fragment molecules, every api incl. the
command line): R1 UNMAPPED + R2 mapped - a molecule with a mapped fragment but without a strand (the plain classes also
group 2-3 such fragments) -, and two mapped pairs a site-bearing class rejects (R1 off the CATG, mates on the same strand):
the molecule iterator hands rejected fragments out as molecules and the tagger requests their consensus unless
--no_rejects is given.  write_pysam's consensus_read_callback option (without / with kwargs) on all one-letter words.
Nothing is demanded about the strand flag or the DS tag of a molecule without strand / site.
Placement (audit wave 4): every word above also on a contig that IS the stretch [first CATG .. last CATG] (chr3 / chr4 of the
reference file): forward molecules cover reference coordinate 0, reverse molecules the last base of the contig - all classes,
all apis incl. the command line (quick: words of <= 2 letters, thinner configurations for two letters; thorough: everything).
Insertion orders (audit wave 4): the words are multisets enumerated simplest letter first; additionally both orders of every
two-fragment word (thorough: all distinct orders of three-fragment words) and, with a SECOND alternative base at the mismatch
position (q10 / q20 / q30), every ordered word of 2..3 conflict letters that observes one position with three different bases
(the two errors first and the true base last, ...), through deduplicate_majority, write_pysam, the tagger and the command line.

Oracle (from the property text): union of aligned blocks == union of read coverage (records disjoint);
len(seq) == len(qual) == query length of the CIGAR; reference rebuilt from MD == true reference on the aligned
blocks (the reference FILE is partly lower case; no MD letter where the record carries that very base); per position the model-independent consequences of "most likely call": unanimous => that base,
symmetric evidence => N, strictly dominating evidence => that base; SM / RX / DS / TF / TR tags.
"""
import atexit
import itertools
import os
import re
import shutil
import tempfile

from mc.bind import HarnessError
from gen import c13_reads as G
from gen import c15_reads as H

ID = 'C15'
DESIGN_REF = 'DESIGN.md section 3, C15'
RULE = ('every multiset of <= K fragment letters (mate gap x variant x R1 length; variants include an unmapped R2, a '
        'deletion and a soft clip in R1) x strand x placement on the contig (interior / first base = coordinate 0 resp. last '
        'base = end of the contig; quick: words of <= 2 letters there) x molecule class x '
        'max_N_span x api (deduplicate_majority / write_pysam read back [+ consensus_read_callback] / run_tagging_task '
        'consensus_mode=majority) x source reads on/off; plus the solo letters (R1 unmapped = strand-less molecule; pairs '
        'rejected by a site-bearing class) as one-fragment molecules through every api and, for the plain classes, every '
        'multiset of <= 2 (thorough 3) strand-less fragments; insertion orders: two-fragment words in both orders (thorough: '
        'every distinct order of three-fragment words too) and EVERY ordered word of 2..3 conflict letters (reference base / '
        'first / second alternative base at q10..q60 at one position) that shows >= 3 different bases at one position, through '
        'every api incl. the command line; a case is non-trivial when the coverage has a gap or some '
        'position carries conflicting observations (solo cases always); states = distinct cases')
ASSUMPTIONS = [
    'bases ACGT with phred 10 or 30 (at these qualities a unanimous observation is more likely than "N"); phred 20 on the second alternative base, 50 / 60 on two letters; a no-call (N at phred 0 / 2) in a source read is not an observation of a base (seven-fragment words: one call against six no-calls)',
    'a position observed with three different bases: a base whose sorted quality list dominates that of every other base is THE most likely call under any model monotone in the evidence; '
    'two bases with identical evidence that each dominate the third are equally most likely (undecidable, N); every other constellation is left open',
    'the consensus of a molecule does not depend on the order in which its fragments were associated (the property speaks of the molecule\'s reads, not of a history)',
    'all fragments of a molecule share sample, UMI and cut site; mapped reads map to one contig (at most one insertion, one-base deletion or soft clip per read)',
    'max_N_span = largest run of uncovered reference a single record may skip (parameter name); larger gaps split the molecule into several records',
    'TR = number of distinct random-primer (R2 start coordinate, primer sequence) classes, single-end fragments forming one class',
    'site tag DS: NlaIII = reference coordinate of the CATG the R1s start (end) with; CHIC = the DS tag the fragment class put on the source reads',
    'a reference base deleted in a read (CIGAR D), soft clipped bases and unmapped reads cover no reference position',
    'the reference file is partly lower case (soft-masked); a lower-case reference base equals its upper-case read base',
    'for a molecule without a mapped R1 (no strand) or rejected by its class the strand flag and the DS tag are not specified; '
    'TR is not specified when an R2 is unmapped',
]

REF = 'GGATCTTCAAGGCTAG' + 'CATG' + 'ACCGTTAGACTGGATCCAATGCGTACGTTAACGGCTAAGT' + 'CATG' + 'CCAGTCAGGATTCAGC'
REF_FASTA = REF[:24] + REF[24:52].lower() + REF[52:]      # what the reference FILE holds (MD is case-insensitive)
S_FWD = 16          # CATG the forward molecules start with
S_REV = 60          # CATG the reverse molecules end with
R2_LEN = 6
SAMPLE, UMI, BC = 'CELL_7', 'CAT', 'ACGT'
Q_HI, Q_LO = 30, 10
Q_MID = 20          # only on the second alternative base (variant mm1mid2)
MAX_N_SPAN = 5
# placement of the molecules on their contig: in the interior (chr1 / chr2: 16 bases of flank on either side) or, place
# 'edge', on a contig that IS the stretch [first CATG .. last CATG] (chr3 / chr4): the forward molecules start on reference
# coordinate 0, the reverse molecules end on the last base of the contig
EDGE_OFF = S_FWD
EDGE = REF[S_FWD:S_REV + 4]
EDGE_FASTA = REF_FASTA[S_FWD:S_REV + 4]
PLACES = (None, 'edge')


def _ref(place):
    return EDGE if place == 'edge' else REF


def _contig(place, strand=False, cli=False):
    """api cases: chr1 / chr3; a command-line batch: forward molecules chr1 / chr3, reverse molecules chr2 / chr4"""
    return H.CONTIGS[(2 if place == 'edge' else 0) + (1 if (cli and strand) else 0)]


def _header():
    return H.header(len(REF), len(EDGE))

_STATE = {'dir': None, 'fasta_path': None, 'fasta': None, 'fasta_pid': None, 'owner': None}


# ---- setup ---------------------------------------------------------------------------------------
def setup():
    import pysam
    if [i for i in range(len(REF)) if REF[i:i + 4] == 'CATG'] != [S_FWD, S_REV]:
        raise HarnessError('reference layout broken')
    if not (EDGE.startswith('CATG') and EDGE.endswith('CATG') and len(EDGE) == S_REV + 4 - S_FWD):
        raise HarnessError('edge contig layout broken')
    d = tempfile.mkdtemp(dir='/dev/shm', prefix='c15_')
    path = os.path.join(d, 'ref.fa')
    with open(path, 'w') as f:
        # the file is soft-masked like the usual genome builds: a lower-case stretch between the two cut sites
        f.write('>chr1\n' + REF_FASTA + '\n>chr2\n' + REF_FASTA + '\n>chr3\n' + EDGE_FASTA + '\n>chr4\n' + EDGE_FASTA + '\n')
    pysam.faidx(path)
    _STATE.update(dir=d, fasta_path=path, owner=os.getpid())
    atexit.register(_cleanup)


def _cleanup():
    if _STATE['owner'] == os.getpid() and _STATE['dir'] and os.path.isdir(_STATE['dir']):
        shutil.rmtree(_STATE['dir'], ignore_errors=True)


def _fasta():
    import pysam
    if _STATE['dir'] is None:
        setup()
    if _STATE['fasta'] is None or _STATE['fasta_pid'] != os.getpid():
        _STATE['fasta'] = pysam.FastaFile(_STATE['fasta_path'])
        _STATE['fasta_pid'] = os.getpid()
    return _STATE['fasta']


def _scratch(name):
    return os.path.join(_STATE['dir'], f'{os.getpid()}_{name}')


# ---- letters -------------------------------------------------------------------------------------
def _alt(base):
    return 'T' if base != 'T' else 'A'


def _alt2(base):
    """a SECOND alternative base: differs from the reference base and from _alt(base)"""
    return 'C' if base not in ('C',) and _alt(base) != 'C' else 'G'


def _letter_fragment(letter, strand, place=None):
    """letter = [gap | None, variant, r1_len]; variant in clean / mm1hi / mm1lo / mm2 / ins1 / ...; place 'edge': the same
    fragment on the contig that starts with the first and ends with the last CATG (all coordinates lower by EDGE_OFF)"""
    fd = _letter_fragment_interior(letter, strand)
    if place == 'edge':
        for rd in (fd['r1'], fd.get('r2')):
            if rd is not None:
                rd['start'] -= EDGE_OFF
                if rd['start'] < 0 or (not rd.get('unmapped') and G.reference_end(rd) > len(EDGE)):
                    raise HarnessError(f'letter {letter} does not fit on the edge contig')
    return fd


def _letter_fragment_interior(letter, strand):
    gap, variant, l1 = letter
    if not strand:
        a = S_FWD
        r1 = {'start': a, 'cigar': None, 'seq': list(REF[a:a + l1]), 'quals': [Q_HI] * l1, 'reverse': False}
        mm1 = 5                                   # query index of the R1 mismatch (reference S_FWD+5)
        if gap is not None:
            b = S_FWD + 6 + gap
            r2 = {'start': b, 'cigar': None, 'seq': list(REF[b:b + R2_LEN]), 'quals': [Q_HI] * R2_LEN, 'reverse': True}
            mm2 = R2_LEN - 1
    else:
        e = S_REV + 4
        r1 = {'start': e - l1, 'cigar': None, 'seq': list(REF[e - l1:e]), 'quals': [Q_HI] * l1, 'reverse': True}
        mm1 = l1 - 6                              # reference position e-6
        if gap is not None:
            b = e - 6 - gap - R2_LEN
            r2 = {'start': b, 'cigar': None, 'seq': list(REF[b:b + R2_LEN]), 'quals': [Q_HI] * R2_LEN, 'reverse': False}
            mm2 = 0
    if variant in ('mm1hi', 'mm1lo'):
        r1['seq'][mm1] = _alt(r1['seq'][mm1])
        r1['quals'][mm1] = Q_HI if variant == 'mm1hi' else Q_LO
    if variant in MM1_SECOND:
        # the mismatch position shows a SECOND alternative base (a different error): with the mm1* letters and a clean
        # fragment a position is observed with three different bases
        r1['seq'][mm1] = _alt2(r1['seq'][mm1])
        r1['quals'][mm1] = MM1_SECOND[variant]
    if variant in ('n0', 'n2'):
        # the read carries a NO-CALL (N) at the mismatch position, at phred 0 / 2: not an observation of any base
        r1['seq'][mm1] = 'N'
        r1['quals'][mm1] = 0 if variant == 'n0' else 2
    if variant == 'mm1q60':
        # a mismatch called at phred 60: against a phred-50 observation of the other base it still dominates
        r1['seq'][mm1] = _alt(r1['seq'][mm1])
        r1['quals'][mm1] = 60
    if variant == 'cleanq50':
        r1['quals'] = [50] * len(r1['quals'])
        if gap is not None:
            r2['quals'] = [50] * len(r2['quals'])
    if variant == 'ins1':
        # R1 carries a one-base insertion (not part of any reference position); placed so that the motif end stays intact
        k = 4 if not strand else 2
        r1['seq'] = r1['seq'][:k] + ['T'] + r1['seq'][k:]
        r1['quals'] = r1['quals'][:k] + [Q_HI] + r1['quals'][k:]
        r1['cigar'] = [(0, k), (1, 1), (0, l1 - k)]
    if variant == 'del1':
        # R1 lacks one reference base (CIGAR D) next to its far end: the base behind the deletion is a covered block of
        # exactly ONE position, the deleted position is covered by no base of this read; the motif end stays intact
        if not strand:
            r1['seq'] = list(REF[a:a + l1 - 1]) + [REF[a + l1]]
            r1['cigar'] = [(0, l1 - 1), (2, 1), (0, 1)]
        else:
            r1['start'] = e - l1 - 1
            r1['seq'] = [REF[e - l1 - 1]] + list(REF[e - l1 + 1:e])
            r1['cigar'] = [(0, 1), (2, 1), (0, l1 - 1)]
    if variant == 'offsite':
        # R1 starts (ends) two bases inside the molecule, not at the CATG: NlaIII rejects the fragment
        r1['start'] += -2 if strand else 2
        r1['seq'] = list(REF[r1['start']:r1['start'] + l1])
    if variant == 'sameori':
        # both mates map to the same strand (not an inward pair): CHIC rejects the fragment
        r2['reverse'] = r1['reverse']
    if variant == 'clip':
        # R1 is soft clipped at its far end (trailing clip on the forward strand, LEADING clip on the reverse strand):
        # clipped bases are in the query but cover no reference position
        if not strand:
            r1['seq'] = r1['seq'] + ['G', 'A']
            r1['quals'] = r1['quals'] + [Q_HI, Q_HI]
            r1['cigar'] = [(0, l1), (4, 2)]
        else:
            r1['seq'] = ['G', 'A'] + r1['seq']
            r1['quals'] = [Q_HI, Q_HI] + r1['quals']
            r1['cigar'] = [(4, 2), (0, l1)]
    r1['seq'] = ''.join(r1['seq'])
    if gap is None:
        if variant in PAIRED_ONLY:
            raise ValueError(letter)
        return {'r1': r1, 'r2': None}
    if variant in ('mm2', 'r1un_mm2'):
        r2['seq'][mm2] = _alt(r2['seq'][mm2])
    r2['seq'] = ''.join(r2['seq'])
    if variant == 'r2un':
        # R2 did not map: as aligners write it, the record sits at the coordinate of its mapped mate, without CIGAR
        r2 = {'unmapped': True, 'start': r1['start'], 'cigar': [], 'seq': 'ACGTAC', 'quals': [Q_HI] * 6, 'reverse': False}
    if variant in STRANDLESS:
        # R1 did not map, R2 did: the molecule has a mapped fragment but no strand (the strand is read from R1)
        r1 = {'unmapped': True, 'start': r2['start'], 'cigar': [], 'seq': 'TGCATG', 'quals': [Q_HI] * 6, 'reverse': False}
    return {'r1': r1, 'r2': r2}


MM1_SECOND = {'mm1lo2': Q_LO, 'mm1mid2': Q_MID, 'mm1hi2': Q_HI}     # variant -> quality of the second alternative base
STRANDLESS = ('r1un', 'r1un_mm2')                 # variants whose R1 is unmapped
ODD_PAIRS = ('offsite', 'sameori')                # mapped pairs one of the site-bearing classes rejects
SOLO = STRANDLESS + ODD_PAIRS                     # letters that are never mixed with the ordinary ones
PAIRED_ONLY = ('mm2', 'r2un') + SOLO


def strandless_alphabet(tier):
    """letters of the strand-less molecules (R1 unmapped, R2 mapped), simplest first"""
    gaps = [0, 3] if tier == 'quick' else [0, 3, 8]
    return [[gap, v, 6] for gap in gaps for v in STRANDLESS]


def solo_alphabet(tier):
    """fragments that travel as one-fragment molecules: the site-bearing classes reject them (or, where one of them
    accepts the shape, assign it to a site of its own); the molecule iterator hands a rejected fragment out as a
    molecule and the tagger requests its consensus like any other"""
    return strandless_alphabet(tier) + [[3, v, 6] for v in ODD_PAIRS]


def _mapped(rd):
    return rd is not None and not rd.get('unmapped')


def _build_read(rd, name, is_read1, paired, tags, mate=None, place=None):
    """gen.c15_reads.build_read plus the unmapped mate of a mapped read"""
    if not rd.get('unmapped'):
        read = H.build_read(_header(), _contig(place), _ref(place), rd, name, is_read1, paired, tags)
        if mate is not None and mate.get('unmapped'):
            read.is_proper_pair = False
            read.mate_is_unmapped = True
        return read
    return H.build_unmapped_read(_header(), _contig(place), rd, name, is_read1, tags)


def build_reads(fd, name, tags, place=None):
    r1, r2 = fd['r1'], fd.get('r2')
    if r2 is None or (_mapped(r1) and _mapped(r2)):
        return H.build_reads(_header(), _contig(place), _ref(place), fd, name, tags)
    a = _build_read(r1, name, True, True, tags, mate=r2, place=place)
    b = _build_read(r2, name, False, True, tags, mate=r1, place=place)
    for x, y in ((a, b), (b, a)):
        x.next_reference_id = y.reference_id
        x.next_reference_start = y.reference_start
        x.mate_is_reverse = y.is_reverse
    return [a, b]


def alphabet(tier, level):
    """letters, simplest first"""
    if tier == 'quick':
        gaps = [None, 0, -2, 3, 8] if level >= 3 else [None, 0, -2, 3, 5, 6, 8]
        l1s = [6]
    else:
        gaps = [None, 0, -2, 3, 8, 5, 6, 1] if level >= 3 else [None, 0, -2, 1, 3, 5, 6, 8, 14]
        l1s = [6] if level >= 3 else [6, 9]
    out = []
    for l1 in l1s:
        for gap in gaps:
            for variant in ('clean', 'mm1hi', 'mm1lo', 'mm2', 'ins1', 'mm1q60', 'cleanq50'):
                if variant == 'mm2' and gap is None:
                    continue
                if variant in ('mm1q60', 'cleanq50') and gap not in (None, 0):
                    continue
                if variant == 'ins1' and gap not in (None, 0, 3):
                    continue
                if tier == 'quick' and level >= 3 and variant == 'mm1lo' and gap not in (None, -2):
                    continue
                out.append([gap, variant, l1])
    # letters added by the audit (appended: simplest-first order of the older letters is kept):
    #   r2un - R2 unmapped, R1 mapped;  del1 - R1 with a one-base deletion (single-position block / one-base hole);
    #   clip - R1 soft clipped at its far end.  Quick: words of <= 2 letters; thorough: r2un and del1 also in 3-letter words
    extra = [[0, 'r2un', 6], [None, 'del1', 6], [0, 'del1', 6], [None, 'clip', 6], [0, 'clip', 6]]
    if level >= 3:
        extra = [] if tier == 'quick' else [[0, 'r2un', 6], [None, 'del1', 6]]
    return out + extra


CLASSES = ('nla', 'chic', 'plain')


def _classes(cls):
    from singlecellmultiomics import molecule as M, fragment as F
    if cls == 'nla':
        return M.NlaIIIMolecule, F.NlaIIIFragment, {}
    if cls == 'chic':
        return M.CHICMolecule, F.CHICFragment, {}
    if cls == 'plain':
        return M.Molecule, F.Fragment, {'assignment_radius': 1000}
    raise ValueError(cls)


def _tags(cls):
    t = {'SM': SAMPLE, 'RX': UMI, 'BC': BC}
    if cls == 'chic':
        t['MX'] = 'scCHIC'
    return t


# ---- oracle --------------------------------------------------------------------------------------
def observations(frags):
    """{reference position: [(base, phred), ...]} over all reads of all fragments"""
    obs = {}
    for f in frags:
        for rd in (f['r1'], f.get('r2')):
            if not _mapped(rd):
                continue
            for q, pos in G.aligned_pairs(rd):
                obs.setdefault(pos, []).append((rd['seq'][q], rd['quals'][q]))
    return obs


def _dominates(x, y):
    """quality lists sorted descending: every observation of y is matched by an at-least-as-good one of x,
    and x has a strictly better or an additional one"""
    if len(x) < len(y):
        return False
    if any(x[i] < y[i] for i in range(len(y))):
        return False
    return len(x) > len(y) or any(x[i] > y[i] for i in range(len(y)))


def expected_call(ob):
    """-> (kind, base) ; kind in unanimous / symmetric / dominating / open"""
    by = {}
    for b, q in ob:
        if b == 'N':
            continue            # a no-call in a source read is not an observation of a base
        by.setdefault(b, []).append(q)
    if not by:
        return 'open', None     # the position was only ever read as N: what the record shows there is not judged
    for b in by:
        by[b].sort(reverse=True)
    if len(by) == 1:
        return 'unanimous', next(iter(by))
    if len(by) == 2:
        (b1, q1), (b2, q2) = sorted(by.items())
        if q1 == q2:
            return 'symmetric', 'N'
        if _dominates(q1, q2):
            return 'dominating', b1
        if _dominates(q2, q1):
            return 'dominating', b2
        return 'open', None
    # three or more different bases at one position (a second alternative base): the same model-independent consequences -
    # one base whose evidence strictly dominates that of EVERY other base is the most likely call; several bases carrying
    # identical evidence, each of which dominates every remaining base, are equally most likely: undecidable
    items = sorted(by.items())
    tag = f'[{len(items)}-bases]'
    for b, q in items:
        if all(_dominates(q, q2) for b2, q2 in items if b2 != b):
            return 'dominating' + tag, b
    top = [b for b, q in items if all(q == q2 or _dominates(q, q2) for b2, q2 in items if b2 != b)]
    if len(top) >= 2:
        return 'symmetric' + tag, 'N'
    return 'open' + tag, None


def expected_TR(case):
    keys = set()
    for gap, variant, l1 in case['letters']:
        if variant == 'r2un':
            return None            # the random-primer class of an UNMAPPED R2 is not defined by the property text: not checked
        keys.add(None if gap is None else (gap, variant in ('mm2', 'r1un_mm2')))
    return len(keys)


_MD_TOKEN = re.compile(r'(\d+)|(\^[A-Za-z]+)|([A-Za-z])')


def reference_from_md(md, query_aligned):
    """Rebuild the reference bases under the aligned (M) query bases from an MD string (no deletions are
    expected in a consensus record). -> list of bases or None when MD does not describe that many bases"""
    out = []
    i = 0
    pos = 0
    while pos < len(md):
        m = _MD_TOKEN.match(md, pos)
        if not m:
            return None
        pos = m.end()
        if m.group(1) is not None:
            n = int(m.group(1))
            if i + n > len(query_aligned):
                return None
            out.extend(query_aligned[i:i + n])
            i += n
        elif m.group(2) is not None:
            return None
        else:
            if i + 1 > len(query_aligned):
                return None
            out.append(m.group(3).upper())
            i += 1
    if i != len(query_aligned):
        return None
    return out


def md_false_mismatch(md, query_aligned):
    """MD encodes the reference bases that DIFFER from the read (SAM tags specification): True when some letter of the
    tag names, case-insensitively, the very base the record carries at that position"""
    i = 0
    for m in _MD_TOKEN.finditer(md):
        if m.group(1) is not None:
            i += int(m.group(1))
        elif m.group(3) is not None:
            if i < len(query_aligned) and query_aligned[i].upper() == m.group(3).upper():
                return True
            i += 1
    return False


def check_records(case, frags, records, site, n_source_written=None, expected_DS=None, sample=None, contig=None,
                  expected_TF=None):
    """All clauses of the property on the consensus records of one molecule."""
    out = []
    obs = observations(frags)
    coverage = set(obs)
    refseq = _ref(case.get('place'))
    if contig is None:
        contig = _contig(case.get('place'))
    if not records:
        return [(f'{site}:no-consensus-record', None)]
    seen = set()
    for rec in records:
        desc = None
        try:
            desc = rec.to_string()
        except Exception:
            desc = repr(rec)
        cig = rec.cigartuples or []
        qlen_cigar = sum(n for op, n in cig if op in (0, 1, 4, 7, 8))
        seq = rec.query_sequence or ''
        quals = rec.query_qualities
        if quals is None or not (len(seq) == len(quals) == qlen_cigar) or len(seq) == 0:
            out.append((f'{site}:seq-qual-cigar-length-mismatch', desc))
            continue
        if any(op not in (0, 3) for op, n in cig) or any(n <= 0 for op, n in cig):
            out.append((f'{site}:unexpected-cigar-operation', desc))
            continue
        if rec.reference_name != contig:
            out.append((f'{site}:wrong-contig', desc))
        # own CIGAR walk
        pairs = []
        q, r = 0, rec.reference_start
        for op, n in cig:
            if op == 0:
                for _ in range(n):
                    pairs.append((q, r)); q += 1; r += 1
            else:
                r += n
                if case.get('max_N_span') is not None and n > case['max_N_span']:
                    out.append((f'{site}:N-gap-exceeds-max_N_span', desc))
        positions = [p for _, p in pairs]
        if seen & set(positions):
            out.append((f'{site}:records-overlap', desc))
        seen |= set(positions)
        # MD
        if not rec.has_tag('MD'):
            out.append((f'{site}:md-missing', desc))
        else:
            rebuilt = reference_from_md(rec.get_tag('MD'), [seq[qi] for qi, _ in pairs])
            truth = [refseq[p] if 0 <= p < len(refseq) else '?' for p in positions]
            if rebuilt is None or [b.upper() for b in rebuilt] != truth:
                gapped = any(op == 3 for op, n in cig)
                out.append((f"{site}:md-does-not-match-reference{'[gapped-record]' if gapped else ''}",
                            {'record': desc, 'md': rec.get_tag('MD'), 'true_reference_at_blocks': ''.join(truth)}))
            elif md_false_mismatch(rec.get_tag('MD'), [seq[qi] for qi, _ in pairs]):
                out.append((f'{site}:md-reports-mismatch-where-record-equals-reference',
                            {'record': desc, 'md': rec.get_tag('MD'), 'true_reference_at_blocks': ''.join(truth)}))
        # base calls
        for qi, p in pairs:
            if p not in obs:
                continue
            kind, want = expected_call(obs[p])
            if not kind.startswith('open') and seq[qi] != want:
                out.append((f'{site}:base-call:{kind}-evidence-not-called', {'record': desc, 'position': p, 'observations': obs[p], 'got': seq[qi], 'expected': want}))
        # tags
        for tag, want in (('SM', sample or SAMPLE), ('RX', UMI), ('TF', expected_TF if expected_TF is not None else len(frags)),
                          ('TR', expected_TR(case) if expected_TF is None else None), ('DS', expected_DS)):
            if want is None:
                continue
            got = rec.get_tag(tag) if rec.has_tag(tag) else None
            if got != want:
                out.append((f'{site}:tag-{tag}', {'record': desc, 'got': got, 'expected': want}))
    if seen != coverage:
        out.append((f'{site}:aligned-blocks-differ-from-coverage',
                    {'missing': sorted(coverage - seen), 'extra': sorted(seen - coverage),
                     'records': [r.to_string() for r in records]}))
    if n_source_written is not None:
        n_reads = sum(1 for f in frags for rd in (f['r1'], f.get('r2')) if rd is not None)
        if case.get('no_source_reads'):
            if n_source_written != 0:
                out.append((f'{site}:source-reads-written-despite-no_source_reads', n_source_written))
        elif n_source_written != n_reads:
            out.append((f'{site}:source-reads-not-all-written', {'written': n_source_written, 'expected': n_reads}))
    uniq = set()
    return [(s, d) for s, d in out if not (s in uniq or uniq.add(s))]


# ---- driving the real code ------------------------------------------------------------------------
def _site_name(case):
    api = {'dedup': 'deduplicate_majority', 'write_pysam': 'write_pysam[consensus]',
           'tagging': 'run_tagging_task[majority]', 'cli': 'bamtagmultiome[--consensus]'}[case['api']]
    return f"{api}:{case['cls']}{_solo_label(case)}{'@contig-edge' if case.get('place') == 'edge' else ''}"


def _strandless(case):
    return any(l[1] in STRANDLESS for l in case['letters'])


def _solo_label(case):
    if _strandless(case):
        return '[strandless]'
    for l in case['letters']:
        if l[1] in ODD_PAIRS:
            return f'[{l[1]}]'
    return ''


def _build(case):
    place = case.get('place')
    frags = [_letter_fragment(l, case['strand'], place) for l in case['letters']]
    reads = [build_reads(fd, f'frag{i}', _tags(case['cls']), place) for i, fd in enumerate(frags)]
    return frags, reads


def _expected_DS(case, fragment_objects, reads):
    if _solo_label(case):
        return None     # no R1 / rejected by the class: the property names no site for such a molecule, DS is not checked
    if case['cls'] == 'nla':
        return (S_REV if case['strand'] else S_FWD) - (EDGE_OFF if case.get('place') == 'edge' else 0)
    if case['cls'] == 'chic':
        vals = {r[0].get_tag('DS') for r in reads if r[0].has_tag('DS')}
        if len(vals) != 1:
            raise HarnessError(f'CHIC source reads do not share one DS tag: {vals}')
        return vals.pop()
    return None


def run_case(case):
    """-> (violations, info)"""
    import pysam
    site = _site_name(case)
    frags, reads = _build(case)
    mcls, fcls, fargs = _classes(case['cls'])
    header = _header()
    info = {'records': 0}
    try:
        if case['api'] in ('dedup', 'write_pysam'):
            cap = case.get('cap')
            mol = mcls(None, reference=_fasta(), **({'max_associated_fragments': cap} if cap else {}))
            fobjs = []
            refused = 0
            for rl in reads:
                fo = fcls(rl, **fargs)
                if not fo.is_valid() and not (_solo_label(case) and case['cls'] != 'plain' and len(reads) == 1):
                    # (a site-bearing class rejects a fragment without R1; the molecule iterator then hands it out as
                    #  a molecule of its own, whose consensus the tagger requests like any other)
                    raise HarnessError(f'fragment not valid: {case}')
                try:
                    if not mol.add_fragment(fo):
                        raise HarnessError(f'fragment not accepted into the molecule: {case}')
                    if case.get('incremental') and len(fobjs) == 0:
                        # history: a consensus was already requested when the molecule held only its first fragment
                        path0 = _scratch('t0.bam')
                        with pysam.AlignmentFile(path0, 'wb', header=header) as target0:
                            try:
                                mol.deduplicate_majority(target0, 'consensus_early', max_N_span=case.get('max_N_span'))
                            except Exception:
                                pass
                        os.unlink(path0)
                except OverflowError:
                    if not cap:
                        raise
                    refused += 1       # the molecule is full: the fragment is counted (TF) but not part of the consensus
                    continue
                fobjs.append(fo)
            total_offered = len(reads)
            if cap:
                if len(fobjs) != min(cap, total_offered):
                    raise HarnessError(f'cap {cap}: molecule holds {len(fobjs)} of {total_offered} fragments')
                frags = frags[:len(fobjs)]
                reads = reads[:len(fobjs)]
            ds = _expected_DS(case, fobjs, reads)
            if case['api'] == 'dedup':
                path = _scratch('t.bam')
                with pysam.AlignmentFile(path, 'wb', header=header) as target:
                    res = mol.deduplicate_majority(target, 'consensus_0', max_N_span=case.get('max_N_span'))
                    records = [r for r in (res or []) if r is not None]
                    viols = check_records(case, frags, records, site, expected_DS=ds,
                                          expected_TF=(total_offered if cap else None))
                os.unlink(path)
            else:
                path = _scratch('w.bam')
                handed = []
                cb = {}
                if case.get('callback') == 'plain':
                    cb = {'consensus_read_callback': lambda rs: handed.append(len([r for r in rs if r is not None]))}
                elif case.get('callback') == 'kwargs':
                    cb = {'consensus_read_callback': lambda rs, mark=None: handed.append(len([r for r in rs if r is not None])),
                          'consensus_read_callback_kwargs': {'mark': 1}}
                with pysam.AlignmentFile(path, 'wb', header=header) as target:
                    mol.write_pysam(target, consensus=True, no_source_reads=bool(case.get('no_source_reads')),
                                    consensus_name='consensus_0', **cb)
                with pysam.AlignmentFile(path, 'rb', check_sq=False) as back:
                    allrec = list(back.fetch(until_eof=True))
                os.unlink(path)
                records = [r for r in allrec if r.query_name == 'consensus_0']
                viols = check_records(case, frags, records, site, n_source_written=len(allrec) - len(records), expected_DS=ds)
        else:
            from singlecellmultiomics.universalBamTagger.tagging import run_tagging_task
            from singlecellmultiomics.molecule import MoleculeIterator
            pairs = [tuple(rl) for rl in reads]
            pairs.sort(key=lambda rl: min(r.reference_start for r in rl if r is not None))
            path = _scratch('g.bam')
            with pysam.AlignmentFile(path, 'wb', header=header) as target:
                run_tagging_task(pairs, target, molecule_iterator_class=MoleculeIterator,
                                 molecule_iterator_args={'molecule_class': mcls, 'fragment_class': fcls,
                                                         'molecule_class_args': {'reference': _fasta()},
                                                         'fragment_class_args': dict(fargs), 'perform_qflag': False,
                                                         # as bamtagmultiome configures it unless --no_rejects is given
                                                         'yield_invalid': True},
                                 consensus_mode='majority', no_source_reads=bool(case.get('no_source_reads')))
            with pysam.AlignmentFile(path, 'rb', check_sq=False) as back:
                allrec = list(back.fetch(until_eof=True))
            os.unlink(path)
            records = [r for r in allrec if r.query_name.startswith('molecule_')]
            names = {r.query_name for r in records}
            ds = _expected_DS(case, None, reads)
            viols = check_records(case, frags, records, site, n_source_written=len(allrec) - len(records), expected_DS=ds)
            if len(names) > 1:
                viols.append((f'{site}:fragments-of-one-molecule-split-into-several', sorted(names)))
        info['records'] = len(records)
    except HarnessError:
        raise
    except Exception as ex:
        for p in ('t.bam', 'w.bam', 'g.bam'):
            if os.path.exists(_scratch(p)):
                os.unlink(_scratch(p))
        viols = [(f'{site}:exception:{type(ex).__name__}', repr(ex))]
    obs = observations(frags)
    cov = sorted(obs)
    gaps = [b - a - 1 for a, b in zip(cov, cov[1:]) if b - a > 1]
    kinds = {expected_call(o)[0] for o in obs.values() if len({b for b, _ in o}) > 1}
    info.update(gapped=bool(gaps), max_gap=max(gaps) if gaps else 0, conflict=sorted(kinds))
    return viols, info



# ---- the real command line ----------------------------------------------------------------------
CLI_CLASSES = ('nla', 'chic')
_CLI_CODE = ("import sys; import singlecellmultiomics.universalBamTagger.bamtagmultiome as b; "
             "b.sleep = lambda s: None; b.run_multiome_tagging_cmd(sys.argv[1:])")


def cli_batch(tier):
    """The molecules of one command-line run: forward molecules on chr1, reverse ones on chr2 (two populated
    contigs), the molecules that touch the first / last base of their contig on chr3 (forward) and chr4 (reverse), every
    molecule in its own cell. -> [(strand, letters, place)]"""
    out = []
    a1, a3 = alphabet(tier, 1), alphabet(tier, 3)
    for place in PLACES:
        for strand in (False, True):
            for l in a1:
                out.append((strand, [l], place))
            if place is None or tier != 'quick':
                for i, j in itertools.combinations_with_replacement(range(len(a3)), 2):
                    out.append((strand, [a3[i], a3[j]], place))
            else:
                # quick tier, contig edge: the two-fragment molecules over the gap shapes only
                shapes = [l for l in a3 if l[1] == 'clean']
                for i, j in itertools.combinations_with_replacement(range(len(shapes)), 2):
                    out.append((strand, [shapes[i], shapes[j]], place))
            # a fragment whose R2 is unmapped next to every clean fragment shape (one molecule: strand and site come from R1)
            for l in a1:
                if l[1] == 'clean':
                    out.append((strand, [[0, 'r2un', 6], l], place))
            # fragments whose R1 is unmapped: rejected by the site-bearing classes, written (with a consensus request) as
            # molecules of their own unless --no_rejects is given
            for l in solo_alphabet(tier):
                out.append((strand, [l], place))
            if place is None:
                # every insertion order of the single-end fragment words that show three different bases at one position
                # (reads of equal start keep their file order, so the file order is the association order)
                for w in conflict_words('cli-' + tier):
                    out.append((strand, w, place))
    return out


def run_cli_batch(tier, cls, nosrc):
    """Run `bamtagmultiome --consensus --multiprocess` once on a BAM holding the whole batch.
    -> [(case, violations, info)] in batch order"""
    import subprocess
    import sys
    import pysam
    from mc import bind
    batch = cli_batch(tier)
    _fasta()
    d = tempfile.mkdtemp(dir=_STATE['dir'], prefix=f'cli_{os.getpid()}_')
    try:
        all_reads = []
        per_mol = []
        for i, (strand, letters, place) in enumerate(batch):
            tags = dict(_tags(cls), SM=f'CELL_{i}')
            frags = [_letter_fragment(l, strand, place) for l in letters]
            rls = [build_reads(fd, f'm{i}_{j}', tags, place) for j, fd in enumerate(frags)]
            for rl in rls:
                for r in rl:
                    if r is not None:
                        r.reference_id = H.CONTIGS.index(_contig(place, strand, cli=True))
                if rl[1] is not None:
                    a, b = rl
                    a.next_reference_id, a.next_reference_start, a.mate_is_reverse = b.reference_id, b.reference_start, b.is_reverse
                    b.next_reference_id, b.next_reference_start, b.mate_is_reverse = a.reference_id, a.reference_start, a.is_reverse
                all_reads.extend(r for r in rl if r is not None)
            per_mol.append((frags, rls))
        all_reads.sort(key=lambda r: (r.reference_id, r.reference_start))
        inb, outb = os.path.join(d, 'in.bam'), os.path.join(d, 'out.bam')
        with pysam.AlignmentFile(inb, 'wb', header=_header()) as o:
            for r in all_reads:
                o.write(r)
        pysam.index(inb)
        cmd = [sys.executable, '-c', _CLI_CODE, inb, '-o', outb, '-method', cls, '-ref', _STATE['fasta_path'],
               '--consensus', '--multiprocess', '-temp_folder', d, '-tagthreads', '1']
        if nosrc:
            cmd.append('--no_source_reads')
        env = dict(os.environ, PYTHONPATH=bind.REPO)
        failure = None
        try:
            r = subprocess.run(cmd, env=env, capture_output=True, text=True, cwd=d, timeout=600)
            if r.returncode != 0:
                last = [l for l in r.stderr.strip().splitlines() if l.strip()][-1:] or ['']
                m = re.match(r'^([A-Za-z_][\w.]*)\s*:', last[0])
                failure = (f"exception:{m.group(1).split('.')[-1]}" if m else 'nonzero-exit-status', ' | '.join(l.strip() for l in r.stderr.strip().splitlines()[-3:])[-600:])
            elif not os.path.exists(outb):
                failure = ('no-output-file', r.stdout[-300:])
        except subprocess.TimeoutExpired:
            failure = ('timeout', None)
        recs = []
        if failure is None:
            with pysam.AlignmentFile(outb, 'rb', check_sq=False) as f:
                recs = list(f.fetch(until_eof=True))
        out = []
        cons = {}
        src = {}
        stray = []
        for rec in recs:
            if rec.query_name.startswith('molecule_'):
                sm = rec.get_tag('SM') if rec.has_tag('SM') else ''
                m = re.match(r'^CELL_(\d+)$', str(sm))
                if m and int(m.group(1)) < len(batch):
                    cons.setdefault(int(m.group(1)), []).append(rec)
                else:
                    stray.append(rec.to_string())
            else:
                m = re.match(r'^m(\d+)_\d+$', rec.query_name)
                if m:
                    src[int(m.group(1))] = src.get(int(m.group(1)), 0) + 1
                else:
                    stray.append(rec.to_string())
        for i, (strand, letters, place) in enumerate(batch):
            case = {'api': 'cli', 'cls': cls, 'strand': strand, 'letters': letters, 'no_source_reads': nosrc,
                    'max_N_span': None, 'tier': tier, 'index': i}
            if place:
                case['place'] = place
            site = _site_name(case)
            frags, rls = per_mol[i]
            info = {'records': len(cons.get(i, []))}
            if failure is not None:
                viols = [(f'{site}:{failure[0]}', failure[1])]
            else:
                ds = None
                if _solo_label(case):
                    pass
                elif cls == 'nla':
                    ds = (S_REV if strand else S_FWD) - (EDGE_OFF if place == 'edge' else 0)
                elif cls == 'chic':
                    _, fcls, fargs = _classes(cls)
                    fresh = [build_reads(fd, 'x', _tags(cls), place) for fd in frags]
                    vals = set()
                    for rl in fresh:
                        fcls(rl, **fargs)
                        vals.add(rl[0].get_tag('DS') if rl[0].has_tag('DS') else None)
                    if len(vals) != 1:
                        raise HarnessError(f'CHIC source reads do not share one DS tag: {vals}')
                    ds = vals.pop()
                viols = check_records(case, frags, cons.get(i, []), site, n_source_written=src.get(i, 0),
                                      expected_DS=ds, sample=f'CELL_{i}', contig=_contig(place, strand, cli=True))
                if i == 0 and stray:
                    viols.append((f'{site}:output-record-not-attributable-to-a-molecule', stray[:3]))
            obs = observations(frags)
            cov = sorted(obs)
            gaps = [b - a - 1 for a, b in zip(cov, cov[1:]) if b - a > 1]
            kinds = {expected_call(o)[0] for o in obs.values() if len({b for b, _ in o}) > 1}
            info.update(gapped=bool(gaps), max_gap=max(gaps) if gaps else 0, conflict=sorted(kinds))
            out.append((case, viols, info))
        return out
    finally:
        shutil.rmtree(d, ignore_errors=True)


# ---- bounds / shards ------------------------------------------------------------------------------
def bounds(tier):
    return {'reference_length': len(REF), 'reference_lower_case_stretch': [24, 52], 'max_fragments': 3,
            'letters_level_1_2': len(alphabet(tier, 1)), 'letters_level_3': len(alphabet(tier, 3)),
            'mate_gaps_level_1_2': [g for g in dict.fromkeys(l[0] for l in alphabet(tier, 1))],
            'mate_gaps_level_3': [g for g in dict.fromkeys(l[0] for l in alphabet(tier, 3))],
            'r1_lengths': sorted({l[2] for l in alphabet(tier, 1)}), 'qualities': [Q_LO, Q_HI],
            'strands': [False, True], 'classes': list(CLASSES), 'max_N_span': [None, MAX_N_SPAN],
            'apis': ['dedup', 'write_pysam', 'tagging', 'cli (one run per class x no_source_reads)'],
            'cli_molecules_per_run': len(cli_batch(tier)), 'no_source_reads': [False, True],
            'plain_class_max_fragments': 2,
            'variants': [v for v in dict.fromkeys(l[1] for l in alphabet(tier, 1))],
            'variants_level_3': [v for v in dict.fromkeys(l[1] for l in alphabet(tier, 3))],
            'solo_letters': solo_alphabet(tier),
            'strandless_molecule_max_fragments': {'plain': 2 if tier == 'quick' else 3, 'nla': 1, 'chic': 1},
            'write_pysam_callback': ['none', 'plain', 'kwargs (one-letter words)'],
            'contigs': {'chr1/chr2': len(REF), 'chr3/chr4 (= [first CATG .. last CATG] of chr1)': len(EDGE)},
            'placements': ['interior', 'edge (forward molecules start on coordinate 0, reverse molecules end on the last base)'],
            'edge_levels': [1, 2] if tier == 'quick' else [1, 2, 3],
            'edge_letters_level_2': len(edge_alphabet(tier, 2)),
            'edge_configs_level_2': 'dedup x max_N_span, write_pysam without source reads, tagging with source reads' if tier == 'quick' else 'as interior',
            'insertion_orders': ('both orders of every two-fragment word (dedup)' if tier == 'quick' else
                                 'every distinct order of every two-fragment word and of every interior three-fragment word (dedup)') +
                                '; every ordered word of the conflict letters with >= 3 different bases at one position',
            'conflict_letters': conflict_alphabet(tier), 'conflict_words_ordered': len(conflict_words(tier)),
            'conflict_words_ordered_cli': len(conflict_words('cli-' + tier)),
            'qualities_second_alternative_base': sorted(MM1_SECOND.values())}


def _configs(cls, level):
    """(api, max_N_span, no_source_reads) combinations explored for a molecule"""
    out = [('dedup', None, None), ('dedup', MAX_N_SPAN, None)]
    if cls == 'plain':
        return out + [('write_pysam', None, True)]
    out += [('write_pysam', None, False), ('write_pysam', None, True)]
    if level <= 2:
        out += [('tagging', None, False), ('tagging', None, True)]
    return out


N_PART = 8


# ---- fragment words whose insertion order is enumerated ----------------------------------------------
CONFLICT_VARIANTS = ('clean', 'cleanq50', 'mm1lo', 'mm1hi', 'mm1q60', 'mm1lo2', 'mm1mid2', 'mm1hi2')
_CONFLICT_CACHE = {}


def conflict_alphabet(mode):
    """letters whose fragments differ only in what they show at the mismatch position: the reference base (q30 / q50), the
    first alternative base (q10 / q30 / q60) or the second alternative base (q10 / q20 / q30); thorough: also as pairs with
    adjacent mates and with OVERLAPPING mates (R2 then shows the reference base at that position as well)"""
    if mode == 'cli-quick':
        return [[None, v, 6] for v in ('clean', 'mm1lo', 'mm1hi', 'mm1lo2', 'mm1hi2')]
    if mode in ('quick', 'cli-thorough'):
        return [[None, v, 6] for v in CONFLICT_VARIANTS]
    return [[gap, v, 6] for gap in (None, 0, -2) for v in CONFLICT_VARIANTS]


def conflict_words(mode):
    """EVERY ordered word (= every distinct insertion order of every multiset) of 2..3 conflict letters whose molecule
    observes one position with >= 3 different bases"""
    if mode in _CONFLICT_CACHE:
        return _CONFLICT_CACHE[mode]
    alpha = conflict_alphabet(mode)
    shown = [frozenset(b for b, _ in observations([_letter_fragment(l, False)]).get(S_FWD + 5, [])) for l in alpha]
    out = []
    for n in (2, 3):
        for idx in itertools.product(range(len(alpha)), repeat=n):
            if len(frozenset().union(*(shown[i] for i in idx))) >= 3:
                out.append([alpha[i] for i in idx])
    _CONFLICT_CACHE[mode] = out
    return out


def edge_alphabet(tier, level):
    """letters of the molecules that touch the first / last base of their contig: thorough = the whole alphabet; quick =
    the whole alphabet for one-fragment molecules, the three-fragment alphabet plus the audit letters for two-fragment ones"""
    if tier != 'quick' or level == 1:
        return alphabet(tier, level)
    return alphabet(tier, 3) + [[0, 'r2un', 6], [None, 'del1', 6], [0, 'del1', 6], [None, 'clip', 6]]


def shards(tier):
    out = [('cli', cls, nosrc) for cls in CLI_CLASSES for nosrc in (False, True)]
    for cls in CLASSES:
        out.append(('solo', cls))
    for cls in CLASSES:
        for strand in (False, True):
            for level in (1, 2, 3):
                if cls == 'plain' and level == 3:
                    continue
                parts = 1 if level == 1 else N_PART
                for part in range(parts):
                    out.append((cls, strand, level, part, parts))
    # (appended by the audit waves: the shards above keep their index)
    for cls in CLASSES:
        for strand in (False, True):
            parts = 1 if tier == 'quick' else N_PART
            for part in range(parts):
                out.append(('orders', cls, strand, part, parts))
    for cls in CLASSES:
        for strand in (False, True):
            for level in ((1, 2) if tier == 'quick' else (1, 2, 3)):
                if cls == 'plain' and level == 3:
                    continue
                parts = 1 if level == 1 else N_PART
                for part in range(parts):
                    out.append((cls, strand, level, part, parts, 'edge'))
    for cls in CLASSES:
        out.append(('solo', cls, 'edge'))
    return out


def _outcome(api, info):
    return (f"{api}:records={info['records']}:gap={'none' if not info['gapped'] else ('>max' if info['max_gap'] > MAX_N_SPAN else '<=max')}"
            f":conflict={'+'.join(info['conflict']) or 'none'}")


def _report(acc, case, label=None, nontrivial=None, sig_map=None):
    viols, info = run_case(case)
    if sig_map:
        viols = [(sg.replace(sig_map[0], sig_map[1], 1), d) for sg, d in viols]
    acc.case(case, transitions=1 + info['records'],
             nontrivial=(info['gapped'] or bool(info['conflict'])) if nontrivial is None else nontrivial,
             outcome=(label(info) if label else _outcome(case['api'], info)))
    for sig, d in viols:
        acc.violation(sig, case, d)


def _edge_label(place, text):
    return ('edge:' + text) if place == 'edge' else text


def run_shard(shard, tier, acc):
    if shard[0] == 'cli':
        for case, viols, info in run_cli_batch(tier, shard[1], shard[2]):
            acc.case(case, transitions=1 + info['records'], execs=0, nontrivial=info['gapped'] or bool(info['conflict']),
                     outcome=_edge_label(case.get('place'), _outcome('cli', info)))
            for sig, d in viols:
                acc.violation(sig, case, d)
        acc.execs += 1
        return
    if shard[0] == 'solo':
        _run_solo(shard[1], tier, acc, shard[2] if len(shard) > 2 else None)
        return
    if shard[0] == 'orders':
        _run_orders(shard[1], shard[2], shard[3], shard[4], tier, acc)
        return
    cls, strand, level, part, parts = shard[:5]
    place = shard[5] if len(shard) > 5 else None
    thin = place == 'edge' and tier == 'quick' and level >= 2      # the quick tier's slice of the contig-edge dimension
    alpha = alphabet(tier, level) if place is None else edge_alphabet(tier, level)
    base = {'place': place} if place else {}
    configs = _configs(cls, level)
    if thin:
        configs = [('dedup', None, None), ('dedup', MAX_N_SPAN, None), ('write_pysam', None, True)]
        if cls != 'plain':
            configs.append(('tagging', None, False))
    for idx, combo in enumerate(itertools.combinations_with_replacement(range(len(alpha)), level)):
        if idx % parts != part:
            continue
        letters = [alpha[i] for i in combo]
        for api, mns, nosrc in configs:
            case = dict(base, cls=cls, strand=strand, letters=letters, api=api, max_N_span=mns)
            if nosrc is not None:
                case['no_source_reads'] = nosrc
            _report(acc, case, label=lambda info, api=api: _edge_label(place, _outcome(api, info)))
        if level == 1:
            # write_pysam's consensus_read_callback option (without / with keyword arguments): the records written are the same
            for cbk in ('plain', 'kwargs'):
                case = dict(base, cls=cls, strand=strand, letters=letters, api='write_pysam', max_N_span=None,
                            no_source_reads=True, callback=cbk)
                _report(acc, case, label=lambda info, cbk=cbk: _edge_label(place, f"callback-{cbk}:" + _outcome('write_pysam', info)),
                        sig_map=('write_pysam[consensus]', 'write_pysam[consensus,callback]'))
        if level >= 2 and not thin:
            case = dict(base, cls=cls, strand=strand, letters=letters, api='dedup', max_N_span=None, incremental=True)
            _report(acc, case, label=lambda info: _edge_label(place, f"dedup:incremental:records={info['records']}"), nontrivial=True,
                    sig_map=('deduplicate_majority', 'deduplicate_majority:after-an-earlier-consensus-request'))
        if level >= 2 and cls != 'plain' and not thin:
            # a fragment cap smaller than the number of fragments offered: the consensus is made of the fragments the molecule
            # holds, its fragment-count tag still counts every fragment of the molecule (as on the source reads)
            case = dict(base, cls=cls, strand=strand, letters=letters, api='dedup', max_N_span=None, cap=level - 1)
            _report(acc, case, label=lambda info: _edge_label(place, f"dedup:capped:records={info['records']}"), nontrivial=True)
        if level == 2 or (level == 3 and tier != 'quick' and place is None):
            # the other insertion orders of the same fragments (the words above are enumerated as multisets, simplest letter
            # first): two-fragment molecules in both orders, thorough also all distinct orders of three fragments
            for perm in sorted(set(itertools.permutations(combo)))[1:]:
                case = dict(base, cls=cls, strand=strand, letters=[alpha[i] for i in perm], api='dedup', max_N_span=None)
                _report(acc, case, label=lambda info: _edge_label(place, 'reordered:' + _outcome('dedup', info)))


def _run_orders(cls, strand, part, parts, tier, acc):
    """every insertion order of the fragment words that show >= 3 different bases at one position"""
    configs = [('dedup', None, None), ('write_pysam', None, True)]
    if cls != 'plain':
        configs.append(('tagging', None, False))
    for idx, letters in enumerate(conflict_words(tier)):
        if idx % parts != part:
            continue
        for api, mns, nosrc in configs:
            case = {'cls': cls, 'strand': strand, 'letters': letters, 'api': api, 'max_N_span': mns}
            if nosrc is not None:
                case['no_source_reads'] = nosrc
            _report(acc, case, label=lambda info, api=api: 'orders:' + _outcome(api, info), nontrivial=True)
    if part == 0:
        # ONE real call against many no-calls: seven single-end fragments, six of which read N (phred 0 / phred 2) at the
        # position the seventh calls (the reference base at q30, or the alternative base at q30 / q10), the caller first, in the
        # middle and last - the no-calls are no evidence for anything, the one call stands
        for caller in ('clean', 'mm1hi', 'mm1lo'):
            for nocall in ('n0', 'n2'):
                for where in (0, 3, 6):
                    letters = [[None, nocall, 6]] * 6
                    letters = letters[:where] + [[None, caller, 6]] + letters[where:]
                    for api, mns, nosrc in configs:
                        case = {'cls': cls, 'strand': strand, 'letters': letters, 'api': api, 'max_N_span': mns}
                        if nosrc is not None:
                            case['no_source_reads'] = nosrc
                        _report(acc, case, label=lambda info, api=api: 'orders:one-call-six-nocalls:' + _outcome(api, info), nontrivial=True)


def _run_solo(cls, tier, acc, place=None):
    """One-fragment molecules of every solo letter; for the plain classes also the molecules of 2 (thorough: 3) fragments
    all of which lack R1 (the plain classes group them; `strand` is then only the orientation of the mapped R2)."""
    solo = solo_alphabet(tier)
    alpha = strandless_alphabet(tier)
    levels = (1,) if cls != 'plain' else ((1, 2) if tier == 'quick' else (1, 2, 3))
    configs = [('dedup', None, None), ('dedup', MAX_N_SPAN, None), ('write_pysam', None, False), ('write_pysam', None, True)]
    if cls != 'plain':
        configs += [('tagging', None, False), ('tagging', None, True)]
    for strand in (False, True):
        for level in levels:
            words = [[l] for l in solo] if level == 1 else \
                [[alpha[i] for i in combo] for combo in itertools.combinations_with_replacement(range(len(alpha)), level)]
            for letters in words:
                for api, mns, nosrc in configs:
                    case = {'cls': cls, 'strand': strand, 'letters': letters, 'api': api, 'max_N_span': mns}
                    if place:
                        case['place'] = place
                    if nosrc is not None:
                        case['no_source_reads'] = nosrc
                    viols, info = run_case(case)
                    acc.case(case, transitions=1 + info['records'], nontrivial=True,
                             outcome=_edge_label(place, _solo_label(case)[1:-1] + ':' + _outcome(api, info)))
                    for sig, d in viols:
                        acc.violation(sig, case, d)


def replay(case):
    if case['api'] == 'cli':
        # a command-line case is one molecule of a batch run: re-run that batch, look at that molecule
        res = run_cli_batch(case['tier'], case['cls'], bool(case.get('no_source_reads')))
        got = res[case['index']]
        if got[0]['letters'] != case['letters'] or got[0]['strand'] != case['strand'] or got[0].get('place') != case.get('place'):
            raise HarnessError('command-line batch layout changed; cannot replay this case')
        return got[1]
    viols, _ = run_case(case)
    if case.get('callback'):
        viols = [(sg.replace('write_pysam[consensus]', 'write_pysam[consensus,callback]', 1), d) for sg, d in viols]
    if case.get('incremental'):
        viols = [(sg.replace('deduplicate_majority', 'deduplicate_majority:after-an-earlier-consensus-request', 1), d) for sg, d in viols]
    return viols
