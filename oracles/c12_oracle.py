"""C12 oracle, written from the property statement only:

  "The per-cell, per-bin matrix of unique molecules counts each non-duplicate, non-rejected read-1 record
   passing the mapping-quality threshold (and not marked as non-uniquely mappable) exactly once, in the bin
   that contains its site coordinate ... Its total equals the number of such records in the BAM."

The BAM is read back record by record with pysam (until_eof, no index, no fetch windows); nothing of the
package under test is used.  A matrix is canonically  {(key tag values..., contig, bin_start): {cell: n}}.
"""
import pysam


def qualifies(read, min_mq):
    if not read.is_read1:
        return False
    if read.is_duplicate:
        return False
    if read.is_qcfail:                       # rejected molecules are written with the QC-fail flag
        return False
    if min_mq is not None and read.mapping_quality < min_mq:     # "Minimum mapping quality"
        return False
    if read.has_tag('mp') and read.get_tag('mp') != 'unique':
        return False
    return True


def expected(path, bin_size, min_mq, key_tags=None, in_contig_only=True, weight=None):
    """-> (matrix, n_qualifying_records, n_outside_contig)

    weight: None, or (query_name, qualifies) -> multiplicity; only used to EXPLAIN a discrepancy
    (what-if matrices such as "records of kind K counted twice"), never to decide one."""
    matrix = {}
    total = 0
    outside = 0
    with pysam.AlignmentFile(path) as f:
        lengths = dict(zip(f.references, f.lengths))
        for read in f.fetch(until_eof=True):
            w = 1 if qualifies(read, min_mq) else 0
            if weight is not None:
                w = weight(read.query_name, bool(w))
            if not w:
                continue
            site = int(read.get_tag('DS'))
            contig = read.reference_name
            if not (0 <= site < lengths[contig]):
                outside += 1
                if in_contig_only:
                    continue
            total += w
            cell = read.get_tag('SM')
            key = (contig, (site // bin_size) * bin_size)
            if key_tags:
                key = tuple(read.get_tag(t) if read.has_tag(t) else None for t in key_tags) + key
            row = matrix.setdefault(key, {})
            row[cell] = row.get(cell, 0) + w
    return matrix, total, outside


def tiling_ok(contig, start, end, bin_size, lengths):
    """is (contig, start, end) a bin of the tiling of the contig (last bin clipped or not, both accepted:
    the property only needs the bin to be identifiable and to contain the site)"""
    if contig not in lengths:
        return False
    if start % bin_size != 0 or not (0 <= start < lengths[contig]):
        return False
    return end in (start + bin_size, min(start + bin_size, lengths[contig]))


def diff(got, want):
    """-> (under, over) lists of (key, cell, got, want) with got<want / got>want"""
    under, over = [], []
    for key in sorted(set(got) | set(want), key=repr):
        g, w = got.get(key, {}), want.get(key, {})
        for cell in sorted(set(g) | set(w)):
            a, b = g.get(cell, 0), w.get(cell, 0)
            if a < b:
                under.append((key, cell, a, b))
            elif a > b:
                over.append((key, cell, a, b))
    return under, over


def total(matrix):
    return sum(n for row in matrix.values() for n in row.values())
