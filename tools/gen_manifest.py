#!/venv/bin/python
"""Regenerate /verif/MANIFEST.json from the table below and validate it against the schema."""
import json
import os
import sys

VERIF = os.path.dirname(os.path.dirname(os.path.abspath(__file__)))
sys.path.insert(0, VERIF)

# id -> (technique, level text, level note)
CHECKS = {}


def add(pid, technique, text, note, design_ref=None):
    CHECKS[pid] = dict(technique=technique, text=text, note=note, design_ref=design_ref or f'DESIGN.md section 3, {pid}')


from tools.manifest_table import TABLE, PENDING, AUDIT  # noqa: E402

for row in TABLE:
    add(*row)
for pid, (extra, note) in AUDIT.items():
    CHECKS[pid]['text'] = CHECKS[pid]['text'] + ' ' + extra
    CHECKS[pid]['note'] = note

all_ids = [json.loads(l)['id'] for l in open(os.path.join(VERIF, 'properties.jsonl'))]

checks = []
for pid in all_ids:
    if pid not in CHECKS:
        continue
    c = CHECKS[pid]
    checks.append({
        'property_id': pid,
        'quick_cmd': f'./check {pid} --tier quick',
        'thorough_cmd': f'./check {pid} --tier thorough',
        'evidence_file': f'/verif/evidence/{pid}.json',
        'replay_cmd_template': f'./check {pid} --replay {{path}}',
        'engine': 'mc',
        'level_claimed': {'category': 'model_checking', 'text': c['text'], 'design_ref': c['design_ref']},
        'level_note': c['note'],
        'technique': c['technique'],
    })

not_applicable = [{'property_id': pid, 'reason': PENDING.get(pid, 'check not built yet in this session; see DESIGN.md section 3 for its planned bounded-exhaustive design')}
                  for pid in all_ids if pid not in CHECKS]

manifest = {
    'version': 1,
    'setup_cmd': 'cd /verif && /venv/bin/python -m mc.selftest',
    'hooks': {
        'guard': 'SCMO_VERIF',
        'enable': 'export SCMO_VERIF=1 (set by ./check); no source hooks exist: every seam is a module attribute the harness replaces at run time',
        'baseline_off_cmd': 'cd /repo && env -u SCMO_VERIF /venv/bin/python -m pytest -ra -q -p no:cacheprovider --timeout=900 --continue-on-collection-errors',
        'source_commits': [],
        'add_only': True,
    },
    'engines': [{
        'name': 'mc',
        'path': '/verif/mc',
        'serves_properties': [c['property_id'] for c in checks],
        'kind_free_text': 'hand-written bounded-exhaustive explorer over the real Python implementation: product/word '
                          'enumeration with canonical dedup, BFS over operation histories, deviation-bounded fault '
                          'injection, owned schedulers; forked shard workers; replay-determinism gate',
    }],
    'checks': checks,
    'notes': 'All checks execute the implementation in /repo (fresh interpreter per run, VERIF_REPO overrides the root). '
             'Known findings: /verif/known_findings.jsonl. Seeded breaking changes: /verif/seeded/.',
    'not_applicable': not_applicable,
}

import jsonschema  # noqa: E402
schema = json.load(open(os.path.join(VERIF, 'schemas', 'MANIFEST.schema.json')))
jsonschema.validate(manifest, schema)
with open(os.path.join(VERIF, 'MANIFEST.json'), 'w') as f:
    json.dump(manifest, f, indent=1)
print('MANIFEST.json written:', len(checks), 'checks,', len(not_applicable), 'not_applicable')
