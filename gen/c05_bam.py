"""Input letters of C05 that go beyond gen/bam.py: unusual-but-legal record kinds, header lines an input may already
carry, states of the input's index.  Everything is deterministic; nothing here looks at the code under test."""
import os
import shutil

import pysam

from gen.bam import BG, Builder, _mk, base_tags

# CIGARs of the first mate of the 'clipped' class: (cigar, number of bases stored in the record)
CLIP_CIGARS = (('3S17M', 20), ('17M3S', 20), ('2H18M', 18), ('10M2I8M', 20), ('10M3D10M', 20), ('5M100N15M', 20))

RICH_HEADER = {
    # a read group with the very id the tagger derives for cell 1 (other attributes), and one nobody uses any more
    'RG': [{'ID': 'FLOWCELL.1.LIB_1', 'SM': 'somebody-else', 'LB': 'zzz', 'PL': 'X', 'PU': 'pu'}, {'ID': 'old', 'SM': 'old'}],
    # an aligner line naming a reference that is not on this machine, a program line without CL, and the lines two
    # earlier tagging runs left
    'PG': [{'ID': 'bwa', 'PN': 'bwa', 'CL': 'bwa mem /nonexistent/c05/ref.fa r1.fq r2.fq'},
           {'ID': 'minimap2', 'PN': 'minimap2'},
           {'ID': 'bamtagmultiome', 'PN': 'bamtagmultiome', 'CL': 'bamtagmultiome.py a.bam', 'VN': '1', 'PP': 'bwa'},
           {'ID': 'bamtagmultiome_0', 'PN': 'bamtagmultiome', 'CL': 'bamtagmultiome.py b.bam', 'VN': '1', 'PP': 'bamtagmultiome'}],
    'CO': ['a free text comment', 'scmo_blacklisted\tc0S:10 20\tsource:earlier-run'],
}


def builder(contigs, rich_header=False):
    b = Builder(contigs)
    if rich_header:
        d = b.h.to_dict()
        d.update(RICH_HEADER)
        b.h = pysam.AlignmentHeader.from_dict(d)
    return b


def add_unusual_mapped(b, contig, base, truth):
    """one fragment of every unusual record kind on `contig`, STEP bp apart starting at `base` (needs 1 150 bp)"""
    h = b.h
    S = STEP
    # reads the sequencer / an earlier tool marked QC-fail
    truth[b.pair(contig, base, cell=3, umi='GTA', qcfail=True)] = 'qcfail_in'
    # a pair somebody already marked duplicate and gave a read group (which the input header may or may not declare)
    dup = b.pair(contig, base + S, cell=3, umi='GTC', dup=True, extra_tags={'RG': 'old', 'SM': 'LB2_3', 'LY': 'LB2'})   # another library
    truth[dup] = 'valid'
    # supplementary and secondary alignments of that pair's first mate: not primary records, outside the claim,
    # but they must not disturb the primary ones
    t = base_tags(3, 'GTC', lib='LB2')
    b.reads.append(_mk(h, dup, BG[30:40], 0x1 | 0x40 | 0x800, contig, base + S + 30, '10M10H', contig, base + S + 30, t))
    b.reads.append(_mk(h, dup, BG[30:50], 0x1 | 0x40 | 0x100, contig, base + S + 40, '20M', contig, base + S + 30, t))
    # half-mapped the other way round: first mate unmapped (placed at its mate), second mate mapped
    t = base_tags(3, 'GCC')
    n = b._name()
    b.reads.append(_mk(h, n, BG[30:50], 0x1 | 0x40 | 0x4 | 0x20, contig, base + 2 * S, None, contig, base + 2 * S, t))
    b.reads.append(_mk(h, n, BG[150:170], 0x1 | 0x80 | 0x8 | 0x10, contig, base + 2 * S, '20M', contig, base + 2 * S, t))
    truth[n] = 'halfmapped'
    # a second mate whose first mate is not in the file
    n = b.pair(contig, base + 3 * S, cell=3, umi='GAC')
    del b.reads[-2]
    truth[n] = 'orphan'
    # single-end reads, both strands
    truth[b.single(contig, base + 4 * S, cell=3, umi='GAG')] = 'single'
    truth[b.single(contig, base + 5 * S, cell=3, umi='GAT', reverse=True)] = 'single'
    # a read with nothing but sample, UMI and protocol tags (no flow cell / lane / library)
    b.n += 1
    n = f'm{b.n:04d}'
    b.reads.append(_mk(h, n, 'CATG' + BG[30:46], 0, contig, base + 6 * S, '20M', None, -1,
                       {'SM': 'LIB_4', 'RX': 'ACA', 'MX': 'NLAIII384C8U3SE'}))
    truth[n] = 'single'
    # soft / hard clips, insertion, deletion, skipped region
    for i, (cigar, stored) in enumerate(CLIP_CIGARS):
        t = base_tags(3, 'CGA')
        b.n += 1
        n = f'k{b.n:04d}'
        p = base + 7 * S + S * i
        span = 20 + (3 if 'D' in cigar else 100 if 'N' in cigar else 0)
        b.reads.append(_mk(h, n, 'CATG' + BG[30:30 + stored - 4], 0x1 | 0x2 | 0x40 | 0x20, contig, p, cigar, contig, p + span + 20, t))
        b.reads.append(_mk(h, n, BG[150:170], 0x1 | 0x2 | 0x80 | 0x10, contig, p + span + 20, '4S16M', contig, p, t))
        truth[n] = 'clipped'


def add_unusual_unmapped(b, truth):
    """the unmapped bin: an unpaired unmapped read and a QC-failed unmapped pair"""
    b.n += 1
    n = f'v{b.n:04d}'
    b.reads.append(_mk(b.h, n, BG[30:50], 0x4, None, -1, None, None, -1, base_tags(2, 'GGG')))
    truth[n] = 'unmapped'
    b.n += 1
    n = f'w{b.n:04d}'
    t = base_tags(2, 'GGC')
    b.reads.append(_mk(b.h, n, BG[40:60], 0x1 | 0x4 | 0x8 | 0x40 | 0x200, None, -1, None, None, -1, t))
    b.reads.append(_mk(b.h, n, BG[90:110], 0x1 | 0x4 | 0x8 | 0x80 | 0x200, None, -1, None, None, -1, t))
    truth[n] = 'unmapped'


STEP = 80
INDEX_STATES = ('fresh', 'missing', 'stale', 'csi')


def make_foreign_index(contigs, directory):
    """the .bai of ANOTHER alignment file with the same contigs: what is left at <path>.bai when a pipeline replaced the
    BAM and did not index it again"""
    p = os.path.join(directory, 'foreign.bam')
    b = Builder(contigs)
    last = contigs[-1][0]
    for i in range(40):
        b.pair(last, 100 + 50 * i, cell=5, umi='TGT')
    b.write(p)
    with open(p + '.bai', 'rb') as f:
        data = f.read()
    os.remove(p)
    os.remove(p + '.bai')
    return data


def set_index_state(path, state, foreign_index, fresh_bai, fresh_csi):
    """put the index files next to `path` into `state` (the BAM itself is not touched apart from its mtime)"""
    for ext in ('.bai', '.csi'):
        if os.path.exists(path + ext):
            os.remove(path + ext)
    st = os.stat(path)
    if state == 'fresh':
        with open(path + '.bai', 'wb') as f:
            f.write(fresh_bai)
        os.utime(path + '.bai', (st.st_atime + 5, st.st_mtime + 5))
    elif state == 'missing':
        pass
    elif state == 'stale':
        with open(path + '.bai', 'wb') as f:
            f.write(foreign_index)
        os.utime(path + '.bai', (st.st_atime - 100, st.st_mtime - 100))
    elif state == 'csi':
        with open(path + '.csi', 'wb') as f:
            f.write(fresh_csi)
        os.utime(path + '.csi', (st.st_atime + 5, st.st_mtime + 5))
    else:
        raise ValueError(state)


def index_bytes(path):
    """(bai, csi) of the BAM at path, computed on a copy so that path's own index files are left alone"""
    d = os.path.dirname(path)
    tmp = os.path.join(d, '_idx_tmp.bam')
    shutil.copy(path, tmp)
    pysam.index(tmp)
    with open(tmp + '.bai', 'rb') as f:
        bai = f.read()
    os.remove(tmp + '.bai')
    pysam.index('-c', tmp)
    with open(tmp + '.csi', 'rb') as f:
        csi = f.read()
    os.remove(tmp + '.csi')
    os.remove(tmp)
    return bai, csi
