"""C09 - cut-site coordinates are correct and strand-symmetric.

Every fragment geometry of the alphabet is built on a known reference with a known cut coordinate,
once on the forward strand and once as its exact mirror image on the reverse-complemented
reference.  Oracle: simulator truth (site, strand, validity) + the mirror relation, observed on the
tags and qc-fail bit of BOTH mates, on the fragment attributes and on fragment equality (dedup).

kinds of cases
  nla      NlaIIIFragment, motif inside the read (overhang mode)
  nlaref   NlaIIIFragment(no_overhang=True, reference=<FastaFile>): motif in the reference next to the read
  r1less   fragments without a usable R1 (R2 only / R1 unmapped), both fragment classes
  chic     CHICFragment
  dedup    pairs of fragments: copies of one cut must be equal, and the equality relation of any two
           fragments must be the same in both orientations
"""
import atexit
import itertools
import os
import shutil
import tempfile

from gen.reads import header, make_read, debruijn_like

ID = 'C09'
RULE = ('NlaIII: full product of strand x R2 arrangement (none, proper, unmapped, same-strand) x clip at the read start (0..6S, 2H) x '
        'read tail (plain, 1S, 3S, 2H, 1I, 2D) x motif variant (exact, every single-base substitution incl. N, cycle shift -1/+1/+2, '
        'motif on the wrong end, two decoys) x allow_cycle_shift x check_motif x invert_strand x no_umi_cigar_processing x reference handle given, '
        'site at 50 and at contig coordinate 0 (mirror: last bases); '
        'no_overhang mode on an indexed FASTA: motif in the reference (exact, soft-masked lower/mixed case, every substitution, absent, behind the far end) x '
        'gap -1..4 x clip 0..4 x site at 50 / 0 / 2 (scan window leaves the contig) x R2 x invert_strand; '
        'fragments without R1 (absent / unmapped) x R2 arrangement for both classes; '
        'CHIC: trimmed/untrimmed x MX value x lh tag present/absent x strand x clip x tail x R2 arrangement x invert_strand x no_umi_cigar_processing; '
        'dedup: all pairs of a family of fragments (two cuts 1 bp apart x both strands x clip/tail shapes x single/paired x motif variant / layout) '
        'compared with == in both orders and both orientations; '
        'observed: DS, RS, RZ and qc-fail of every read of the fragment, site_location, strand, cut_site_strand, match_hash, ==; '
        'non-trivial = clipped or non-plain tail or non-exact motif or unusual R2 arrangement or a new kind (every case is executed on both strands); '
        'states = distinct (geometry, options) cases')
ASSUMPTIONS = [
    'reads are given in BAM orientation (reverse-strand reads reverse-complemented), as produced by an aligner',
    'check_motif=False is only combined with full-length motif geometries (nothing is "recognised" otherwise)',
    'no_umi_cigar_processing=True is only combined with reads not clipped at their start (the option disables the clip correction by design)',
    'a hard clip at the read START removes the motif / overhang from the record: only the mirror relation and the absence of exceptions are checked there',
    'validity of mis-oriented pairs (R2 on the same strand) is left open: if such a fragment is accepted its site must be right, if not it must carry no site',
    'cycle shifts the code does not claim to rescue (-1, +2) are left open in the same way',
    'no_overhang mode: acceptance is demanded only when the CATG is directly adjacent to an unclipped read start; for gaps / clips the '
    'fragment may be rejected, but an accepted one must carry the coordinate of the real CATG; RZ is not checked there',
    'CHIC fragments without R1 are left open (mirror relation only); NlaIII fragments without R1 cannot show the motif at their start and must be rejected',
    'soft-masked (lower-case) reference bases are the same bases (FASTA convention, every other reference access of the package upper-cases)',
]

L = 120
SITE = 50            # default forward-reference coordinate of the C of CATG (NlaIII) / of the cut base (CHIC); also 0
RLEN = 20
FRAG = 56
BG = debruijn_like(400, avoid=('CATG', 'ATG', 'CAT'))
_COMP = str.maketrans('ACGTNacgtn', 'TGCANtgcan')

START_CLIPS = [('S', k) for k in range(0, 7)] + [('H', 2)]
TAILS = ('none', 'S1', 'S3', 'H2', 'I1', 'D2')
INDEL_AT = 12        # query offset of the insertion / deletion letters (behind the longest start clip and the motif)


def revcomp(s):
    return s.translate(_COMP)[::-1]


def bounds(tier):
    return {'start_clips': ['%d%s' % (k, op) for op, k in START_CLIPS], 'tails': list(TAILS), 'read_length': RLEN, 'contig_length': L,
            'nla_variants': 'exact + 16 substitutions + shift(+1) + shiftm1 + shift2 + wrongend + decoy_TCAT + decoy_GCAT',
            'nla_r2': 'none, proper, unmapped, same-strand',
            'nla_sites': [50, 0],
            'nlaref': 'motif in reference: exact, lower, mixed, 16 substitutions, absent, farend; gap -1..4; clip 0..4; site 50/0/2; read on coordinate 0',
            'r1less': 'R1 absent / unmapped x R2 forward-with-CATG / reverse / unmapped, NlaIII and CHIC',
            'chic': 'trimmed/untrimmed x 3 MX values x lh present/absent x R2 in {none, proper, same-strand, unmapped}',
            'dedup': 'family of %d (NlaIII) / %d (CHIC) fragments per configuration, all unordered pairs incl. twins' % (
                len(list(dedup_members('nla', True))), len(list(dedup_members('chic', False)))),
            'tiers': 'quick: substitution and decoy variants only with a plain tail and R2 none/proper; thorough: full product'}


# ---------------------------------------------------------------- reference files (no_overhang mode, reference option)
_REF = {'dir': None, 'pid': None, 'handles': {}}


def nlaref_layouts():
    """name -> forward contig sequence (length L)"""
    out = {}
    plain = BG[:L]
    out['chr1'] = plain[:SITE] + 'CATG' + plain[SITE + 4:]          # the reference the overhang-mode reads at site 50 come from
    out['absent_-4'] = plain                                       # a read starting on coordinate 0: nothing in front of it
    for vname, motif in nlaref_variants():
        for pos in (50, 0, 2):
            if vname == 'absent':
                seq = plain
            elif vname == 'farend':
                # the only CATG lies directly BEHIND the far end of a read starting at pos+4
                p = pos + 4 + RLEN
                seq = plain[:p] + 'CATG' + plain[p + 4:]
            else:
                seq = plain[:pos] + motif + plain[pos + 4:]
            out[f'{vname}_{pos}'] = seq
    return out


def nlaref_alt_layouts():
    """another assembly with the SAME contig names and lengths: where the real reference has a recognisable motif the other
    one has none and vice versa (used for the history 'a fragment on another reference first')"""
    out = {}
    plain = BG[:L]
    for name, seq in nlaref_layouts().items():
        if 'CATG' in seq.upper():
            out[name] = plain
        else:
            pos = int(name.rsplit('_', 1)[1]) if '_' in name else SITE
            pos = max(pos, 0)
            out[name] = plain[:pos] + 'CATG' + plain[pos + 4:]
    return out


def nlaref_variants():
    v = [('exact', 'CATG'), ('lower', 'catg'), ('mixed', 'CAtg')]
    for i in range(4):
        for b in 'ACGTN':
            if b != 'CATG'[i]:
                v.append((f'subst{i}{b}', 'CATG'[:i] + b + 'CATG'[i + 1:]))
    v.append(('absent', None))
    v.append(('farend', None))
    return v


def setup():
    """write the two FASTA files (forward references and their reverse complements, same contig names)"""
    if _REF['dir'] is not None and os.path.isdir(_REF['dir']):
        return
    import pysam
    d = tempfile.mkdtemp(prefix='c09_', dir='/dev/shm' if os.path.isdir('/dev/shm') else None)
    lay = nlaref_layouts()
    alt = nlaref_alt_layouts()
    for fn, f, src in (('fwd.fa', lambda s: s, lay), ('rc.fa', revcomp, lay), ('alt_fwd.fa', lambda s: s, alt), ('alt_rc.fa', revcomp, alt)):
        with open(os.path.join(d, fn), 'w') as h:
            for name in sorted(src):
                h.write(f'>{name}\n{f(src[name])}\n')
        pysam.faidx(os.path.join(d, fn))
    _REF['dir'], _REF['pid'] = d, os.getpid()
    atexit.register(_cleanup, d, os.getpid())


def _cleanup(d, pid):
    if os.getpid() == pid:
        shutil.rmtree(d, ignore_errors=True)


def ref_handle(strand):
    import pysam
    setup()
    key = (os.getpid(), strand)
    if key not in _REF['handles']:
        fn = {'forward': 'fwd.fa', 'reverse': 'rc.fa', 'alt-forward': 'alt_fwd.fa', 'alt-reverse': 'alt_rc.fa'}[strand]
        _REF['handles'][key] = pysam.FastaFile(os.path.join(_REF['dir'], fn))
    return _REF['handles'][key]


# ---------------------------------------------------------------- read construction
def nla_variants():
    v = [('exact', 'CATG')]
    for i in range(4):
        for b in 'ACGTN':
            if b != 'CATG'[i]:
                v.append((f'subst{i}{b}', 'CATG'[:i] + b + 'CATG'[i + 1:]))
    v.append(('shift', 'ATG'))
    v.append(('wrongend', None))
    v.append(('decoy_TCAT', 'TCAT'))
    v.append(('decoy_GCAT', 'GCAT'))
    v.append(('shiftm1', 'TCATG'))
    v.append(('shift2', 'TG'))
    return v


SHIFTED = ('shift', 'shiftm1', 'shift2')


def r1_spec(seq, start_ref, sclip, tail):
    """Forward-strand R1 whose first sequenced base lies on reference coordinate start_ref.
    sclip = (op, k): k bases at the read start soft ('S') or hard ('H') clipped; tail: what happens behind."""
    op, k = sclip
    qual = ''.join(chr(40 + i) for i in range(len(seq)))
    cig = []
    if k:
        cig.append((op, k))
        if op == 'H':
            seq, qual = seq[k:], qual[k:]
    n = RLEN - k                     # bases behind the clip
    if tail == 'none':
        cig.append(('M', n))
    elif tail in ('S1', 'S3'):
        t = int(tail[1])
        cig += [('M', n - t), ('S', t)]
    elif tail == 'H2':
        cig += [('M', n - 2), ('H', 2)]
        seq, qual = seq[:-2], qual[:-2]
    elif tail == 'I1':
        a = INDEL_AT - k
        cig += [('M', a), ('I', 1), ('M', n - a - 1)]
    elif tail == 'D2':
        a = INDEL_AT - k
        cig += [('M', a), ('D', 2), ('M', n - a)]
    else:
        raise ValueError(tail)
    return {'seq': seq, 'qual': qual, 'pos': start_ref + k, 'cigar': cig, 'reverse': False, 'unmapped': False}


def r2_spec(r2mode, site, r1):
    qual = ''.join(chr(40 + i) for i in range(RLEN))
    if r2mode == 'none':
        return None
    if r2mode == 'proper':
        return {'seq': BG[100:100 + RLEN], 'qual': qual, 'pos': site + FRAG - RLEN, 'cigar': [('M', RLEN)],
                'reverse': True, 'unmapped': False}
    if r2mode == 'same-strand':
        return {'seq': BG[100:100 + RLEN], 'qual': qual, 'pos': site + FRAG - RLEN, 'cigar': [('M', RLEN)],
                'reverse': False, 'unmapped': False}
    if r2mode == 'unmapped':
        return {'seq': BG[100:100 + RLEN], 'qual': qual, 'pos': r1['pos'], 'cigar': [], 'reverse': False,
                'unmapped': True}
    raise ValueError(r2mode)


def mirror_read(spec):
    """spec: dict(seq, qual, pos, cigar(list of (op,len)), reverse, unmapped) -> mirrored on the revcomp reference"""
    if spec is None:
        return None
    m = dict(spec)
    if spec['unmapped']:
        # an unmapped read is stored as sequenced; it is placed on its mate's coordinate (set by the caller)
        return m
    ref_len = sum(l for op, l in spec['cigar'] if op in 'MD')
    m['seq'] = revcomp(spec['seq'])
    m['qual'] = spec['qual'][::-1]
    m['pos'] = L - (spec['pos'] + ref_len)
    m['cigar'] = spec['cigar'][::-1]
    m['reverse'] = not spec['reverse']
    return m


def mirror_pair(specs):
    m = [mirror_read(s) for s in specs]
    for i in (0, 1):
        if m[i] is not None and m[i]['unmapped'] and m[1 - i] is not None and not m[1 - i]['unmapped']:
            m[i] = dict(m[i], pos=m[1 - i]['pos'])
    return tuple(m)


def cigar_str(c):
    return ''.join(f'{l}{op}' for op, l in c)


def build_pair(specs, tags_r1, contig='chr1'):
    hdr = header([(contig, L)])
    s1, s2 = specs
    reads = []
    for i, s in enumerate((s1, s2)):
        if s is None:
            reads.append(None)
            continue
        other = specs[1 - i]
        mate = None
        if other is not None:
            mate = (contig, other['pos'], other['reverse'], other['unmapped'])
        tags = {'SM': 'LIB_1', 'RX': 'ACG', 'BC': 'AAAA', 'bi': 1, 'MQ': 60}
        tags.update(tags_r1)
        r = make_read(hdr, 'frag', s['seq'], contig, s['pos'], cigar_str(s['cigar']), reverse=s['reverse'],
                      read1=(i == 0), paired=(other is not None), mate=mate, qual=s['qual'], tags=tags,
                      unmapped=s['unmapped'], proper=(other is not None and s['reverse'] != other['reverse']))
        reads.append(r)
    return reads


# ---------------------------------------------------------------- observation
def _tag(r, t):
    return r.get_tag(t) if r.has_tag(t) else None


def observe(frag):
    reads = list(frag.reads)
    try:
        valid = bool(frag.is_valid())
    except Exception as ex:
        return {'exception': f'is_valid:{type(ex).__name__}'}
    o = {'valid': valid}
    per = []
    for r in reads:
        per.append(None if r is None else {'DS': _tag(r, 'DS'), 'RS': _tag(r, 'RS'), 'RZ': _tag(r, 'RZ')})
    first = next(p for p in per if p is not None)
    o.update(first)              # DS / RS / RZ of the first read of the fragment (R1 when present)
    o['reads'] = per
    sl = getattr(frag, 'site_location', None)
    o['site_location'] = list(sl) if sl is not None else None
    o['strand'] = getattr(frag, 'strand', None)
    o['cut_site_strand'] = getattr(frag, 'cut_site_strand', None)
    mh = getattr(frag, 'match_hash', None)
    o['match_hash'] = list(mh) if mh is not None else None
    try:
        frag.write_tags()
    except Exception as ex:
        o['exception'] = f'write_tags:{type(ex).__name__}'
    o['qcfail_reads'] = [None if r is None else bool(r.is_qcfail) for r in reads]
    o['qcfail'] = bool(next(r for r in reads if r is not None).is_qcfail)
    o['DS_after_reads'] = [None if r is None else _tag(r, 'DS') for r in reads]
    o['DS_after'] = next(_tag(r, 'DS') for r in reads if r is not None)
    return o


def judge(pre, o, want, want_site, want_rs, want_rz=None, contig='chr1', check_site_location=True):
    """want in accept / reject / either / open; returns list of (signature, detail)"""
    out = []
    if want == 'open':
        return out
    valid = o['valid']
    if want == 'accept' and not valid:
        return [(f'{pre}:fragment-with-motif-rejected', o)]
    if want == 'reject' and valid:
        out.append((f'{pre}:fragment-without-motif-accepted', o))
    present = [p for p in o['reads'] if p is not None]
    if valid and want in ('accept', 'either'):
        if o['DS'] != want_site:
            out.append((f'{pre}:wrong-site-coordinate', {'obs': o, 'want_DS': want_site}))
        elif any(p['DS'] != want_site for p in present) or any(d != want_site for d in o['DS_after_reads'] if d is not None) \
                or any(d is None for r, d in zip(o['reads'], o['DS_after_reads']) if r is not None):
            out.append((f'{pre}:site-tag-differs-between-mates', {'obs': o, 'want_DS': want_site}))
        if o['RS'] is None or bool(o['RS']) != want_rs:
            out.append((f'{pre}:wrong-strand-tag', {'obs': o, 'want_RS': want_rs}))
        elif any(p['RS'] is None or bool(p['RS']) != want_rs for p in present):
            out.append((f'{pre}:strand-tag-differs-between-mates', {'obs': o, 'want_RS': want_rs}))
        if want_rz is not None:
            if o['RZ'] != want_rz:
                out.append((f'{pre}:wrong-recognised-sequence', o))
            elif any(p['RZ'] != want_rz for p in present):
                out.append((f'{pre}:recognised-sequence-differs-between-mates', o))
        if o['qcfail']:
            out.append((f'{pre}:valid-fragment-flagged-qcfail', o))
        elif any(q for q in o['qcfail_reads'] if q is not None):
            out.append((f'{pre}:valid-fragment-mate-flagged-qcfail', o))
        if check_site_location and o['site_location'] != [contig, want_site]:
            out.append((f'{pre}:site_location-attribute-differs-from-site', {'obs': o, 'want': [contig, want_site]}))
    if not valid and want in ('reject', 'either'):
        if o['DS'] is not None or o['DS_after'] is not None:
            out.append((f'{pre}:rejected-fragment-assigned-a-site', o))
        elif any(p['DS'] is not None for p in present) or any(d is not None for d in o['DS_after_reads']):
            out.append((f'{pre}:rejected-fragment-mate-assigned-a-site', o))
        if not o['qcfail']:
            out.append((f'{pre}:rejected-fragment-not-flagged-qcfail', o))
        elif not all(q for q in o['qcfail_reads'] if q is not None):
            out.append((f'{pre}:rejected-fragment-mate-not-flagged-qcfail', o))
    return out


def mirror_judge(kind, obs, site_span):
    """the mirror relation, independent of the truth table; site_span = 4 (NlaIII: site is the first of 4 bases) or 1"""
    out = []
    f, r = obs['forward'], obs['reverse']
    if 'exception' in f or 'exception' in r:
        if ('exception' in f) != ('exception' in r):
            out.append((f'{kind}:mirror:exception-on-one-strand-only', obs))
        return out
    if f['valid'] != r['valid']:
        out.append((f'{kind}:mirror:validity-differs-between-strands', obs))
        return out
    if f['valid'] and f['DS'] is not None and r['DS'] is not None and r['DS'] != L - site_span - f['DS']:
        out.append((f'{kind}:mirror:site-not-mirrored', obs))
    if (f['DS'] is None) != (r['DS'] is None) or (f['DS_after'] is None) != (r['DS_after'] is None):
        out.append((f'{kind}:mirror:site-assigned-on-one-strand-only', obs))
    if f['valid']:
        if f['RS'] is not None and r['RS'] is not None and bool(f['RS']) == bool(r['RS']):
            out.append((f'{kind}:mirror:strand-tag-not-mirrored', obs))
        if f['cut_site_strand'] is not None and r['cut_site_strand'] is not None and \
                bool(f['cut_site_strand']) == bool(r['cut_site_strand']):
            out.append((f'{kind}:mirror:cut_site_strand-not-mirrored', obs))
        if f['strand'] is not None and r['strand'] is not None and bool(f['strand']) == bool(r['strand']):
            out.append((f'{kind}:mirror:strand-attribute-not-mirrored', obs))
        fs, rs = f['site_location'], r['site_location']
        if (fs is None) != (rs is None) or (fs is not None and rs[1] != L - site_span - fs[1]):
            out.append((f'{kind}:mirror:site_location-not-mirrored', obs))
    if (f['match_hash'] is None) != (r['match_hash'] is None):
        out.append((f'{kind}:mirror:match_hash-on-one-strand-only', obs))
    if f['qcfail_reads'] != r['qcfail_reads']:
        out.append((f'{kind}:mirror:qcfail-differs-between-strands', obs))
    return out


def exc_sig(pre, o):
    p = o['exception'].split(':')
    return f'{pre}:exception:{p[0]}:{p[1]}'


def clip_class(case):
    op, k = case['sclip']
    return 'hardclipped' if (k and op == 'H') else ('clipped' if k else 'unclipped')


# ---------------------------------------------------------------- NlaIII, motif inside the read
def nla_forward_specs(case):
    variant, motif, site = case['variant'], case['motif'], case['site']
    if variant == 'shift':
        start = site + 1                      # first base of the motif was lost
        seq = 'ATG' + BG[10:10 + RLEN - 3]
    elif variant == 'shift2':
        start = site + 2                      # first two bases lost
        seq = 'TG' + BG[10:10 + RLEN - 2]
    elif variant == 'shiftm1':
        start = site - 1                      # one extra base in front of the motif
        seq = 'TCATG' + BG[10:10 + RLEN - 5]
    elif variant == 'wrongend':
        start = site
        seq = BG[10:10 + RLEN - 4] + 'CATG'
    else:
        start = site
        seq = motif + BG[10:10 + RLEN - 4]
    s1 = r1_spec(seq, start, tuple(case['sclip']), case['tail'])
    return s1, r2_spec(case['r2'], site, s1)


def nla_cases(tier):
    slim = ('exact',) + SHIFTED + ('wrongend',)
    for (variant, motif), sclip, tail, r2mode, acs, cm, inv, nocig in itertools.product(
            nla_variants(), START_CLIPS, TAILS, ('none', 'proper', 'unmapped', 'same-strand'),
            (False, True), (True, False), (False, True), (False, True)):
        if not cm and variant in SHIFTED:
            continue
        if nocig and sclip[1] > 0:
            continue
        if tier == 'quick' and variant not in slim and (tail != 'none' or r2mode not in ('none', 'proper') or sclip[0] == 'H'):
            continue
        for site in (50, 0):       # 0: the motif sits on the very first bases of the contig (its mirror: on the very last)
            if site == 0 and (inv or nocig or not cm or variant == 'shiftm1'):
                continue
            for ref in (False, True):
                if ref and (site == 0 or inv or nocig or not cm or variant not in slim):
                    continue
                yield {'kind': 'nla', 'variant': variant, 'motif': motif, 'sclip': list(sclip), 'tail': tail, 'r2': r2mode,
                       'allow_cycle_shift': acs, 'check_motif': cm, 'invert_strand': inv, 'no_umi_cigar_processing': nocig,
                       'site': site, 'reference': ref}


def nla_expect(case):
    v = case['variant']
    if case['sclip'][0] == 'H' and case['sclip'][1] > 0:
        return 'open'
    if not case['check_motif']:
        base = 'accept'      # every full-length geometry is accepted, site = read start
    elif v == 'exact':
        base = 'accept'
    elif v == 'shift':
        base = 'accept' if case['allow_cycle_shift'] else 'reject'
    elif v in ('shiftm1', 'shift2'):
        base = 'either'
    else:
        base = 'reject'
    if case['r2'] == 'same-strand' and base == 'accept':
        return 'either'
    return base


def vclass_of(variant):
    if variant in ('exact', 'wrongend') + SHIFTED:
        return variant
    return 'substitution' if variant.startswith('subst') else 'decoy'


def run_nla(case):
    from singlecellmultiomics.fragment import NlaIIIFragment
    out = []
    site = case['site']
    fwd = nla_forward_specs(case)
    obs = {}
    want = nla_expect(case)
    for strand, specs in (('forward', fwd), ('reverse', mirror_pair(fwd))):
        reads = build_pair(specs, {})
        kw = {}
        if case['reference']:
            kw['reference'] = ref_handle(strand)
        try:
            frag = NlaIIIFragment(reads, allow_cycle_shift=case['allow_cycle_shift'], check_motif=case['check_motif'],
                                  invert_strand=case['invert_strand'],
                                  no_umi_cigar_processing=case['no_umi_cigar_processing'], **kw)
            o = observe(frag)
        except Exception as ex:
            o = {'exception': f'constructor:{type(ex).__name__}:{ex}'}
        obs[strand] = o
        pre = f"nla:{strand}:{vclass_of(case['variant'])}:{clip_class(case)}"
        if 'exception' in o:
            out.append((exc_sig(pre, o), o))
            continue
        want_site = site if strand == 'forward' else L - 4 - site
        want_rs = (strand == 'reverse') != case['invert_strand']
        want_rz = 'CATG' if (case['variant'] == 'exact' and case['check_motif']) else None
        out += judge(pre, o, want, want_site, want_rs, want_rz)
    out += mirror_judge('nla', obs, 4)
    return out, obs


# ---------------------------------------------------------------- NlaIII, motif outside the read (no_overhang)
def nlaref_cases(tier):
    for (variant, _m), pos, gap, clip, r2mode, inv in itertools.product(
            nlaref_variants(), (50, 0, 2), (0, 1, 2, 3, 4, -1), range(0, 5), ('none', 'proper'), (False, True)):
        if variant not in ('exact', 'lower', 'mixed') and (gap != 0 or clip != 0):
            continue
        for hist in (None, 'other-reference-first'):
            extra = {'history': hist} if hist else {}
            if variant == 'absent' and pos == 0:
                yield dict({'kind': 'nlaref', 'variant': variant, 'pos': -4, 'gap': gap, 'clip': clip, 'r2': r2mode, 'invert_strand': inv}, **extra)
            yield dict({'kind': 'nlaref', 'variant': variant, 'pos': pos, 'gap': gap, 'clip': clip, 'r2': r2mode, 'invert_strand': inv}, **extra)


def nlaref_expect(case):
    if case['variant'] in ('exact', 'lower', 'mixed'):
        return 'accept' if (case['gap'] == 0 and case['clip'] == 0) else 'either'
    return 'reject'


def run_nlaref(case):
    from singlecellmultiomics.fragment import NlaIIIFragment
    out = []
    contig = f"{case['variant']}_{case['pos']}"
    refseq = nlaref_layouts()[contig]
    start = case['pos'] + 4 + case['gap']        # reference coordinate of the first sequenced base
    seq = refseq[start:start + RLEN].upper()
    s1 = r1_spec(seq, start, ('S', case['clip']), 'none')
    fwd = (s1, r2_spec(case['r2'], case['pos'], s1))
    obs = {}
    want = nlaref_expect(case)
    vclass = case['variant'] if not case['variant'].startswith('subst') else 'substitution'
    place = 'mid' if case['pos'] == 50 else 'contig-edge'      # -4, 0, 2: the scan window touches / leaves the contig
    for strand, specs in (('forward', fwd), ('reverse', mirror_pair(fwd))):
        reads = build_pair(specs, {}, contig=contig)
        if case.get('history') == 'other-reference-first':
            # the same process handled a fragment with the same coordinates on ANOTHER assembly (same contig names) before:
            # nothing remembered about a reference may be keyed by contig name / coordinates alone
            try:
                NlaIIIFragment(build_pair(specs, {}, contig=contig), no_overhang=True, reference=ref_handle('alt-' + strand),
                               invert_strand=case['invert_strand'])
            except Exception:
                pass
        try:
            frag = NlaIIIFragment(reads, no_overhang=True, reference=ref_handle(strand), invert_strand=case['invert_strand'])
            o = observe(frag)
        except Exception as ex:
            o = {'exception': f'constructor:{type(ex).__name__}:{ex}'}
        obs[strand] = o
        pre = f'nlaref:{strand}:{vclass}:{place}' + (':after-a-fragment-on-another-reference' if case.get('history') else '')
        if 'exception' in o:
            out.append((exc_sig(pre, o), o))
            continue
        want_site = case['pos'] if strand == 'forward' else L - 4 - case['pos']
        want_rs = (strand == 'reverse') != case['invert_strand']
        out += judge(pre, o, want, want_site, want_rs, None, contig=contig)
    out += mirror_judge('nlaref', obs, 4)
    return out, obs


# ---------------------------------------------------------------- fragments without a usable R1
def r1less_cases(tier):
    for cls, r1, r2, inv, acs, mx in itertools.product(('nla', 'chic'), ('absent', 'unmapped'),
                                                       ('forward-CATG', 'reverse', 'unmapped'), (False, True), (False, True),
                                                       (None, 'scCHIC384C8U3')):
        if cls == 'nla' and mx is not None:
            continue
        if cls == 'chic' and acs:
            continue
        if r1 == 'absent' and r2 == 'unmapped':
            continue      # nothing mapped and no mate to sit on: not a fragment of a coordinate sorted file
        yield {'kind': 'r1less', 'cls': cls, 'r1': r1, 'r2': r2, 'invert_strand': inv, 'allow_cycle_shift': acs, 'MX': mx}


def run_r1less(case):
    from singlecellmultiomics.fragment import NlaIIIFragment, CHICFragment
    out = []
    qual = ''.join(chr(40 + i) for i in range(RLEN))
    if case['r2'] == 'forward-CATG':     # R2 looks exactly like a perfect R1 (tempting to use it instead)
        s2 = {'seq': 'CATG' + BG[10:10 + RLEN - 4], 'qual': qual, 'pos': SITE, 'cigar': [('M', RLEN)], 'reverse': False, 'unmapped': False}
    elif case['r2'] == 'reverse':
        s2 = {'seq': BG[100:100 + RLEN - 4] + 'CATG', 'qual': qual, 'pos': SITE, 'cigar': [('M', RLEN)], 'reverse': True, 'unmapped': False}
    else:
        s2 = {'seq': BG[100:100 + RLEN], 'qual': qual, 'pos': SITE, 'cigar': [], 'reverse': False, 'unmapped': True}
    s1 = None if case['r1'] == 'absent' else {'seq': 'CATG' + BG[30:30 + RLEN - 4], 'qual': qual, 'pos': s2['pos'], 'cigar': [],
                                              'reverse': False, 'unmapped': True}
    fwd = (s1, s2)
    obs = {}
    tags = {'lh': 'TA'}
    if case['MX'] is not None:
        tags['MX'] = case['MX']
    for strand, specs in (('forward', fwd), ('reverse', mirror_pair(fwd))):
        reads = build_pair(specs, tags if case['cls'] == 'chic' else {})
        try:
            if case['cls'] == 'nla':
                frag = NlaIIIFragment(reads, invert_strand=case['invert_strand'], allow_cycle_shift=case['allow_cycle_shift'])
            else:
                frag = CHICFragment(reads, invert_strand=case['invert_strand'])
            o = observe(frag)
        except Exception as ex:
            o = {'exception': f'constructor:{type(ex).__name__}:{ex}'}
        obs[strand] = o
        pre = f"r1less:{case['cls']}:{strand}:R1-{case['r1']}"
        if 'exception' in o:
            out.append((exc_sig(pre, o), o))
            continue
        if case['cls'] == 'nla':
            out += judge(pre, o, 'reject', None, None)
    out += mirror_judge(f"r1less:{case['cls']}", obs, 4 if case['cls'] == 'nla' else 1)
    return out, obs


# ---------------------------------------------------------------- CHIC
def chic_forward_specs(case):
    """MNase fragment on the forward strand; the ligated overhang base sits at SITE+1, so the site
    (the base adjacent to it, outside the fragment) is SITE."""
    site, trimmed = case['site'], case['trimmed']
    overhang = site + 1
    start = overhang + 1 if trimmed else overhang
    seq = BG[20:20 + RLEN] if trimmed else 'T' + BG[20:20 + RLEN - 1]
    s1 = r1_spec(seq, start, tuple(case['sclip']), case['tail'])
    return s1, r2_spec(case['r2'], site, s1)


def chic_cases(tier):
    for trimmed, sclip, tail, r2mode, inv, nocig, lh in itertools.product(
            (True, False), START_CLIPS, TAILS, ('none', 'proper', 'same-strand', 'unmapped'),
            (False, True), (False, True), (True, False)):
        if nocig and sclip[1] > 0:
            continue
        for mx in (('scCHIC384C8U3', 'scCHIC384C8U3l', 'scCHIC384C8U3se') if trimmed else (None, 'CS2C8U6', 'NLAIII384C8U3')):
            if tier == 'quick' and mx not in ('scCHIC384C8U3', None) and (tail != 'none' or not lh):
                continue
            for site in (50, 0):
                if site == 0 and (inv or nocig):
                    continue
                yield {'kind': 'chic', 'trimmed': trimmed, 'MX': mx, 'sclip': list(sclip), 'tail': tail, 'r2': r2mode,
                       'invert_strand': inv, 'no_umi_cigar_processing': nocig, 'site': site, 'lh': lh}


def run_chic(case):
    from singlecellmultiomics.fragment import CHICFragment
    out = []
    site = case['site']
    fwd = chic_forward_specs(case)
    obs = {}
    tags = {}
    if case['lh']:
        tags['lh'] = 'TA'
    if case['MX'] is not None:
        tags['MX'] = case['MX']
    hard = case['sclip'][0] == 'H' and case['sclip'][1] > 0
    for strand, specs in (('forward', fwd), ('reverse', mirror_pair(fwd))):
        reads = build_pair(specs, tags)
        try:
            frag = CHICFragment(reads, invert_strand=case['invert_strand'],
                                no_umi_cigar_processing=case['no_umi_cigar_processing'])
            o = observe(frag)
        except Exception as ex:
            o = {'exception': f'constructor:{type(ex).__name__}:{ex}'}
        obs[strand] = o
        pre = f"chic:{strand}:{'trimmed' if case['trimmed'] else 'untrimmed'}:{clip_class(case)}"
        if 'exception' in o:
            out.append((exc_sig(pre, o), o))
            continue
        if hard:
            continue
        want_site = site if strand == 'forward' else L - 1 - site
        want_rs = (strand == 'reverse') != case['invert_strand']
        if case['r2'] == 'same-strand':
            # validity of mis-oriented pairs is open; an accepted one must carry the right site, a rejected one none
            if o['valid']:
                out += judge(pre, o, 'either', want_site, want_rs)
            elif o['DS'] is not None or o['DS_after'] is not None or any(d is not None for d in o['DS_after_reads']):
                out.append((f'{pre}:rejected-fragment-assigned-a-site', o))
            continue
        if not o['valid']:
            out.append((f'{pre}:fragment-rejected', o))
        else:
            out += judge(pre, o, 'accept', want_site, want_rs)
    out += mirror_judge('chic', obs, 1)
    return out, obs


# ---------------------------------------------------------------- dedup: equality of fragments
DEDUP_SHAPES = ((('S', 0), 'none'), (('S', 3), 'none'), (('S', 0), 'S3'), (('S', 6), 'none'), (('S', 2), 'D2'))


def dedup_members(cls, acs):
    """descriptors of the fragments of one family (forward orientation)"""
    sites = (50, 51)
    if cls == 'nla':
        variants = ('exact', 'shift') if acs else ('exact',)
        for site, opp, variant, (sclip, tail), r2 in itertools.product(sites, (False, True), variants, DEDUP_SHAPES, ('none', 'proper')):
            yield {'site': site, 'opp': opp, 'variant': variant, 'sclip': list(sclip), 'tail': tail, 'r2': r2}
    else:
        for site, opp, trimmed, (sclip, tail), r2 in itertools.product(sites, (False, True), (True, False), DEDUP_SHAPES, ('none', 'proper')):
            yield {'site': site, 'opp': opp, 'trimmed': trimmed, 'sclip': list(sclip), 'tail': tail, 'r2': r2}


def dedup_cfgs():
    for inv, acs, allele in ((False, False, False), (True, False, False), (False, True, False), (False, False, True), (True, True, True)):
        yield {'cls': 'nla', 'invert_strand': inv, 'allow_cycle_shift': acs, 'use_allele_tag': allele}
    for inv in (False, True):
        yield {'cls': 'chic', 'invert_strand': inv, 'allow_cycle_shift': False, 'use_allele_tag': False}
    # a non-zero assignment radius must neither separate the copies of one cut nor break the symmetry
    yield {'cls': 'chic', 'invert_strand': False, 'allow_cycle_shift': False, 'use_allele_tag': False, 'assignment_radius': 2}


def dedup_build(cfg, m, orientation):
    """the fragment of member m; members with opp=True lie on the other strand and have the SAME site coordinate"""
    from singlecellmultiomics.fragment import NlaIIIFragment, CHICFragment
    span = 4 if cfg['cls'] == 'nla' else 1
    site = (L - span - m['site']) if m['opp'] else m['site']
    if cfg['cls'] == 'nla':
        case = {'variant': m['variant'], 'motif': 'CATG', 'site': site, 'sclip': m['sclip'], 'tail': m['tail'], 'r2': m['r2']}
        specs = nla_forward_specs(case)
        tags = {'DA': 'a'} if cfg['use_allele_tag'] else {}      # every copy carries the same allele
    else:
        case = {'trimmed': m['trimmed'], 'site': site, 'sclip': m['sclip'], 'tail': m['tail'], 'r2': m['r2']}
        specs = chic_forward_specs(case)
        tags = {'lh': 'TA'}
        if m['trimmed']:
            tags['MX'] = 'scCHIC384C8U3'
    if m['opp']:
        specs = mirror_pair(specs)
    if orientation == 'reverse':
        specs = mirror_pair(specs)
    reads = build_pair(specs, tags)
    if cfg['cls'] == 'nla':
        return NlaIIIFragment(reads, invert_strand=cfg['invert_strand'], allow_cycle_shift=cfg['allow_cycle_shift'],
                              use_allele_tag=cfg['use_allele_tag'])
    kw = {'assignment_radius': cfg['assignment_radius']} if 'assignment_radius' in cfg else {}
    return CHICFragment(reads, invert_strand=cfg['invert_strand'], **kw)


def dedup_eval(cfg, a, b, frags=None):
    """-> (violations, obs); frags: optional cache {(orientation, index)} is NOT used for replay"""
    out = []
    obs = {}
    same_cut = a['site'] == b['site'] and a['opp'] == b['opp']
    pre = f"dedup:{cfg['cls']}"
    for orientation in ('forward', 'reverse'):
        try:
            fa = dedup_build(cfg, a, orientation)
            fb = dedup_build(cfg, b, orientation)
            va, vb = bool(fa.is_valid()), bool(fb.is_valid())
            ab, ba = bool(fa == fb), bool(fb == fa)
        except Exception as ex:
            obs[orientation] = {'exception': f'{type(ex).__name__}:{ex}'}
            out.append((f'{pre}:{orientation}:exception:{type(ex).__name__}', obs[orientation]))
            continue
        obs[orientation] = {'valid': [va, vb], 'eq': [ab, ba], 'hash': [list(fa.match_hash) if fa.match_hash else None,
                                                                       list(fb.match_hash) if fb.match_hash else None]}
        if not (va and vb):
            out.append((f'{pre}:{orientation}:fragment-with-motif-rejected', obs[orientation]))
            continue
        if ab != ba:
            out.append((f'{pre}:{orientation}:equality-not-symmetric', obs[orientation]))
        if same_cut and not (ab and ba):
            out.append((f'{pre}:{orientation}:copies-of-one-cut-not-equal', obs[orientation]))
    f, r = obs.get('forward', {}), obs.get('reverse', {})
    if 'eq' in f and 'eq' in r and f['eq'] != r['eq']:
        out.append((f'{pre}:mirror:orientations-deduplicate-differently', obs))
    return out, obs


def dedup_pairs(cfg):
    members = list(dedup_members(cfg['cls'], cfg['allow_cycle_shift']))
    for i in range(len(members)):
        for j in range(i, len(members)):
            yield i, j, members[i], members[j]


# ---------------------------------------------------------------- engine interface
N_NLA, N_CHIC, N_REF, N_DEDUP = 32, 12, 4, 4


def shards(tier):
    s = [('nla', i, N_NLA) for i in range(N_NLA)] + [('chic', i, N_CHIC) for i in range(N_CHIC)]
    s += [('nlaref', i, N_REF) for i in range(N_REF)] + [('r1less', 0, 1)]
    for c, cfg in enumerate(dedup_cfgs()):
        s += [('dedup', (c, i), N_DEDUP) for i in range(N_DEDUP)]
    return s


GEN = {'nla': nla_cases, 'chic': chic_cases, 'nlaref': nlaref_cases, 'r1less': r1less_cases}
RUN = {'nla': run_nla, 'chic': run_chic, 'nlaref': run_nlaref, 'r1less': run_r1less}


def _label(kind, case, obs):
    fv, rv = obs['forward'].get('valid'), obs['reverse'].get('valid')
    if kind == 'nla':
        return f"nla:{vclass_of(case['variant'])}:{clip_class(case)}:tail={case['tail']}:r2={'same-strand' if case['r2'] == 'same-strand' else 'std'}:fv={fv}:rv={rv}"
    if kind == 'chic':
        return f"chic:{'trimmed' if case['trimmed'] else 'untrimmed'}:{clip_class(case)}:tail={case['tail']}:r2={case['r2']}:fv={fv}:rv={rv}"
    if kind == 'nlaref':
        v = case['variant'] if not case['variant'].startswith('subst') else 'substitution'
        return f"nlaref:{v}:pos={case['pos']}:adjacent={case['gap'] == 0 and case['clip'] == 0}:fv={fv}:rv={rv}"
    return f"r1less:{case['cls']}:R1-{case['r1']}:R2-{case['r2']}:fv={fv}:rv={rv}"


def run_shard(shard, tier, acc):
    kind, i, n = shard
    if kind == 'dedup':
        c, i = i
        cfg = list(dedup_cfgs())[c]
        for k, (ia, ib, a, b) in enumerate(dedup_pairs(cfg)):
            if k % n != i:
                continue
            case = {'kind': 'dedup', 'cfg': cfg, 'a': a, 'b': b}
            viols, obs = dedup_eval(cfg, a, b)
            same = a['site'] == b['site'] and a['opp'] == b['opp']
            lab = f"dedup:{cfg['cls']}:same-cut={same}:twin={a == b}:feq={obs.get('forward', {}).get('eq')}:req={obs.get('reverse', {}).get('eq')}"
            acc.case(case, transitions=4, execs=4, nontrivial=(a != b), outcome=lab)
            for sig, d in viols:
                acc.violation(sig, case, d)
        return
    for j, case in enumerate(GEN[kind](tier)):
        if j % n != i:
            continue
        viols, obs = RUN[kind](case)
        if kind in ('nla', 'chic'):
            nontriv = case['sclip'][1] > 0 or case['tail'] != 'none' or case.get('variant', 'exact') != 'exact' or \
                case.get('r2') in ('same-strand', 'unmapped')
        else:
            nontriv = True
        acc.case(case, transitions=2, execs=2, nontrivial=nontriv, outcome=_label(kind, case, obs))
        for sig, d in viols:
            acc.violation(sig, case, d)


def replay(case):
    if case['kind'] == 'dedup':
        return dedup_eval(case['cfg'], case['a'], case['b'])[0]
    return RUN[case['kind']](case)[0]
