"""C10 - binned count tables: each counted read lands in exactly the bins containing it.

Three levels, all exhaustive over their stated space, all against the real code:

arith   both copies of coordinate_to_bins / coordinate_to_sliding_bin_locations (bamToCountTable, utils.binning):
        EVERY point 0..N x bin size 1..B x increment 1..bin.
assign  bamToCountTable.assignReads on one in-memory read: every coordinate 0..L+2 (0, all multiples of b, b+-1,
        last base, beyond the end) x every (b, s<=b) x keepOverBounds x bin tag {DS, another tag, a read
        attribute} x weight {unpaired = 1, mate of a mapped pair = 0.5}; the read sits on the SECOND contig whose
        length differs from the first one.
table   create_count_table(args, return_df=True) with -bin / -sliding / --keepOverBounds on BAM files synthesised
        under /dev/shm: two contigs of different length, one read (or one pair) for EVERY coordinate 0..len+2 of each
        contig, two samples; x every (b, s<=b) x keepOverBounds x bin tag {DS, XP} x weights {unpaired, pairs
        halved, pairs not divided} x bin tag implicit / listed among the joined features.

Oracle (from the property statement, no formula shared with the code): the defining set
{[i*s, i*s+b) : i*s <= p < i*s+b} found by testing every candidate i; without sliding additionally the single bin
k = p // b.  A window is "inside the contig" when 0 <= start and end <= contig length (the --keepOverBounds help:
bins with start<0 or end > chromosome length go over the bounds).  The whole table is compared entry by entry,
which implies the total and the no-double-count clauses.
"""
import collections
import os
import shutil
import tempfile

ID = 'C10'
DESIGN_REF = 'DESIGN.md section 3, C10; section 4 lead #9'
RULE = ('arith: exhaustive product point x bin size x increment<=bin on both copies of coordinate_to_bins and '
        'coordinate_to_sliding_bin_locations, non-trivial when the point lies on a window boundary (p mod s == 0 or '
        '(p-b) mod s == 0); assign: exhaustive coordinate x (b,s) x keepOverBounds x bin tag x weight through '
        'assignReads, non-trivial when at least one containing window leaves the contig or the coordinate is on a '
        'boundary; table: one BAM per (contig lengths, pairing) holding every coordinate, x (b,s) x keepOverBounds x '
        'bin tag x fragment division x feature list through create_count_table, non-trivial when some window is over '
        'the contig bounds and the expected table has >= 2 bins; states = distinct cases')
ASSUMPTIONS = [
    'bin size >= 1, sliding increment 1 <= s <= b (the quantifier of the property), coordinates >= 0',
    'reads used are plain counted reads (mapped, not qc-failed, default filters); their weights are the documented '
    '1 per unpaired read, 0.5 per mate of a pair with both mates mapped, 1 per read with --doNotDivideFragments',
    'both mates of a pair carry the same bin-tag value (as the taggers write DS)',
    'a window is inside the contig iff start >= 0 and end <= contig length (--keepOverBounds help text)',
]

COPIES = ('bamToCountTable', 'utils.binning')
ASSIGN_TAGS = ('DS', 'XP', 'reference_start')
TABLE_TAGS = ('DS', 'XP')


def bounds(tier):
    if tier == 'quick':
        return {'arith': {'N': 120, 'B': 24, 'increment': '1..bin', 'copies': list(COPIES)},
                'assign': {'contig_lengths': [12, 13], 'coordinates': '0..L+2', 'B': 12, 'increment': '1..bin',
                           'keepOverBounds': [False, True], 'bin_tags': list(ASSIGN_TAGS), 'weights': ['single', 'mate']},
                'table': {'contig_sets': [[12, 7]], 'coordinates': '0..len+2 on every contig', 'B': 8,
                          'increment': '1..bin', 'keepOverBounds': [False, True], 'bin_tags': list(TABLE_TAGS),
                          'layouts': ['single', 'paired', 'paired+doNotDivideFragments'],
                          'feature_lists': ['chrom', 'chrom,<binTag>']}}
    return {'arith': {'N': 600, 'B': 60, 'increment': '1..bin', 'copies': list(COPIES)},
            'assign': {'contig_lengths': [23, 24, 25], 'coordinates': '0..L+2', 'B': 24, 'increment': '1..bin',
                       'keepOverBounds': [False, True], 'bin_tags': list(ASSIGN_TAGS), 'weights': ['single', 'mate']},
            'table': {'contig_sets': [[12, 7], [24, 13], [30, 9]], 'coordinates': '0..len+2 on every contig', 'B': 16,
                      'increment': '1..bin', 'keepOverBounds': [False, True], 'bin_tags': list(TABLE_TAGS),
                      'layouts': ['single', 'paired', 'paired+doNotDivideFragments'],
                      'feature_lists': ['chrom', 'chrom,<binTag>']}}


def shards(tier):
    b = bounds(tier)
    out = []
    for copy in COPIES:
        for bs in range(1, b['arith']['B'] + 1):
            out.append(('arith', copy, bs, b['arith']['N']))
    for L in b['assign']['contig_lengths']:
        for bs in range(1, b['assign']['B'] + 1):
            out.append(('assign', L, bs))
    for lens in b['table']['contig_sets']:
        for layout in ('single', 'paired'):
            for bs in range(1, b['table']['B'] + 1):
                out.append(('table', tuple(lens), layout, bs))
    return out


# ---------------------------------------------------------------------------------------------- oracle

def windows_containing(p, b, s):
    """The defining set {[i*s, i*s+b) : i*s <= p < i*s+b}, every candidate index tested directly."""
    out = []
    for i in range(-(b // s) - 2, p // s + 3):
        st = i * s
        if st <= p < st + b:
            out.append((st, st + b))
    if s == b:
        k = p // b
        assert out == [(k * b, (k + 1) * b)], (p, b, s, out)     # the two clauses of the statement agree
    return out


def inside(win, length):
    return win[0] >= 0 and win[1] <= length


def mode(b, s):
    return 'nosliding' if s == b else 'sliding'


# ---------------------------------------------------------------------------------------------- arith

def _copy_module(copy):
    from mc.bind import seam
    if copy == 'bamToCountTable':
        from singlecellmultiomics.bamProcessing import bamToCountTable as m
    else:
        from singlecellmultiomics.utils import binning as m
    return seam(m, 'coordinate_to_bins'), seam(m, 'coordinate_to_sliding_bin_locations')


def check_arith(copy, p, b, s, fns=None):
    f_bins, f_loc = fns or _copy_module(copy)
    exp = windows_containing(p, b, s)
    md = mode(b, s)
    out = []
    try:
        got = [(int(x), int(y)) for x, y in f_bins(p, b, s)]
    except Exception as ex:
        out.append((f'{copy}.coordinate_to_bins:exception:{type(ex).__name__}', repr(ex)))
        got = None
    if got is not None:
        site = f'{copy}.coordinate_to_bins:{md}'
        if any(not (x <= p < y) for x, y in got):
            out.append((f'{site}:window-not-containing-coordinate', {'got': got, 'expected': exp}))
        if any(w not in got for w in exp):
            out.append((f'{site}:containing-window-missing', {'got': got, 'expected': exp}))
        if len(set(got)) != len(got):
            out.append((f'{site}:window-listed-twice', {'got': got, 'expected': exp}))
        if any((y - x) != b or x % s for x, y in got):
            out.append((f'{site}:malformed-window', {'got': got, 'expected': exp}))
    try:
        st, en, sid, eid = (int(v) for v in f_loc(p, b, s))
        site = f'{copy}.coordinate_to_sliding_bin_locations:{md}'
        if (st, sid) != (exp[0][0], exp[0][0] // s):
            out.append((f'{site}:first-overlapping-window-wrong', {'got': [st, en, sid, eid], 'expected_windows': exp}))
        if (en, eid) != (exp[-1][1], exp[-1][0] // s):
            out.append((f'{site}:last-overlapping-window-wrong', {'got': [st, en, sid, eid], 'expected_windows': exp}))
    except Exception as ex:
        out.append((f'{copy}.coordinate_to_sliding_bin_locations:exception:{type(ex).__name__}', repr(ex)))
    return out, exp


# ---------------------------------------------------------------------------------------------- assign

def _assign_read(G, hdr, p, tag, kind):
    tags = [('SM', 'A')]
    pos = 0
    if tag == 'reference_start':
        pos = p
    else:
        tags.append((tag, p))
        # a decoy under the other tag name: binning the wrong tag would be visible
        tags.append(('XP' if tag == 'DS' else 'DS', p + 1))
    return G.mk_read(hdr, 'r', contig_index=1, pos=pos, cigar='4M', tags=tags, paired=(kind == 'mate'))


def check_assign(L, p, b, s, keep, tag, kind):
    from gen import c10_counttable as G
    from singlecellmultiomics.bamProcessing import bamToCountTable as T
    other = L + b + 5          # the first contig is longer: using its length would keep windows beyond chr2
    hdr = G.header([('chr1', other), ('chr2', L)])
    read = _assign_read(G, hdr, p, tag, kind)
    args = G.default_args(bin=b, sliding=s, keepOverBounds=keep, binTag=tag, joinedFeatureTags='chrom')
    args.ref_lengths = {'chr1': other, 'chr2': L}
    w = 0.5 if kind == 'mate' else 1.0
    wins = windows_containing(p, b, s)
    exp = {}
    for win in wins:
        if keep or inside(win, L):
            exp[(('A',), ('chr2', win[0], win[1]))] = w
    ct = collections.defaultdict(collections.Counter)
    try:
        T.assignReads(read, ct, args, True, ['chrom', tag], ['SM'])
    except Exception as ex:
        return [(f'assignReads:exception:{type(ex).__name__}', repr(ex))], wins, exp
    got = G.counter_to_dict(ct)
    return _diff('assignReads', got, exp, b, s, keep, {'chr2': L}), wins, exp


def _diff(site, got, exp, b, s, keep, lengths):
    """Classify every differing table entry; one (signature, detail) per clause."""
    md = mode(b, s)
    found = {}
    for k in sorted(set(got) | set(exp), key=repr):
        g, e = got.get(k, 0.0), exp.get(k, 0.0)
        if g == e:
            continue
        sample, key = k
        clause = None
        if len(key) < 3 or not all(isinstance(x, int) for x in key[-2:]):
            clause = 'malformed-table-key'
        else:
            st, en = key[-2], key[-1]
            if (en - st) != b or st % s:
                clause = 'malformed-window'
            elif not keep and g > 0 and not inside((st, en), lengths.get(key[0], -1)):
                clause = 'window-outside-contig-counted'
            elif g > e:
                clause = 'window-overcounted'       # a read counted in a window not containing it / twice
            else:
                clause = 'window-undercounted'      # a containing window inside the bounds did not get the read
        found.setdefault(clause, {'entry': [list(sample), list(key)], 'got': g, 'expected': e})
    tot_g, tot_e = sum(got.values()), sum(exp.values())
    out = []
    for c, d in found.items():
        d.update({'keepOverBounds': keep, 'got_total': tot_g, 'expected_total': tot_e})
        out.append((f'{site}:{md}:{c}', d))
    # entry-wise equality implies equality of the totals, so a differing total always comes with an entry clause
    assert out or tot_g == tot_e
    return out


# ---------------------------------------------------------------------------------------------- table

def _table_reads(G, hdr, lens, layout):
    """One read (single) or one pair (paired) for EVERY coordinate 0..len+2 of every contig.
    Returns reads and the list of (contig, coordinate under DS, coordinate under XP, sample)."""
    reads, truth = [], []
    for ci, L in enumerate(lens):
        name = f'chr{ci + 1}'
        top = L + 2
        for p in range(0, top + 1):
            sm = 'A' if p % 2 == 0 else 'B'
            xp = top - p
            pos = min(p, L - 4)
            tags = [('SM', sm), ('DS', p), ('XP', xp)]
            if layout == 'single':
                reads.append(G.mk_read(hdr, f'{name}_{p}', ci, pos, cigar='4M', tags=tags))
            else:
                reads.append(G.mk_read(hdr, f'{name}_{p}', ci, pos, cigar='4M', tags=tags, paired=True, read2=False))
                reads.append(G.mk_read(hdr, f'{name}_{p}', ci, pos, cigar='4M', tags=tags, paired=True, read2=True,
                                       reverse=True))
            truth.append((name, {'DS': p, 'XP': xp}, sm))
    return reads, truth


def _build_bam(lens, layout, tmpdir):
    from gen import c10_counttable as G
    hdr = G.header([(f'chr{i + 1}', L) for i, L in enumerate(lens)])
    reads, truth = _table_reads(G, hdr, lens, layout)
    path = os.path.join(tmpdir, f'c10_{"_".join(map(str, lens))}_{layout}.bam')
    G.write_bam(path, hdr, reads)
    return path, truth


def check_table(path, truth, lens, layout, b, s, keep, tag, dnd, explicit, more=()):
    """more: further (path, truth, lens) files counted in the same call, each read judged against the contig lengths of ITS
    OWN file (two alignment files may give a same-named contig different lengths)"""
    from gen import c10_counttable as G
    lengths = {f'chr{i + 1}': L for i, L in enumerate(lens)}
    feats = f'chrom,{tag}' if explicit else 'chrom'
    files = [(path, truth, lens)] + list(more)
    # -sliding is only given when it differs from the bin size: "If nothing is supplied this value equals the bin size"
    args = G.default_args(alignmentfiles=[f[0] for f in files], bin=b, sliding=(None if s == b else s), keepOverBounds=keep,
                          binTag=tag, joinedFeatureTags=feats, doNotDivideFragments=dnd)
    if layout == 'single':
        per_coord = 1.0                     # one unpaired read
    else:
        per_coord = 2.0 if dnd else 1.0     # two mates: 0.5 + 0.5, or 1 + 1 when fragments are not divided
    exp = {}
    over = 0
    for _p, truth_f, lens_f in files:
        lengths_f = {f'chr{i + 1}': L for i, L in enumerate(lens_f)}
        for contig, coords, sm in truth_f:
            for win in windows_containing(coords[tag], b, s):
                if inside(win, lengths_f[contig]):
                    pass
                else:
                    over += 1
                    if not keep:
                        continue
                k = ((sm,), (contig, win[0], win[1]))
                exp[k] = exp.get(k, 0.0) + per_coord
    if more:
        lengths = {c: max(dict((f'chr{i + 1}', L) for i, L in enumerate(f[2])).get(c, 0) for f in files)
                   for c in {f'chr{i + 1}' for f in files for i in range(len(f[2]))}}
    try:
        df = G.run_table(args)
        got = G.table_to_dict(df)
    except Exception as ex:
        return [(f'create_count_table:exception:{type(ex).__name__}', repr(ex))], exp, over
    return _diff('create_count_table', got, exp, b, s, keep, lengths), exp, over


# ---------------------------------------------------------------------------------------------- engine hooks

def run_shard(shard, tier, acc):
    kind = shard[0]
    if kind == 'arith':
        _, copy, b, N = shard
        fns = _copy_module(copy)
        for s in range(1, b + 1):
            for p in range(0, N + 1):
                viols, exp = check_arith(copy, p, b, s, fns)
                case = {'level': 'arith', 'copy': copy, 'p': p, 'b': b, 's': s}
                boundary = (p % s == 0) or ((p - b) % s == 0)
                acc.case(case, transitions=2, execs=2, nontrivial=boundary,
                         outcome=f'arith:{mode(b, s)}:windows={len(exp)}:boundary={boundary}')
                for sig, d in viols:
                    acc.violation(sig, case, d)
    elif kind == 'assign':
        _, L, b = shard
        for s in range(1, b + 1):
            for p in range(0, L + 3):
                for keep in (False, True):
                    for tag in ASSIGN_TAGS:
                        for rk in ('single', 'mate'):
                            viols, wins, exp = check_assign(L, p, b, s, keep, tag, rk)
                            case = {'level': 'assign', 'L': L, 'p': p, 'b': b, 's': s, 'keep': keep, 'binTag': tag,
                                    'kind': rk}
                            n_out = sum(1 for w in wins if not inside(w, L))
                            boundary = (p % s == 0) or ((p - b) % s == 0)
                            acc.case(case, transitions=1 + len(wins), nontrivial=(n_out > 0 or boundary),
                                     outcome=f'assign:{mode(b, s)}:keep={keep}:in={len(wins) - n_out}:out={n_out}')
                            for sig, d in viols:
                                acc.violation(sig, case, d)
    elif kind == 'table':
        _, lens, layout, b = shard
        tmp = tempfile.mkdtemp(prefix='c10_', dir='/dev/shm')
        try:
            path, truth = _build_bam(lens, layout, tmp)
            for s in range(1, b + 1):
                for keep in (False, True):
                    for tag in TABLE_TAGS:
                        for dnd in ((False,) if layout == 'single' else (False, True)):
                            for explicit in (False, True):
                                viols, exp, over = check_table(path, truth, lens, layout, b, s, keep, tag, dnd, explicit)
                                case = {'level': 'table', 'lens': list(lens), 'layout': layout, 'b': b, 's': s,
                                        'keep': keep, 'binTag': tag, 'dnd': dnd, 'explicit': explicit}
                                acc.case(case, transitions=len(truth), nontrivial=(over > 0 and len(exp) >= 2),
                                         outcome=f'table:{mode(b, s)}:keep={keep}:{layout}{"+dnd" if dnd else ""}')
                                acc.count('table_entries_compared', len(exp))
                                for sig, d in viols:
                                    acc.violation(sig, case, d)
            # two alignment files in one call whose headers give chr1 different lengths, in both orders
            lens2 = tuple(L + 7 for L in lens)
            path2, truth2 = _build_bam(lens2, layout, tmp)
            for s in sorted({1, b, max(1, b // 2)}):
                for order in ('short-first', 'long-first'):
                    first = (path, truth, lens) if order == 'short-first' else (path2, truth2, lens2)
                    second = (path2, truth2, lens2) if order == 'short-first' else (path, truth, lens)
                    viols, exp, over = check_table(first[0], first[1], first[2], layout, b, s, False, 'DS', False, False,
                                                   more=[second])
                    viols = [(sg.replace('create_count_table', 'create_count_table:two-files-different-contig-lengths', 1), d)
                             for sg, d in viols]
                    case = {'level': 'table2', 'lens': list(lens), 'layout': layout, 'b': b, 's': s, 'order': order}
                    acc.case(case, transitions=len(truth) + len(truth2), nontrivial=True, outcome=f'table2:{mode(b, s)}:{order}')
                    for sig, d in viols:
                        acc.violation(sig, case, d)
        finally:
            shutil.rmtree(tmp, ignore_errors=True)
    else:
        raise ValueError(shard)


def replay(case):
    lv = case['level']
    if lv == 'arith':
        return check_arith(case['copy'], case['p'], case['b'], case['s'])[0]
    if lv == 'assign':
        return check_assign(case['L'], case['p'], case['b'], case['s'], case['keep'], case['binTag'], case['kind'])[0]
    if lv == 'table':
        tmp = tempfile.mkdtemp(prefix='c10_', dir='/dev/shm')
        try:
            path, truth = _build_bam(tuple(case['lens']), case['layout'], tmp)
            return check_table(path, truth, tuple(case['lens']), case['layout'], case['b'], case['s'], case['keep'],
                               case['binTag'], case['dnd'], case['explicit'])[0]
        finally:
            shutil.rmtree(tmp, ignore_errors=True)
    if lv == 'table2':
        tmp = tempfile.mkdtemp(prefix='c10_', dir='/dev/shm')
        try:
            lens = tuple(case['lens'])
            lens2 = tuple(L + 7 for L in lens)
            path, truth = _build_bam(lens, case['layout'], tmp)
            path2, truth2 = _build_bam(lens2, case['layout'], tmp)
            first = (path, truth, lens) if case['order'] == 'short-first' else (path2, truth2, lens2)
            second = (path2, truth2, lens2) if case['order'] == 'short-first' else (path, truth, lens)
            viols = check_table(first[0], first[1], first[2], case['layout'], case['b'], case['s'], False, 'DS', False, False,
                                more=[second])[0]
            return [(sg.replace('create_count_table', 'create_count_table:two-files-different-contig-lengths', 1), d) for sg, d in viols]
        finally:
            shutil.rmtree(tmp, ignore_errors=True)
    raise ValueError(lv)
