"""C19 - per-cell file splitting loses no record under handle limits and open failures.

Fault enumeration on the real HandleLimiter / FastqHandle(single_cell=True): the module's gzip.open,
open and clock are replaced by an in-memory store with a descriptor budget (real GzipFile objects
over per-path buffers).  EVERY write sequence up to the bound x every limiter setting x every fault
plan: EMFILE budgets, every placement of <=2 transient open failures (deviation bound 2, placements
discovered from the execution itself), permanent failure of one path.

FastqHandle(single_cell=True) additionally: paired and single end, records without a cell index.

The BAM splitter (bamProcessing/bamSplitByTag.py) is the third "one file per cell under a limit on open files" writer of
the anchors: its limit is max_handles, and what does not fit waits for a further pass over the input.  EVERY word over an
alphabet of reads (three cells, no tag, values whose file name must be cleaned, two values with the same cleaned name, an
unmapped read, an integer tag) x max_handles x head x {one call of the real split_bam_by_tag with nothing / one cell
already done / the default arguments, the real script run as __main__ so that its own retry loop makes the passes}; the
script's pysam is a counting pass-through (open output files, passes), Pool is the deterministic ScheduledPool; a thin
slice runs the same command lines in a fresh interpreter with the real multiprocessing.Pool.
"""
import errno
import itertools
import os

from mc.faults import MemStore, LogicalClock, gunzip_all_members

ID = 'C19'
RULE = ('all words over P paths up to length n x maxHandles x pruneEvery x fault plan (none; EMFILE (also ENFILE) when >=k descriptors open, '
        'k=1..3; four non-canonical spellings of the paths (relative, ./, //, ..) alone, with k=1 and with both histories; every set of <=2 failing open() calls; one permanently failing path; the same with stale files of an earlier run at '
        'the paths and after an earlier writer object of the same process; forceAppend with and without such files; an explicit close() of the writer before any write of the sequence); both methods (gzip / plain); '
        'non-trivial = an injected failure was hit while >=1 other descriptor was open; states = distinct executions. '
        'FastqHandle: words over 3 cells + a record without cell index x paired/single end x maxHandles x fault plan. '
        'BAM splitter: all words over the read alphabet (cells A,B,C; untagged; "X Y" and "X_Y" which share a cleaned file name; '
        'unmapped read of A; integer tag; "D/1") up to the bound x max_handles x head x mode (call with skip = {} / one cell / '
        'default arguments; the script as __main__ with its own loop; a few real-Pool runs in a fresh interpreter); '
        'non-trivial = more cells than max_handles (cells wait / further pass) or head ends the pass early')
ASSUMPTIONS = [
    'the operating system is represented by an in-memory store: open fails only as injected; writes and closes never fail',
    'after a legitimately raised write() the run stops (callers abort); everything acknowledged before must be intact',
    'a raise is legitimate only if the last failed open happened while no other descriptor was open',
    'failures of close()/write() (disk full) are outside: the property quantifies over open() failures only, so the handlers '
    'around handle.close() in prune()/close() are not reachable inside the domain',
    'BAM splitter: max_handles >= 1 and head >= 1 (or no head); reads without the tag belong to no cell and are outside; which '
    'cells a pass serves is left open (any choice within the limit); with head only a prefix of every cell is demanded (and '
    'never more than head records per call); the file of a cell is <prefix><cleaned tag value>.bam as the command line help '
    'says, values with the same cleaned name share a file; the .bai indices are not examined',
]


def bounds(tier):
    if tier == 'quick':
        b = {'paths': 3, 'max_len': 7, 'maxHandles': [1, 2, 3, 4], 'pruneEvery': [1, 2, 3, 4, 10000], 'emfile_k': [1, 2, 3],
             'transient_failures': 2, 'methods': ['gzip for all', 'plain for len<=4'], 'sweep_paths': 200}
    else:
        b = {'paths': 3, 'max_len': 9, 'paths4_max_len': 7, 'maxHandles': [1, 2, 3, 4], 'pruneEvery': [1, 2, 3, 4, 10000],
             'emfile_k': [1, 2, 3], 'transient_failures': 2, 'methods': ['gzip for all', 'plain for len<=5'], 'sweep_paths': 200}
    b['fastq'] = {'letters': [0, 1, 2, 'no cell index'], 'max_len': 4 if tier == 'quick' else 5, 'ends': ['paired', 'single'],
                  'maxHandles': [1, 2, 500]}
    b['bam_splitter'] = bam_bounds(tier)
    return b


def words(P, n):
    for l in range(1, n + 1):
        for w in itertools.product(range(P), repeat=l):
            # path symmetry: the first occurrences of paths appear in order 0,1,2 (renaming paths changes nothing
            # the limiter can observe: it only uses paths as dictionary keys)
            seen = -1
            ok = True
            for x in w:
                if x > seen + 1:
                    ok = False
                    break
                seen = max(seen, x)
            if ok:
                yield w


def shards(tier):
    b = bounds(tier)
    out = []
    for w in words(b['paths'], b['max_len']):
        out.append(('w', w))
    if tier == 'thorough':
        for w in words(4, b['paths4_max_len']):
            if 3 in w:
                out.append(('w', w))
    # group
    G = 6 if tier == 'quick' else 24
    grouped = [('group', out[i:i + G]) for i in range(0, len(out), G)]
    grouped.append(('fastq',))
    grouped.append(('sweep',))
    bw = bam_word_list(tier)
    GB = 24 if tier == 'quick' else 64
    # interleave so that every group holds short and long words (even load)
    nb = max(1, (len(bw) + GB - 1) // GB)
    for i in range(nb):
        grouped.append(('bam', bw[i::nb]))
    for i in range(bam_bounds(tier)['real_pool_runs']):
        grouped.append(('bam-real', i))
    return grouped


SPELLINGS = {None: '/mem/cell{p}.fq.gz', 'relative': 'mem/cell{p}.fq.gz', 'dot': './mem/cell{p}.fq.gz',
             'doubled-separator': '/mem//cell{p}.fq.gz', 'dotdot': '/mem/x/../cell{p}.fq.gz'}


def cell_path(p, plan):
    """the path of cell p as the caller spells it (the limiter is given the same spelling at every write)"""
    return SPELLINGS[plan.get('spelling')].format(p=p)


def execute(word, maxHandles, pruneEvery, plan, method=1):
    """Run one write sequence on the real HandleLimiter over a MemStore with the fault plan.
    Returns (violations, info)."""
    from mc.bind import seam
    import singlecellmultiomics.pyutils.handlelimiter as hl
    seam(hl, 'gzip')
    seam(hl, 'time')
    store = MemStore(plan)
    if plan.get('stale'):
        # files left at the same paths by an earlier (aborted) run: a new writer starts every file anew
        import gzip as _gz
        for p_ in sorted(set(word)):
            junk = b'@stale\nNNNN\n+\n!!!!\n'
            store.files[store.key(cell_path(p_, plan))] = bytearray(_gz.compress(junk) if method == 1 else junk)

    class _G:
        open = staticmethod(store.gzip_open)
    saved = (hl.gzip, hl.time, hl.__dict__.get('open'), hl.__dict__.get('print'))
    hl.gzip = _G
    hl.time = LogicalClock()
    hl.open = store.open
    hl.print = lambda *a, **k: None
    ack = {}
    viol = []
    raised = None
    kw = {'forceAppend': True} if plan.get('force_append') else {}
    try:
        if plan.get('earlier_writer'):
            # history: an earlier HandleLimiter object of the same process wrote the same paths and was closed; the store's
            # fault plan only applies to the second writer
            saved_plan, store.plan = store.plan, {}
            first = hl.HandleLimiter(maxHandles=maxHandles, pruneEvery=pruneEvery, compressionLevel=1)
            for i, p in enumerate(word):
                first.write(cell_path(p, plan), f'@old{i}\nTTTT\n+\n####\n', method=method)
            first.close()
            store.plan = saved_plan
            store.open_calls = 0
            store.failures = []
        lim = hl.HandleLimiter(maxHandles=maxHandles, pruneEvery=pruneEvery, compressionLevel=1)
        for i, p in enumerate(word):
            path = cell_path(p, plan)
            payload = f'@r{i}:{p}\nACGT{i}\n+\nIIII{i}\n'
            if plan.get('close_at') == i:
                # history step: the caller closes the writer (all files flushed and complete) and goes on writing
                try:
                    lim.close()
                except Exception as ex:
                    viol.append(('close:exception:' + type(ex).__name__, repr(ex)))
                if store.open_count != 0:
                    viol.append(('close:descriptors-left-open-after-close', {'open': store.open_count}))
            nfail_before = len(store.failures)
            try:
                lim.write(path, payload, method=method, **kw)
            except Exception as ex:
                raised = (i, type(ex).__name__)
                new_fail = store.failures[nfail_before:]
                if not new_fail:
                    viol.append(('write:exception-without-any-open-failure:' + type(ex).__name__, {'at': i, 'ex': repr(ex)}))
                elif new_fail[-1][2] > 0:
                    viol.append(('write:raised-although-other-handles-were-open',
                                 {'at': i, 'ex': repr(ex), 'failures(call,path,open)': new_fail}))
                break
            ack.setdefault(path, []).append(payload)
        try:
            lim.close()
        except Exception as ex:
            viol.append(('close:exception:' + type(ex).__name__, repr(ex)))
    finally:
        hl.gzip, hl.time = saved[0], saved[1]
        for name, val in (('open', saved[2]), ('print', saved[3])):
            if val is None:
                hl.__dict__.pop(name, None)
            else:
                hl.__dict__[name] = val
    # content oracle
    for path, payloads in ack.items():
        want = ''.join(payloads).encode()
        if plan.get('force_append') and plan.get('stale'):
            want = b'@stale\nNNNN\n+\n!!!!\n' + want      # forceAppend: the writer continues the file which is there
        if store.key(path) not in store.files:
            viol.append(('content:file-missing-for-acknowledged-records', {'path': path}))
            continue
        data = store.content(path)
        try:
            got = gunzip_all_members(data) if method == 1 else data
        except Exception as ex:
            viol.append(('content:invalid-or-truncated-gzip', {'path': path, 'ex': repr(ex)}))
            continue
        if got != want:
            if len(got) < len(want) and want.startswith(got):
                sig = 'content:acknowledged-records-lost-at-end'
            elif want.endswith(got) and got:
                sig = 'content:earlier-records-overwritten'
            else:
                sig = 'content:records-differ-from-writes'
            viol.append((sig, {'path': path, 'got': got.decode(errors='replace'), 'want': want.decode()}))
    if store.open_count != 0 and raised is None:
        viol.append(('close:descriptors-left-open-after-close', {'open': store.open_count}))
    hit_with_others = any(f[2] > 0 for f in store.failures)
    info = {'opens': store.open_calls, 'failures': len(store.failures), 'hit_with_others_open': hit_with_others,
            'raised': raised, 'max_open': store.max_open}
    seen = set()
    return [(s, d) for s, d in viol if not (s in seen or seen.add(s))], info


def plans_for(word, maxHandles, pruneEvery, method, acc_cb):
    """Deviation-bounded enumeration of fault plans; placements come from the executions themselves."""
    P = max(word) + 1
    # 0 deviations
    base_viol, base_info = execute(word, maxHandles, pruneEvery, {}, method)
    acc_cb({}, base_viol, base_info)
    for k in (1, 2, 3):
        plan = {'emfile_k': k}
        acc_cb(plan, *execute(word, maxHandles, pruneEvery, plan, method))
    # histories: files of an earlier run at the same paths / an earlier writer object in the same process, without and with a budget
    for extra in ({'stale': True}, {'earlier_writer': True}):
        for base in ({}, {'emfile_k': 1}, {'emfile_k': 2}):
            plan = dict(base, **extra)
            acc_cb(plan, *execute(word, maxHandles, pruneEvery, plan, method))
    # the forceAppend option (continue the files which are there instead of starting them anew), with and without such files
    for extra in ({'force_append': True}, {'force_append': True, 'stale': True}):
        for base in ({}, {'emfile_k': 1}, {'emfile_k': 2}):
            plan = dict(base, **extra)
            acc_cb(plan, *execute(word, maxHandles, pruneEvery, plan, method))
    # the caller's spelling of the paths (relative, './', a doubled separator, '..'): the same file at every write
    for sp in [k for k in SPELLINGS if k]:
        for base in ({}, {'emfile_k': 1}, {'stale': True}, {'earlier_writer': True}):
            plan = dict(base, spelling=sp)
            acc_cb(plan, *execute(word, maxHandles, pruneEvery, plan, method))
    # history: an explicit close() of the same writer before the i-th write, then writing goes on (files are continued)
    for i in range(1, len(word)):
        for base in ({}, {'emfile_k': 1}, {'stale': True}):
            plan = dict(base, close_at=i)
            acc_cb(plan, *execute(word, maxHandles, pruneEvery, plan, method))
    for p in range(P):
        plan = {'dead_paths': [f'/mem/cell{p}.fq.gz']}
        acc_cb(plan, *execute(word, maxHandles, pruneEvery, plan, method))
    # transient failures: 1 then 2 deviations
    for i in range(base_info['opens']):
        plan1 = {'fail_calls': [i]}
        v1, info1 = execute(word, maxHandles, pruneEvery, plan1, method)
        acc_cb(plan1, v1, info1)
        plan1s = {'fail_calls': [i], 'stale': True}
        acc_cb(plan1s, *execute(word, maxHandles, pruneEvery, plan1s, method))
        # the same transient failure reported as the system-wide variant of "too many open files" (ENFILE)
        plan1b = {'fail_calls': [i], 'errno': errno.ENFILE}
        acc_cb(plan1b, *execute(word, maxHandles, pruneEvery, plan1b, method))
        for j in range(i + 1, info1['opens']):
            plan2 = {'fail_calls': [i, j]}
            acc_cb(plan2, *execute(word, maxHandles, pruneEvery, plan2, method))
    # a descriptor budget enforced system wide: ENFILE instead of EMFILE
    plan = {'emfile_k': 2, 'errno': errno.ENFILE}
    acc_cb(plan, *execute(word, maxHandles, pruneEvery, plan, method))


def _norm_plan(plan):
    p = dict(plan)
    for k in ('fail_calls', 'dead_paths'):
        if k in p:
            p[k] = set(p[k])
    return p


def run_word(word, tier, acc):
    b = bounds(tier)
    plain_max = 4 if tier == 'quick' else 5
    for mh in b['maxHandles']:
        for pe in b['pruneEvery']:
            for method in ((1, 0) if len(word) <= plain_max else (1,)):
                def cb(plan, viols, info, mh=mh, pe=pe, method=method):
                    case = {'kind': 'limiter', 'word': list(word), 'maxHandles': mh, 'pruneEvery': pe, 'method': method,
                            'plan': plan}
                    lab = (f"fail={min(info['failures'], 3)},others={info['hit_with_others_open']},"
                           f"raised={info['raised'] is not None},maxopen={info['max_open']}")
                    acc.case(case, transitions=len(word), nontrivial=info['hit_with_others_open'], outcome=lab)
                    for sig, d in viols:
                        acc.violation(sig, case, d)
                plans_for(word, mh, pe, method, lambda plan, v, i: cb(plan, v, i))


NO_CELL = 'n'     # fastq letter: a record which carries no cell index (all such records share one file)


def fastq_words(n):
    """words over the cells 0,1,2 (first occurrences in order: renaming cells changes nothing) and the no-cell-index letter"""
    for l in range(1, n + 1):
        for w in itertools.product((0, 1, 2, NO_CELL), repeat=l):
            seen = -1
            ok = True
            for x in w:
                if x == NO_CELL:
                    continue
                if x > seen + 1:
                    ok = False
                    break
                seen = max(seen, x)
            if ok:
                yield w


_STRATEGIES = ('NLAIII384C8U3', 'CS2C8U6')


def _cell_name(cell):
    """a cell is (barcode index, demultiplexing strategy): the barcode indices are numbered per strategy, so cells 1 and 2
    share index 1 under two strategies, 3 and 4 share index 2, ... (a library demultiplexed with -use A,B goes through ONE
    FastqHandle)"""
    return (cell + 1) // 2, _STRATEGIES[(cell + 1) % 2]


class _Rec:
    def __init__(self, cell, mate, i):
        if cell != NO_CELL:
            bi, mx = _cell_name(cell)
            self.tags = {'MX': mx, 'bi': bi}
        else:
            self.tags = {'MX': _STRATEGIES[0]}
        self.s = f'@x{i}:{cell}:{mate}\nAC{i}\n+\nII{i}\n'

    def __str__(self):
        return self.s


def execute_fastq(word, maxHandles, plan, paired=True):
    import singlecellmultiomics.pyutils.handlelimiter as hl
    from singlecellmultiomics.fastqProcessing.fastqHandle import FastqHandle
    store = MemStore(plan)

    class _G:
        open = staticmethod(store.gzip_open)
    saved = (hl.gzip, hl.time, hl.__dict__.get('print'))
    hl.gzip = _G
    hl.time = LogicalClock()
    hl.print = lambda *a, **k: None
    viol = []
    ack = {}
    raised = None
    try:
        fh = FastqHandle('/mem/lib', pairedEnd=paired, single_cell=True, maxHandles=maxHandles)
        for i, cell in enumerate(word):
            recs = (_Rec(cell, 'R1', i), _Rec(cell, 'R2', i)) if paired else (_Rec(cell, 'R1', i),)
            n0 = len(store.failures)
            try:
                fh.write(recs)
            except Exception as ex:
                raised = (i, type(ex).__name__)
                nf = store.failures[n0:]
                if not nf:
                    viol.append(('fastqhandle:exception-without-any-open-failure:' + type(ex).__name__, repr(ex)))
                elif nf[-1][2] > 0:
                    viol.append(('fastqhandle:raised-although-other-handles-were-open', {'at': i, 'ex': repr(ex), 'failures': nf}))
                break
            for mate, r in zip(('R1', 'R2'), recs):
                ack.setdefault((cell, mate), []).append(str(r))
        try:
            fh.close()
        except Exception as ex:
            viol.append(('fastqhandle:close:exception:' + type(ex).__name__, repr(ex)))
    finally:
        hl.gzip, hl.time = saved[0], saved[1]
        if saved[2] is None:
            hl.__dict__.pop('print', None)
        else:
            hl.print = saved[2]
    # each (cell, mate) must be in exactly one file holding exactly its records
    by_content = {}
    for path, data in store.files.items():
        try:
            by_content[path] = gunzip_all_members(bytes(data)).decode()
        except Exception as ex:
            by_content[path] = None
            if any(True for _ in ack):
                viol.append(('fastqhandle:invalid-or-truncated-gzip', {'path': path, 'ex': repr(ex)}))
    for (cell, mate), payloads in ack.items():
        want = ''.join(payloads)
        holders = [p for p, c in by_content.items() if c is not None and c == want]
        if cell == NO_CELL:
            # records without a cell index: where they go is not named by the property, but they are written records of
            # one group: exactly one file holds exactly them (never mixed into the file of a cell)
            if len(holders) != 1:
                viol.append(('fastqhandle:records-without-cell-index-not-in-exactly-one-file-of-their-own',
                             {'mate': mate, 'files_with_exactly_them': holders, 'want': want}))
            continue
        bi, mx = _cell_name(cell)
        named = [p for p in by_content if f'.{bi}.{mx}.' in p and p.endswith(f'.{mate}.fastq.gz')]
        if len(named) != 1 or by_content.get(named[0]) != want:
            viol.append(('fastqhandle:cell-file-does-not-hold-exactly-its-records',
                         {'cell': cell, 'mate': mate, 'files': {p: by_content[p] for p in named}, 'want': want}))
    if raised is None:
        # one file per (cell, mate): no further file with records
        wanted = {''.join(v) for v in ack.values()}
        for path, c in by_content.items():
            if c and c not in wanted:
                viol.append(('fastqhandle:file-holds-records-of-no-single-cell', {'path': path, 'content': c}))
    info = {'opens': store.open_calls, 'failures': len(store.failures),
            'hit_with_others_open': any(f[2] > 0 for f in store.failures), 'raised': raised, 'max_open': store.max_open}
    seen = set()
    return [(s, d) for s, d in viol if not (s in seen or seen.add(s))], info


# ----------------------------------------------------------------------------------------------------------------
# the BAM splitter (bamSplitByTag.py): one BAM per tag value under a limit on simultaneously open output files
# ----------------------------------------------------------------------------------------------------------------

def bam_bounds(tier):
    # word sets: every word over `letters` up to max_len, plus every word over the sub-alphabets in `more` up to their length
    if tier == 'quick':
        return {'letters': 'abc-sumx', 'max_len': 3, 'more': [['abc-su', 4], ['abc-', 5]],
                'max_handles': [1, 2, 3], 'head': [None, 1, 2], 'real_pool_runs': 6}
    return {'letters': 'abc-sumix', 'max_len': 4, 'more': [['abc-su', 5], ['abc-', 6]],
            'max_handles': [1, 2, 3, 4], 'head': [None, 1, 2, 3], 'real_pool_runs': 12}


def bam_words(letters, n):
    """all words of length 0..n (0: an input without reads); cells B and C are interchangeable (nothing else refers to them), so C appears only after B"""
    for l in range(0, n + 1):
        for w in itertools.product(letters, repeat=l):
            seen_b = False
            ok = True
            for x in w:
                if x == 'b':
                    seen_b = True
                elif x == 'c' and not seen_b:
                    ok = False
                    break
            if ok:
                yield ''.join(w)


def bam_word_list(tier):
    b = bam_bounds(tier)
    out = list(bam_words(b['letters'], b['max_len']))
    have = set(out)
    for letters, n in b['more']:
        for w in bam_words(letters, n):
            if w not in have:
                have.add(w)
                out.append(w)
    return out


def _bam_configs(word, tier):
    """every (mode, max_handles, head, skip) explored for one word"""
    from gen.c19_bam import LETTERS
    from oracles.c19_split import clean_name
    b = bam_bounds(tier)
    stems = []
    for x in word:
        v = LETTERS[x][0]
        if v is not None and clean_name(v) not in stems:
            stems.append(clean_name(v))
    heads = [h for h in b['head'] if h is None or h <= len(word)]
    for k in b['max_handles']:
        if k > len(stems) + 1:
            continue                                   # the limit can not bind any more: same run as the previous k
        for h in heads:
            yield ('main', k, h, [])
            yield ('call', k, h, [])
            if h is None:
                for sk in stems:                       # an earlier pass already finished one cell
                    yield ('call', k, h, [sk])
    yield ('main', None, None, [])                     # -max_handles left at its default
    yield ('call-default-skip', b['max_handles'][-1], None, None)


def execute_bam(word, mode, k, head, skip, input_bam=None):
    """One run of the real splitter on the BAM of `word`.  Returns (violations, info)."""
    import shutil
    import tempfile
    from gen import c19_bam as G
    from oracles import c19_split as O
    tmp = tempfile.mkdtemp(prefix='c19bam', dir='/dev/shm')
    viol = []
    site = 'bamsplit:' + mode
    try:
        if input_bam is None:
            input_bam = os.path.join(tmp, 'in.bam')
            G.write_input(input_bam, word)
        recs = G.read_records(input_bam)
        if len(recs) != len(word):
            from mc.bind import HarnessError
            raise HarnessError('input BAM does not hold one record per letter')
        stream = [(G.LETTERS[x][0], rec) for x, rec in zip(word, recs)]
        want = O.cells(stream)
        out = os.path.join(tmp, 'out') + os.sep
        if not mode.startswith('main') or k is None:
            os.mkdir(out)                               # else the command line creates its -o_folder itself
        done = waiting = None
        limit = k
        if mode == 'main':
            exc, mon = G.run_main(G.main_argv(input_bam, out, k, head), max_passes=len(want) + 2)
            if k is None:
                limit = 400                             # the documented default of -max_handles
        elif mode == 'main-real':
            err = G.run_main_subprocess(G.main_argv(input_bam, out, k, head))
            exc, mon = None, None
            if err is not None:
                viol.append((site + ':run-failed', {'error': err}))
        else:
            exc, res, mon = G.call_function(input_bam, out, k, head, set(skip or ()), max_passes=1,
                                            use_default_skip=(mode == 'call-default-skip'))
            if exc is None:
                try:
                    done, waiting = res
                    done, waiting = set(done), set(waiting)
                except Exception:
                    viol.append((site + ':result-is-not-(done, waiting)', {'result': repr(res)}))
                    done, waiting = set(), set()
        if exc is not None:
            if isinstance(exc, G.Runaway):
                viol.append((site + ':loop-does-not-terminate', {'passes_over_the_input': mon.passes, 'cells': len(want)}))
            else:
                viol.append((f'{site}:exception:{type(exc).__name__}', {'ex': repr(exc)}))
        # ---- every file of the output folder
        found = O.list_bams(out) if os.path.isdir(out) else {}
        complete = {}
        total = 0
        for stem, path in found.items():
            prob = O.container_problem(path)
            if prob is not None:
                viol.append((site + ':invalid-or-truncated-bam', {'file': stem + '.bam', 'problem': prob}))
                continue
            try:
                got = G.read_records(path)
            except Exception as ex:
                viol.append((site + ':invalid-or-truncated-bam', {'file': stem + '.bam', 'problem': repr(ex)}))
                continue
            total += len(got)
            if stem not in want:
                if got:
                    viol.append((site + ':records-in-a-file-of-no-cell', {'file': stem + '.bam', 'records': len(got)}))
                continue
            clause, comp = O.judge_records(got, want[stem])
            if clause:
                viol.append((f'{site}:{clause}', {'file': stem + '.bam', 'got': [r.split('\t')[0] for r in got],
                                                  'want': [r.split('\t')[0] for r in want[stem]]}))
            complete[stem] = comp and not clause
        # ---- completeness
        if exc is None and not any(s.endswith(':run-failed') for s, _ in viol):
            if mode in ('main', 'main-real'):
                if head is None:
                    for stem in want:
                        if stem not in found:
                            viol.append((site + ':no-file-for-a-cell', {'cell': stem}))
                        elif complete.get(stem) is False:
                            viol.append((site + ':records-lost', {'cell': stem}))
            else:
                live = [s for s in want if s not in (skip or ())]
                for stem in sorted(done):
                    if stem not in want:
                        continue
                    if stem not in found:
                        viol.append((site + ':cell-reported-done-without-a-file', {'cell': stem}))
                    elif head is None and complete.get(stem) is False:
                        viol.append((site + ':records-lost', {'cell': stem}))
                if head is None:
                    missing = [s for s in live if s not in done and s not in waiting]
                    if missing:
                        viol.append((site + ':cell-neither-written-nor-reported-waiting', {'cells': missing}))
                if live and not (done & set(live)):
                    viol.append((site + ':pass-serves-no-cell-although-handles-are-free', {'done': sorted(done)}))
                if head is not None:
                    if total > head:
                        viol.append((site + ':more-records-written-than-head', {'head': head, 'written': total}))
                    elif total < head and any(complete.get(s) is False for s in done if s in want):
                        viol.append((site + ':fewer-records-written-than-head-although-more-were-there',
                                     {'head': head, 'written': total}))
        if mon is not None and limit is not None and mon.max_open > limit:
            viol.append((site + ':more-output-files-open-than-max_handles', {'max_handles': limit, 'open': mon.max_open}))
        info = {'cells': len(want), 'files': len(found), 'passes': mon.passes if mon is not None else None,
                'max_open': mon.max_open if mon is not None else None, 'records': total,
                'tagged': sum(len(v) for v in want.values()),
                'waiting': bool(waiting) if waiting is not None else None, 'raised': exc is not None}
    finally:
        shutil.rmtree(tmp, ignore_errors=True)
    seen = set()
    return [(s, d) for s, d in viol if not (s in seen or seen.add(s))], info


def _bam_case(word, mode, k, head, skip):
    return {'kind': 'bam', 'word': word, 'mode': mode, 'max_handles': k, 'head': head, 'skip': skip}


def _bam_report(acc, case, viols, info):
    k = case['max_handles']
    # non-trivial: the limit binds (more cells than handles -> cells wait / a further pass) or head stops the pass early
    limited = k is not None and info['cells'] > k
    early = case['head'] is not None and info['records'] < info['tagged']
    acc.case(case, transitions=len(case['word']), nontrivial=limited or early,
             outcome=(f"bam:{case['mode']},passes={min(info['passes'] or 0, 4)},limited={limited},early={early},"
                      f"raised={info['raised']}"))
    for sig, d in viols:
        acc.violation(sig, case, d)


def run_bam_words(ws, tier, acc):
    import shutil
    import tempfile
    from gen import c19_bam as G
    tmp = tempfile.mkdtemp(prefix='c19in', dir='/dev/shm')
    try:
        for word in ws:
            inp = os.path.join(tmp, 'in.bam')
            G.write_input(inp, word)
            for mode, k, head, skip in _bam_configs(word, tier):
                viols, info = execute_bam(word, mode, k, head, skip, input_bam=inp)
                _bam_report(acc, _bam_case(word, mode, k, head, skip), viols, info)
    finally:
        shutil.rmtree(tmp, ignore_errors=True)


# the same command lines with the real multiprocessing.Pool(10) in a fresh interpreter (a thin slice: one process per run)
REAL_RUNS = [('abc', 1, None), ('asub', 2, None), ('ab-mca', 2, None), ('abcabc', None, None), ('xaxb', 1, None), ('abab', 1, 2),
             ('a', 1, None), ('-', 1, None), ('absucx', 3, None), ('bacm', 4, 3), ('iai', 1, None), ('cbaabc', 2, 5)]


def run_shard(shard, tier, acc):
    if shard[0] == 'group':
        for _, w in shard[1]:
            run_word(w, tier, acc)
    elif shard[0] == 'fastq':
        n = 4 if tier == 'quick' else 5
        for w in fastq_words(n):
            for paired in (True, False):
                for mh in (1, 2, 500):
                    plans = [{}] + [{'emfile_k': k} for k in (1, 2, 3, 4)] + [{'fail_calls': [i]} for i in range(2 * len(w) + 2)]
                    for plan in plans:
                        case = {'kind': 'fastq', 'word': list(w), 'maxHandles': mh, 'plan': plan, 'paired': paired}
                        viols, info = execute_fastq(w, mh, _norm_plan(plan), paired)
                        acc.case(case, transitions=(2 if paired else 1) * len(w), nontrivial=info['hit_with_others_open'],
                                 outcome=(f"fq:paired={paired},nocell={NO_CELL in w},fail={min(info['failures'], 3)},"
                                          f"others={info['hit_with_others_open']},raised={info['raised'] is not None}"))
                        for sig, d in viols:
                            acc.violation(sig, case, d)
    elif shard[0] == 'bam':
        run_bam_words(shard[1], tier, acc)
    elif shard[0] == 'bam-real':
        word, k, head = REAL_RUNS[shard[1]]
        viols, info = execute_bam(word, 'main-real', k, head, [])
        _bam_report(acc, _bam_case(word, 'main-real', k, head, []), viols, info)
    elif shard[0] == 'sweep':
        word = tuple(list(range(200)) + list(range(199, -1, -1)) + [0, 100, 199, 0])
        for mh, pe, plan in ((32, 50, {}), (32, 50, {'emfile_k': 20}), (500, 10000, {'emfile_k': 64}), (4, 1, {'emfile_k': 3}),
                             (32, 7, {'emfile_k': 40}), (32, 50, {'fail_calls': [150, 151, 320]})):
            case = {'kind': 'limiter', 'word': list(word), 'maxHandles': mh, 'pruneEvery': pe, 'method': 1, 'plan': plan}
            viols, info = execute(word, mh, pe, _norm_plan(plan), 1)
            acc.case({'kind': 'sweep', 'maxHandles': mh, 'pruneEvery': pe, 'plan': plan}, transitions=len(word),
                     nontrivial=info['hit_with_others_open'], outcome=f"sweep:fail={min(info['failures'], 3)}")
            for sig, d in viols:
                acc.violation(sig, case, d)


def replay(case):
    if case['kind'] == 'bam':
        return execute_bam(case['word'], case['mode'], case['max_handles'], case['head'], case['skip'])[0]
    if case['kind'] == 'fastq':
        return execute_fastq(tuple(case['word']), case['maxHandles'], _norm_plan(case['plan']), case.get('paired', True))[0]
    return execute(tuple(case['word']), case['maxHandles'], case['pruneEvery'], _norm_plan(case['plan']), case['method'])[0]
