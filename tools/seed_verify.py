#!/venv/bin/python
"""Verify one seeded change and file it under /verif/seeded/<name>/.

usage: tools/seed_verify.py <PROP e.g. C09> <out_dir with patch.diff demo.py notes.md> <worktree> [--checks C09,C06] [--skip-suite]

Steps (all in the scratch worktree, /repo is never touched):
  1. clean worktree: demo must exit 0
  2. apply patch: demo must exit 1
  3. repository suite with the patch: must be 81 passed
  4. every listed check (default: the property's own) against the patched worktree (VERIF_REPO): records exit code + signatures
  5. revert the worktree; write seeded/<name>/{patch.diff,demo.py,notes.md,meta.json}
"""
import json
import os
import re
import shutil
import subprocess
import sys
import time

VERIF = os.path.dirname(os.path.dirname(os.path.abspath(__file__)))


def sh(cmd, cwd=None, env=None, timeout=3600):
    p = subprocess.run(cmd, shell=True, cwd=cwd, env=env, capture_output=True, text=True, timeout=timeout)
    return p.returncode, p.stdout + p.stderr


def main():
    prop, out_dir, wt = sys.argv[1:4]
    checks = [prop]
    skip_suite = '--skip-suite' in sys.argv
    tier = 'quick'
    for a in sys.argv[4:]:
        if a.startswith('--checks='):
            checks = a.split('=', 1)[1].split(',')
        if a.startswith('--tier='):
            tier = a.split('=', 1)[1]
    name = f"{prop}-{os.path.basename(os.path.normpath(out_dir))}"
    for a in sys.argv[4:]:
        if a.startswith('--name='):
            name = a.split('=', 1)[1]
    patch = os.path.join(out_dir, 'patch.diff')
    demo = os.path.join(out_dir, 'demo.py')
    res = {'property': prop, 'name': name, 'verified_at': time.strftime('%Y-%m-%d %H:%M:%S')}
    sh('git checkout -- . && git clean -fdq data', cwd=wt)
    rc0, out0 = sh(f'/venv/bin/python {demo}', cwd=wt)
    res['demo_exit_unchanged'] = rc0
    rc, out = sh(f'git apply {patch}', cwd=wt)
    if rc != 0:
        print('PATCH DOES NOT APPLY', out)
        sys.exit(2)
    try:
        rc1, out1 = sh(f'/venv/bin/python {demo}', cwd=wt)
        res['demo_exit_with_change'] = rc1
        res['demo_output_tail'] = out1.strip().splitlines()[-3:]
        if not skip_suite:
            rcs, outs = sh('/venv/bin/python -m pytest -q -p no:cacheprovider --timeout=900 2>&1 | tail -3', cwd=wt)
            m = re.search(r'(\d+) passed', outs)
            f = re.search(r'(\d+) failed', outs)
            res['suite'] = {'passed': int(m.group(1)) if m else 0, 'failed': int(f.group(1)) if f else 0}
        res['checks'] = {}
        env = dict(os.environ, VERIF_REPO=wt, VERIF_EVIDENCE_DIR=os.path.join(wt, '_ev'))
        for c in checks:
            t = time.time()
            rcc, outc = sh(f'./check {c} --tier {tier}', cwd=VERIF, env=env)
            sigs = re.findall(r'signature=(\S+)', outc)
            res['checks'][c] = {'exit': rcc, 'tier': tier, 'signatures': sigs[:12], 'n_signatures': len(sigs), 'wall_s': round(time.time() - t, 1)}
            if rcc == 2:
                res['checks'][c]['error'] = [l for l in outc.splitlines() if 'ERROR' in l][:3]
    finally:
        sh('git checkout -- . && git clean -fdq data; rm -rf _ev', cwd=wt)
    ok = (res['demo_exit_unchanged'] == 0 and res.get('demo_exit_with_change') == 1 and
          (skip_suite or (res['suite']['passed'] == 81 and res['suite']['failed'] == 0)))
    res['confirmed'] = ok
    res['caught_by'] = [c for c, r in res['checks'].items() if r['exit'] == 1]
    dst = os.path.join(VERIF, 'seeded', name)
    os.makedirs(dst, exist_ok=True)
    for f in ('patch.diff', 'demo.py', 'notes.md'):
        if os.path.exists(os.path.join(out_dir, f)):
            shutil.copy(os.path.join(out_dir, f), os.path.join(dst, f))
    notes = open(os.path.join(out_dir, 'notes.md')).read() if os.path.exists(os.path.join(out_dir, 'notes.md')) else ''
    res['needs_to_manifest'] = notes[:1500]
    res['how_to_rerun'] = f'git -C <scratch worktree> apply seeded/{name}/patch.diff; VERIF_REPO=<scratch worktree> ./check {prop}'
    with open(os.path.join(dst, 'meta.json'), 'w') as f:
        json.dump(res, f, indent=1)
    print(json.dumps({k: res[k] for k in ('name', 'confirmed', 'demo_exit_unchanged', 'demo_exit_with_change', 'suite', 'caught_by') if k in res}),
          {c: (r['exit'], r['signatures'][:2]) for c, r in res['checks'].items()})


if __name__ == '__main__':
    main()
