"""C18 - allele lookups agree with the VCF in every loading mode.

Explicit-state breadth-first search over HISTORIES of runs that share one cache directory.

  run      = (mode in eager / lazy / cache / cache+eager, select_samples, ignore_conversions, phased,
              first operation in has_location / getAllelesAt) + a contig access sequence over
              {c1, c2, c3_random (never cached), zz (not in the VCF)};  every run builds a FRESH
              AlleleResolver, so the only thing that crosses a run boundary is the cache directory.
  state    = exact content of <vcf>_allele_cache: absent / {file name -> decompressed text}.
  search   = from every state reachable in < depth runs ALL runs are executed on the real code, in a
             private copy of the VCF directory restored to exactly that state.
  at every access every (position 0..last+1, base ACGT) lookup and every has_location answer of the
  contig is compared with
    (i)  the eager, cache-free resolver of the SAME configuration (answers identical in every mode, for
         every access order, for every earlier history), and
    (ii) gen-independent expectations computed from the VCF text for the unambiguous core
         (oracles/c18_expected.py).
"""
import atexit
import gzip
import itertools
import os
import shutil
import sys
import tempfile

from gen import c18_vcf as G
from oracles import c18_expected as O
from mc.bind import HarnessError

ID = 'C18'
DESIGN_REF = 'DESIGN.md section 3, C18; section 4 lead 13'
RULE = ('breadth-first search over histories of runs sharing one allele-cache directory; search state = exact '
        'content of the cache directory ({file -> decompressed text}, or no directory); from every state reached '
        'in < depth runs EVERY run (mode x select_samples x ignore_conversions x phased x first-operation x access '
        'sequence) is executed on a fresh real AlleleResolver and all lookups / has_location answers of every '
        'accessed contig are compared with the eager cache-free resolver of the same configuration and with the '
        'VCF-text oracle; states = distinct (cache state, run) cases, counter cache_states = distinct cache '
        'states expanded; a case is non-trivial when the run finds a cache file written by an EARLIER run for a '
        'contig it accesses, or returns to a contig that was evicted by loading another one')
ASSUMPTIONS = [
    'lookup positions are >= 0 (the loader plants a sentinel at position -1)',
    'the VCF is bgzipped, tabix-indexed and readable by pysam; each site occurs once',
    'the independent VCF-text oracle only speaks about sites whose REF/ALT are single nucleotides and whose selected '
    'samples have no missing allele, with phased=True; all other sites and phased=False are covered by the '
    'all-modes-agree comparison only',
    'an empty set counts as "nothing"',
    'runs of one history are sequential (no two processes write the cache concurrently)',
]

MODES = ('eager', 'lazy', 'cache', 'cache+eager')
MODE_KW = {
    'eager': {'lazyLoad': False, 'use_cache': False},
    'lazy': {'lazyLoad': True, 'use_cache': False},
    'cache': {'lazyLoad': True, 'use_cache': True},
    'cache+eager': {'lazyLoad': False, 'use_cache': True},
}
CACHE_MODES = ('cache', 'cache+eager')
SELECTS = (None, ('S1', 'S2'), ('S1',))
IGNORES = (None, (('C', 'T'), ('G', 'A')))
PHASED = (True, False)
FIRSTS = ('g', 'h')          # g: getAllelesAt touches the contig first, h: has_location does
SYMBOLS = G.CACHED_CONTIGS + ('c3_random', G.ABSENT)
NODIR = ('<no cache directory>',)


def bounds(tier):
    b = {'modes': list(MODES), 'select_samples': [None, ['S1', 'S2'], ['S1']],
         'ignore_conversions': [None, [['C', 'T'], ['G', 'A']]], 'phased': [True, False],
         'first_operation': ['getAllelesAt', 'has_location'], 'access_symbols': list(SYMBOLS),
         'max_access_sequence_length': 3,
         'vcf': {'samples': 3, 'contigs_with_records': 3, 'site_classes_per_contig': len(G.TEMPLATE)},
         'probe_positions': [0, G.MAX_POS0 + 1], 'probe_bases': list(G.PROBE_BASES)}
    b['history_depth'] = 2 if tier == 'quick' else 3
    return b


# ------------------------------------------------------------------------------------------------ alphabet

def access_sequences(max_len=3):
    out = []
    for n in range(0, max_len + 1):
        out.extend(itertools.product(SYMBOLS, repeat=n))
    return out


def chunk_runs(mode, phased):
    """All runs of one (mode, phased) chunk, simplest first."""
    for acc in access_sequences():
        for si in range(len(SELECTS)):
            for ii in range(len(IGNORES)):
                for first in FIRSTS:
                    yield (mode, si, ii, phased, first, acc)


CHUNKS = [(m, p) for p in PHASED for m in MODES]


def all_runs():
    for m, p in CHUNKS:
        yield from chunk_runs(m, p)


def generating_runs():
    """Runs used to DISCOVER the reachable cache states before the workers start (completeness of the
    discovery is verified while exploring: an undiscovered successor is explored on the spot)."""
    for acc in ((), (G.ABSENT,), ('c1',), ('c2',), ('c1', 'c2')):
        for si in range(len(SELECTS)):
            for ii in range(len(IGNORES)):
                for p in PHASED:
                    for m in CACHE_MODES:
                        yield (m, si, ii, p, 'g', acc)


def run_to_json(run):
    m, si, ii, p, first, acc = run
    return {'mode': m, 'select_samples': list(SELECTS[si]) if SELECTS[si] else None,
            'ignore_conversions': [list(x) for x in IGNORES[ii]] if IGNORES[ii] else None,
            'phased': p, 'first': 'has_location' if first == 'h' else 'getAllelesAt', 'access': list(acc)}


def run_from_json(j):
    sel = tuple(j['select_samples']) if j['select_samples'] else None
    ign = tuple(tuple(x) for x in j['ignore_conversions']) if j['ignore_conversions'] else None
    return (j['mode'], SELECTS.index(sel), IGNORES.index(ign), bool(j['phased']),
            'h' if j['first'] == 'has_location' else 'g', tuple(j['access']))


# ------------------------------------------------------------------------------------------------ files

_ROOT = None
_OWNER = None
_MASTER = None
_WORK = {}          # pid -> (directory, vcf path)
_ON_DISK = {}       # pid -> state key currently materialised in the work dir


def _cleanup():
    if _ROOT and _OWNER == os.getpid():
        shutil.rmtree(_ROOT, ignore_errors=True)


class _Null:
    def write(self, *_a):
        return 0

    def flush(self):
        pass


class _quiet:
    """AlleleResolver reports failed loads with print(); keep the check's output clean."""

    def __enter__(self):
        self._o = sys.stdout
        sys.stdout = _Null()

    def __exit__(self, *a):
        sys.stdout = self._o


def _workdir():
    pid = os.getpid()
    if pid not in _WORK:
        d = tempfile.mkdtemp(prefix=f'w{pid}_', dir=_ROOT)
        _WORK.clear()
        _WORK[pid] = (d, G.clone(_MASTER, d))
        _ON_DISK.clear()
        _ON_DISK[pid] = NODIR
    return _WORK[pid]


def _cache_dir(vcf_path):
    return vcf_path + '_allele_cache'


def cache_file(contig, si):
    """Name the documentation gives the per-contig cache file (anchors: <contig>[_samples].tsv.gz)."""
    name = contig
    if SELECTS[si] is not None:
        name += '_' + '-'.join(sorted(SELECTS[si]))
    return name + '.tsv.gz'


class State:
    __slots__ = ('key', 'raw', 'text', 'history', 'level')

    def __init__(self, key, raw, text, history, level):
        self.key, self.raw, self.text, self.history, self.level = key, raw, text, history, level


EMPTY = State(NODIR, {}, {}, (), 0)


def _restore(vcf_path, state):
    pid = os.getpid()
    if _ON_DISK.get(pid) == state.key:
        return
    cd = _cache_dir(vcf_path)
    if os.path.lexists(cd):
        shutil.rmtree(cd)
    if state.key != NODIR:
        os.mkdir(cd)
        for name, raw in state.raw.items():
            with open(os.path.join(cd, name), 'wb') as f:
                f.write(raw)
    _ON_DISK[pid] = state.key


def _snapshot(vcf_path, before):
    """-> (key, raw, text) of the cache directory now; `before` is the state that was restored."""
    cd = _cache_dir(vcf_path)
    if not os.path.isdir(cd):
        return NODIR, {}, {}
    raw, text = {}, {}
    for name in sorted(os.listdir(cd)):
        p = os.path.join(cd, name)
        if not os.path.isfile(p):
            raise HarnessError(f'unexpected non-file {p} in the cache directory')
        with open(p, 'rb') as f:
            r = f.read()
        raw[name] = r
        if before.raw.get(name) == r:
            text[name] = before.text[name]
        else:
            try:
                text[name] = gzip.decompress(r).decode('latin-1')
            except Exception:
                text[name] = 'RAW:' + r.decode('latin-1')
    key = tuple(sorted(text.items()))
    return key, raw, text


# ------------------------------------------------------------------------------------------------ real code

def _resolver(vcf_path, run):
    from singlecellmultiomics.alleleTools import AlleleResolver
    mode, si, ii, phased = run[0], run[1], run[2], run[3]
    return AlleleResolver(vcf_path,
                          select_samples=list(SELECTS[si]) if SELECTS[si] else None,
                          ignore_conversions=set(IGNORES[ii]) if IGNORES[ii] else None,
                          phased=phased, **MODE_KW[mode])


def _observe(ar, contig, first):
    h0 = None
    if first == 'h':
        h0 = tuple(p for p in G.PROBE_POSITIONS if ar.has_location(contig, p))
    lk = []
    for p in G.PROBE_POSITIONS:
        for b in G.PROBE_BASES:
            r = ar.getAllelesAt(contig, p, b)
            if r is not None and len(r) > 0:
                lk.append((p, b, tuple(sorted(r))))
    h1 = tuple(p for p in G.PROBE_POSITIONS if ar.has_location(contig, p))
    return h0, tuple(lk), h1


def _execute(vcf_path, run):
    """One run on the real code. -> ([(h0, lookups, h1) per access], exception or None)"""
    obs = []
    try:
        ar = _resolver(vcf_path, run)
        for contig in run[5]:
            obs.append(_observe(ar, contig, run[4]))
    except Exception as e:       # the code under test failed: a violation, reported by the caller
        return obs, e
    return obs, None


# ------------------------------------------------------------------------------------------------ oracles

REF = {}        # (si, ii, phased) -> {contig: (lookups, has_location positions)}   eager, cache-free, real code
EXP = {}        # (si, ii, phased) -> {contig: (lookups on known positions, has positions, unknown positions)}
EXP_RAW = {}    # (si, ii, phased) -> oracle dict
_VCF_TEXT = None


def setup():
    global _ROOT, _OWNER, _MASTER, _VCF_TEXT
    if _ROOT is not None:
        return
    base = '/dev/shm' if os.path.isdir('/dev/shm') else None
    _ROOT = tempfile.mkdtemp(prefix='c18_', dir=base)
    _OWNER = os.getpid()
    atexit.register(_cleanup)
    _MASTER = os.path.join(_ROOT, 'master')
    os.mkdir(_MASTER)
    G.build(_MASTER)
    with open(os.path.join(_MASTER, 'alleles.vcf')) as f:
        _VCF_TEXT = f.read()
    for si in range(len(SELECTS)):
        for ii in range(len(IGNORES)):
            for phased in PHASED:
                key = (si, ii, phased)
                # (i) reference: eager + cache-free, in a directory nobody else uses
                d = tempfile.mkdtemp(prefix='ref_', dir=_ROOT)
                vcf = G.clone(_MASTER, d)
                with _quiet():
                    ar = _resolver(vcf, ('eager', si, ii, phased))
                    REF[key] = {}
                    for c in SYMBOLS:
                        _h0, lk, h1 = _observe(ar, c, 'g')
                        REF[key][c] = (lk, h1)
                shutil.rmtree(d)
                # (ii) VCF-text oracle
                e = O.expected(_VCF_TEXT, select=SELECTS[si], ignore=set(IGNORES[ii]) if IGNORES[ii] else None,
                               phased=phased)
                EXP_RAW[key] = e
                EXP[key] = {}
                for c in SYMBOLS:
                    site = e.get(c, {})
                    unknown = frozenset(p for p, v in site.items() if v == O.UNKNOWN)
                    lk = tuple((p, b, tuple(sorted(site[p][b])))
                               for p in G.PROBE_POSITIONS if p in site and p not in unknown
                               for b in G.PROBE_BASES if b in site[p])
                    has = tuple(p for p in G.PROBE_POSITIONS if p in site and p not in unknown and site[p])
                    EXP[key][c] = (lk, has, unknown)
    if not any(REF[k][c][0] for k in REF for c in SYMBOLS):
        raise HarnessError('the eager reference resolver answers nothing at all: VCF generation is broken')


def _kind(contig):
    if contig == G.ABSENT:
        return 'absent-contig'
    return 'cached-contig' if contig in G.CACHED_CONTIGS else 'uncached-contig'


def _lookup_signature(run, contig, lk, pre):
    mode, si, ii, phased = run[0], run[1], run[2], run[3]
    ref_lk = REF[(si, ii, phased)][contig][0]
    if mode == 'cache+eager' and not lk and ref_lk:
        return 'flags:use_cache-without-lazyLoad-returns-nothing'
    if mode in CACHE_MODES and contig in G.CACHED_CONTIGS and cache_file(contig, si) in pre.text:
        # the answers came out of a cache file of an earlier run: whose answers are they?
        for ii2, ph2, label in ((1 - ii, phased, 'ignore_conversions'), (ii, not phased, 'phased'),
                                (1 - ii, not phased, 'ignore_conversions+phased')):
            if REF[(si, ii2, ph2)][contig][0] == lk:
                return f'cache:reused-across-{label}'
        for si2 in range(len(SELECTS)):
            if si2 != si and any(REF[(si2, i2, p2)][contig][0] == lk for i2 in (0, 1) for p2 in PHASED):
                return 'cache:reused-across-select_samples'
        for c2 in SYMBOLS:
            if c2 != contig and any(REF[k][c2][0] == lk for k in REF):
                return 'cache:reused-across-contigs'
        return f'{mode}:cache-read-differs-from-eager'
    return f'{mode}:lookup-differs-from-eager:{_kind(contig)}'


def _oracle_violations(key, contig, lk, h1):
    """obs vs VCF-text expectations on the unambiguous core; only called when obs equals the eager reference,
    so a mismatch is a defect of the site rules themselves, whatever the mode."""
    exp_lk, exp_has, unknown = EXP[key][contig]
    out = []
    core = tuple(x for x in lk if x[0] not in unknown) if unknown else lk
    if core != exp_lk:
        site = EXP_RAW[key].get(contig, {})
        noign = O.expected(_VCF_TEXT, select=SELECTS[key[0]], ignore=None, phased=key[2]).get(contig, {})
        got = {}
        for p, b, s in core:
            got.setdefault(p, {})[b] = s
        want = {}
        for p, b, s in exp_lk:
            want.setdefault(p, {})[b] = s
        for p in G.PROBE_POSITIONS:
            if got.get(p) == want.get(p):
                continue
            if p not in site:
                cls = 'answer-at-absent-site'
            elif not want.get(p):
                cls = 'answer-at-ignored-conversion-site' if noign.get(p) else 'answer-at-uninformative-site'
            elif not got.get(p):
                cls = 'no-answer-at-informative-site'
            else:
                cls = 'wrong-samples-at-informative-site'
            out.append((f'vcf-oracle:getAllelesAt:{cls}',
                        {'contig': contig, 'position': p, 'got': got.get(p), 'expected': want.get(p, {})}))
    hcore = tuple(p for p in h1 if p not in unknown) if unknown else h1
    if hcore != exp_has and core == exp_lk:
        out.append(('vcf-oracle:has_location:disagrees-with-informative-sites',
                    {'contig': contig, 'got': list(hcore), 'expected': list(exp_has)}))
    return out


def check_run(run, pre, obs, exc):
    """-> [(signature, detail)] for one executed run that started in cache state `pre`."""
    mode, si, ii, phased, first, access = run
    key = (si, ii, phased)
    out = []
    for i, (h0, lk, h1) in enumerate(obs):
        contig = access[i]
        ref_lk, ref_h = REF[key][contig]
        lookup_ok = (lk == ref_lk)
        if not lookup_ok:
            diff = sorted(set(lk) ^ set(ref_lk))[:4]
            out.append((_lookup_signature(run, contig, lk, pre),
                        {'access_index': i, 'contig': contig, 'answers': len(lk), 'eager_answers': len(ref_lk),
                         'first_differences(pos,base,samples)': diff}))
        has_ok = (h1 == ref_h) and (h0 is None or h0 == ref_h)
        if not has_ok:
            det = {'access_index': i, 'contig': contig, 'first_pass': None if h0 is None else list(h0),
                   'after_lookups': list(h1), 'eager': list(ref_h)}
            if contig == G.ABSENT:
                out.append(('has_location:absent-contig-inconsistent', det))
            elif lookup_ok:
                why = 'changes-between-calls' if (h0 is not None and h0 != h1) else 'differs-from-eager'
                out.append((f'has_location:{mode}:{why}:{_kind(contig)}', det))
        if lookup_ok and has_ok:
            out.extend(_oracle_violations(key, contig, lk, h1))
    if exc is not None:
        out.append((f'{mode}:exception:{type(exc).__name__}', {'access_index': len(obs), 'error': repr(exc)}))
    seen = set()
    return [(s, d) for s, d in out if not (s in seen or seen.add(s))]


# ------------------------------------------------------------------------------------------------ search

_STATES = []        # discovered states, index = id
_INDEX = {}         # key -> id
_DEPTH = None


def _step(vcf_path, pre, run):
    """Restore `pre`, execute `run`, -> (obs, exc, successor State (history not filled in))."""
    _restore(vcf_path, pre)
    with _quiet():
        obs, exc = _execute(vcf_path, run)
    key, raw, text = _snapshot(vcf_path, pre)
    _ON_DISK[os.getpid()] = key
    if key == pre.key:
        return obs, exc, pre
    return obs, exc, State(key, raw, text, None, pre.level + 1)


def _discover(depth):
    """States reachable in < depth runs (those are the ones that get expanded)."""
    global _DEPTH
    if _DEPTH == depth:
        return
    del _STATES[:]
    _INDEX.clear()
    _STATES.append(EMPTY)
    _INDEX[EMPTY.key] = 0
    _, vcf = _workdir()
    frontier = [EMPTY]
    for level in range(1, depth):
        new = []
        for s in frontier:
            for run in generating_runs():
                _obs, _exc, succ = _step(vcf, s, run)
                if succ.key not in _INDEX:
                    succ.history = s.history + (run,)
                    succ.level = level
                    _INDEX[succ.key] = len(_STATES)
                    _STATES.append(succ)
                    new.append(succ)
        frontier = new
    _restore(vcf, EMPTY)
    _DEPTH = depth


def shards(tier):
    depth = bounds(tier)['history_depth']
    _discover(depth)
    out = []
    for sid in range(len(_STATES)):
        for ci in range(len(CHUNKS)):
            out.append((sid, ci, depth))
    return out


def _returns_to_evicted(access):
    for k in range(2, len(access)):
        for i in range(k - 1):
            if access[i] == access[k] and any(access[j] != access[k] for j in range(i + 1, k)):
                return True
    return False


def _explore(state, runs, depth, acc, local):
    _, vcf = _workdir()
    for run in runs:
        obs, exc, succ = _step(vcf, state, run)
        viols = check_run(run, state, obs, exc)
        mode, si = run[0], run[1]
        cached_access = [c for c in run[5] if c in G.CACHED_CONTIGS]
        found = mode in CACHE_MODES and any(cache_file(c, si) in state.text for c in cached_access)
        wrote = succ.key != state.key
        evict = mode != 'eager' and _returns_to_evicted(run[5])
        effect = ('reads' if found else '') + ('+writes' if wrote else '') or 'cache-untouched'
        case = {'history': [run_to_json(r) for r in state.history + (run,)]}
        acc.case(case, transitions=1 + len(run[5]) * (len(G.PROBE_POSITIONS) * (len(G.PROBE_BASES) + 1 + (run[4] == 'h'))),
                 nontrivial=bool(found or evict),
                 outcome=f"{mode}|{effect}|{'return-to-evicted' if evict else 'no-return'}|{'VIOLATION' if viols else 'ok'}")
        for sig, det in viols:
            acc.violation(sig, case, det)
        if wrote and succ.level < depth and succ.key not in _INDEX and succ.key not in local:
            # the discovery pass missed this state: explore it here, completely, so the bound stays exhaustive
            local.add(succ.key)
            succ.history = state.history + (run,)
            acc.count('undiscovered_successor_states', 1)
            acc.count('cache_states', 1)
            _explore(succ, all_runs(), depth, acc, local)


def run_shard(shard, tier, acc):
    sid, ci, depth = shard
    state = _STATES[sid]
    if ci == 0:
        acc.count('cache_states', 1)
        acc.count(f'cache_states_level_{state.level}', 1)
    _explore(state, chunk_runs(*CHUNKS[ci]), depth, acc, set())


# ------------------------------------------------------------------------------------------------ replay

def replay(case):
    """Run ONE history in a brand-new private copy of the VCF directory, run after run."""
    setup()
    d = tempfile.mkdtemp(prefix='replay_', dir=_ROOT)
    out = []
    try:
        vcf = G.clone(_MASTER, d)
        pre = EMPTY
        for j in case['history']:
            run = run_from_json(j)
            with _quiet():
                obs, exc = _execute(vcf, run)
            out.extend(check_run(run, pre, obs, exc))
            key, raw, text = _snapshot(vcf, pre)
            pre = State(key, raw, text, None, 0)
    finally:
        shutil.rmtree(d, ignore_errors=True)
    seen = set()
    return [(s, dd) for s, dd in out if not (s in seen or seen.add(s))]
