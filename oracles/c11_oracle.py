"""Independent recomputation of a count table (C11).

Written from the property statement in /verif/properties.jsonl and from the help strings of the command line
(bamToCountTable.py --help); it works on the ABSTRACT description of a read (a dict, see gen/c11_reads.py), never
on a pysam object and never through code of the package.

Documentation used (help text quoted):
  --r1only "Only count R1"; --r2only "Only count R2"
  -minMQ "minimum mapping quality"                                  -> MAPQ >= minMQ passes
  --proper_pairs_only "Only count reads mapped in a proper pair"
  --no_indels "Only count reads without indels"                     -> no I and no D operation in the CIGAR
  --no_softclips "Only count reads without softclips"               -> no S operation
  -max_base_edits "Count reads with at most this value of bases being different than the reference"  -> NM <= value
  --filterXA "Do not count reads where the XA (alternative hits) tag has been set for a non-alternative locus."
  --filterMP "Filter reads which are not uniquely mappable, this is based on presence on the `mp` tag"
  --dedup  + property: "--dedup excluding duplicates and rejected reads"  -> duplicate flag or RR (reject reason) tag
  -blacklist "Bedfile of blacklist regions to exclude"
  --doNotDivideFragments "When used every read is counted once, a fragment will count as two reads. 0.5 otherwise"
  --divideMultimapping "Divide multimapping reads over all targets. Requires the XA or NH tag to be set."
  -byValue "Extract the value from the supplied tag and use this as count to add"
  -contig "Run only on this chromosome"; -bedfile "... chromo, start, end to be read for fetching counts"
  --splitFeatures "Split features by , . For example if a read has a feature Foo,Bar increase counts for both Foo and
                  Bar" (-featureDelimiter: the separator); without the switch the value is one feature, as it stands
  -joinedFeatureTags "... If you want a column containing the chromosome mapped to use "chrom" as feature ..."
  -bin "Devide and floor to bin features. If bin=1000, f=1999 -> 1000." + property C10: the bin of coordinate p is
       [k*b, (k+1)*b) with k = floor(p/b); the key gets (start, end) appended; -binTag default DS
  property anchors: feature / sample values are looked up as a tag of the read, else (barcode index) under the tag's
       other spelling BI <-> bi, else as an attribute of the read (mapping_quality, ...); "chrom" = the contig name
  BED / blacklist files are half-open, 0-based intervals (UCSC BED format; the code comment at the blacklist test says
       the same): a read [s, e) lies in [bs, be) iff bs <= s and e <= be, and two intervals that only touch do not overlap
  secondary / supplementary alignments: no listed filter looks at these bits, so they count like any other record
  property: mapped, not qc-failed; "half per mate unless fragment division is disabled or one mate is selected";
  "multimapping division splits that weight over the reported hits"; "by-value counting adds the tag's numeric value".

Where these texts are silent or ambiguous the oracle answers AMBIGUOUS and the check does not compare:
  * unpaired read with --r1only / --r2only (is a single-end read "R1"?),
  * read without NM tag under -max_base_edits,
  * read without mp tag, or with a value other than unique / bad, under --filterMP,
  * XA and NH both present and disagreeing about the number of hits under --divideMultimapping,
  * a read touching a blacklist / BED region only partly (only fully inside / fully outside are generated).
With --splitFeatures every piece is incremented; the help does not say whether by the read's weight or by a share of
it, both are accepted.  Empty pieces (a value starting / ending with the delimiter) are not generated.
For -byValue combined with a weight that would not be 1 (mate halves, multimapping division) both the literal value
and value x weight are accepted (the help says the value is "the count to add" and is silent on the interaction).
"""

AMBIGUOUS = 'ambiguous'


def xa_entries(xa):
    """bwa XA:Z value 'chr,pos,CIGAR,NM;' per alternative hit (trailing semicolon) -> list of contig names"""
    return [e.split(',')[0] for e in xa.split(';') if e]


def passes(rd, opt, blacklist=None):
    """True / False / AMBIGUOUS: does the read pass every selected filter?
    blacklist: None or {contig: [(start, end), ...]} (half-open)."""
    amb = False
    if rd['unmapped']:
        return False
    if rd['qcfail']:
        return False
    if opt['r1only'] or opt['r2only']:
        if rd['role'] == 'single':
            amb = True
        else:
            if opt['r1only'] and rd['role'] != 'R1':
                return False
            if opt['r2only'] and rd['role'] != 'R2':
                return False
    if rd['mapq'] < opt['minMQ']:
        return False
    if opt['proper_pairs_only'] and not (rd['role'] != 'single' and rd['proper'] and not rd['mate_unmapped']):
        return False
    ops = set(c for c in rd['cigar'] if c.isalpha())
    if opt['no_indels'] and (ops & {'I', 'D'}):
        return False
    if opt['no_softclips'] and 'S' in ops:
        return False
    if opt['max_base_edits'] is not None:
        if rd['NM'] is None:
            amb = True
        elif rd['NM'] > opt['max_base_edits']:
            return False
    if opt['filterXA'] and rd['XA'] is not None:
        if any(not c.endswith('_alt') for c in xa_entries(rd['XA'])):
            return False
    if opt['filterMP']:
        if rd['mp'] == 'bad':
            return False
        if rd['mp'] != 'unique':
            amb = True
    if opt['dedup'] and (rd['dup'] or rd['RR']):
        return False
    if blacklist:
        s, e = rd['pos'], rd['pos'] + ref_span(rd['cigar'])
        for bs, be in blacklist.get(rd['contig'], ()):
            if bs <= s and e <= be:
                return False          # fully inside an excluded region
            if s < be and bs < e:
                amb = True            # partial overlap: not generated, but never guessed either
    return AMBIGUOUS if amb else True


def ref_span(cigar):
    n, num = 0, ''
    for c in cigar:
        if c.isdigit():
            num += c
        else:
            if c in 'MDN=X':
                n += int(num)
            num = ''
    return n


def weights(rd, opt):
    """Set of acceptable increments of ONE table cell for a counted read, or AMBIGUOUS."""
    if opt['r1only'] or opt['r2only'] or opt['doNotDivideFragments']:
        w = 1.0
    elif rd['role'] != 'single' and not rd['mate_unmapped']:
        w = 0.5
    else:
        w = 1.0
    if opt['divideMultimapping']:
        n_xa = (len(xa_entries(rd['XA'])) + 1) if rd['XA'] is not None else None     # alternatives + the hit itself
        n_nh = rd['NH']
        if n_xa is not None and n_nh is not None and n_xa != n_nh:
            return AMBIGUOUS
        n = n_xa if n_xa is not None else n_nh
        if n is not None:
            w = w / n
    if opt['features'] == 'joined+byValue':
        v = float(rd['RC'])
        return {v} if w == 1.0 else {v, v * w}
    return {w}


BI_VALUE, bi_VALUE = 7, 8            # gen/c11_reads.py: value of the BI / bi tag where the read carries it
BIN = 100

# feature mode -> (joined?, the tags named on the command line, by-value tag, bin size); gen/c11_reads.FEATURE_ARGS
# is the same table turned into arguments (the check asserts they agree)
MODES = {
    'joined': (True, ('XT', 'chrom'), None, None),
    'single': (False, ('XT', 'chrom'), None, None),
    'joined+byValue': (True, ('XT', 'chrom'), 'RC', None),
    'joined1': (True, ('XT',), None, None),
    'joined+lookup': (True, ('BI', 'bi', 'mapping_quality', 'XT'), None, None),
    'single+lookup': (False, ('bi', 'mapping_quality'), None, None),
    'joined+bin': (True, ('XT',), None, BIN),
}


def feature_value(rd, tag, contig_names):
    """the read's own value of one feature / sample tag, as the string the table is keyed by"""
    if tag == 'chrom':
        return contig_names[rd['contig']]
    if tag == 'BI':          # own spelling first, else the other one
        return str(BI_VALUE if rd['bi'] in ('BI', 'both') else bi_VALUE)
    if tag == 'bi':
        return str(bi_VALUE if rd['bi'] in ('bi', 'both') else BI_VALUE)
    if tag == 'mapping_quality':
        return str(rd['mapq'])
    return str(rd[tag])


def keys(rd, opt, contig_names):
    """The table cells (feature keys, as tuples) a counted read contributes to."""
    joined, tags, _by, bin_ = MODES[opt['features']]
    vals = [feature_value(rd, t, contig_names) for t in tags]
    if opt.get('splitFeatures'):
        pieces = [v.split(opt['featureDelimiter']) for v in vals]
    else:
        pieces = [[v] for v in vals]
    if not joined:                           # -featureTags: one-dimensional, one row per tag value
        return [(p,) for ps in pieces for p in ps]
    out = [()]
    for ps in pieces:                        # -joinedFeatureTags: one row per combination
        out = [k + (p,) for k in out for p in ps]
    if bin_ is not None:
        start = (rd['DS'] // bin_) * bin_
        out = [k + (start, start + bin_) for k in out]
    return out


def sample(rd, sample_tags=('SM',), contig_names=None):
    return tuple((contig_names[rd['contig']] if t == 'chrom' else rd[t]) for t in sample_tags)


def expected_read(rd, opt, contig_names, blacklist=None, sample_tags=('SM',)):
    """-> AMBIGUOUS, or {(sample, key): set of acceptable values}  ({} = the read must not contribute)"""
    p = passes(rd, opt, blacklist)
    if p is False:
        return {}
    if p == AMBIGUOUS:
        return AMBIGUOUS
    w = weights(rd, opt)
    if w == AMBIGUOUS:
        return AMBIGUOUS
    sm = sample(rd, sample_tags, contig_names)
    ks = keys(rd, opt, contig_names)
    if opt.get('splitFeatures'):
        # "increase counts for both Foo and Bar": by the weight, or by an equal share of it (help is silent)
        ns = {len(ks)} | {len(feature_value(rd, t, contig_names).split(opt['featureDelimiter']))
                          for t in MODES[opt['features']][1]}
        w = set(w) | {x / n for x in w for n in ns}
    return {(sm, k): set(w) for k in ks}


def expected_table(reads, opt, contig_names, blacklist=None, sample_tags=('SM',), contig=None, bed=None):
    """Whole-table recomputation.
    Returns (cells, ambiguous_cells): cells {(sample, key): set of acceptable totals}; any cell an ambiguous read could
    contribute to is listed in ambiguous_cells (as a predicate input: (sample, key prefix)) and is not compared.
    contig: only reads of this contig ("Run only on this chromosome").
    bed: [(contig, start, end, name)]: only reads inside a region; key gets (start, end, name) appended."""
    cells, amb = {}, set()
    for rd in reads:
        cname = contig_names[rd['contig']]
        if contig is not None and cname != contig:
            continue
        suffixes = [()]
        if bed is not None:
            s, e = rd['pos'], rd['pos'] + (ref_span(rd['cigar']) if not rd['unmapped'] else 1)
            suffixes = []
            partial = False
            for bc, bs, be, bn in bed:
                if bc != cname:
                    continue
                if bs <= s and e <= be:
                    suffixes.append((bs, be, bn))
                elif s < be and bs < e:
                    partial = True
            if partial:
                amb.add(sample(rd, sample_tags, contig_names))
                continue
        ex = expected_read(rd, opt, contig_names, blacklist, sample_tags)
        if ex == AMBIGUOUS:
            amb.add(sample(rd, sample_tags, contig_names))
            continue
        for (sm, k), ws in ex.items():
            for suf in suffixes:
                cell = (sm, k + suf)
                prev = cells.get(cell, {0.0})
                cells[cell] = {a + b for a in prev for b in ws}
    return cells, amb


def why_not(rd, opt, blacklist=None):
    """Names of the documented clauses that exclude the read (only used to NAME a violated clause in a signature)."""
    out = []
    if rd['unmapped']:
        out.append('unmapped')
    if rd['qcfail']:
        out.append('qcfail')
    if rd['role'] != 'single':
        if opt['r1only'] and rd['role'] != 'R1':
            out.append('r1only')
        if opt['r2only'] and rd['role'] != 'R2':
            out.append('r2only')
    if rd['unmapped']:
        return out
    if rd['mapq'] < opt['minMQ']:
        out.append('minMQ')
    if opt['proper_pairs_only'] and not (rd['role'] != 'single' and rd['proper'] and not rd['mate_unmapped']):
        out.append('proper_pairs_only')
    ops = set(c for c in rd['cigar'] if c.isalpha())
    if opt['no_indels'] and (ops & {'I', 'D'}):
        out.append('no_indels')
    if opt['no_softclips'] and 'S' in ops:
        out.append('no_softclips')
    if opt['max_base_edits'] is not None and rd['NM'] is not None and rd['NM'] > opt['max_base_edits']:
        out.append('max_base_edits')
    if opt['filterXA'] and rd['XA'] is not None and any(not c.endswith('_alt') for c in xa_entries(rd['XA'])):
        out.append('filterXA')
    if opt['filterMP'] and rd['mp'] == 'bad':
        out.append('filterMP')
    if opt['dedup'] and (rd['dup'] or rd['RR']):
        out.append('dedup')
    if blacklist:
        s, e = rd['pos'], rd['pos'] + ref_span(rd['cigar'])
        if any(bs <= s and e <= be for bs, be in blacklist.get(rd['contig'], ())):
            out.append('blacklist')
    return out
