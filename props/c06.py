"""C06 - molecule assignment equals the ground-truth duplicate structure.

Every coordinate-ordered word (all orders among equal coordinates) of fragment letters with known truth
(cell, site, strand, UMI) goes through the real MoleculeIterator with NlaIII / CHIC / plain classes for the
full product of UMI Hamming distance x radius x fragment cap x pooling.  Then write_tags() on every
molecule: duplicate flags, RC/af/TF; every input duplicate-flag pattern; and a second pass over the
tagged reads (re-tagging is idempotent).
"""
import itertools

from gen.frags import nla_reads, chic_reads, delivery_coordinate

ID = 'C06'
RULE = ('all multisets of <=n letters (molecule key x UMI x variant) in delivery order with all tie orders x class '
        '{nla, chic r=0, chic r=2, plain} x umi_hamming_distance {0,1,2} x max_associated_fragments {None,1,2} x pooling {0,1}; '
        'all 2^n input duplicate-flag patterns in the default configuration; second tagging pass on the tagged reads; '
        'non-trivial = word with >=2 fragments of one true molecule plus >=1 fragment of another; '
        'states = (word, configuration) pairs, transitions = fragments pushed')
ASSUMPTIONS = [
    'exactness (partition == classes of identical cell/site/strand/UMI) is demanded for distance 0, no fragment cap, site-exact classes (nla, chic r=0)',
    'soundness for radius>0 / distance>0 is connectivity of the site graph (edges <= radius) and of the UMI graph (edges <= distance)',
    'for the plain Fragment class only cell, strand and UMI linkage are judged (it has no cut site)',
    'an N in a UMI is an uncalled base and is not counted as a mismatch when distance > 0; with distance 0 UMIs must be identical strings',
    'overflow fragments (beyond max_associated_fragments) are emitted as their own molecules, as the iterator documents',
]

SITE = 5040    # chosen so that the R2 ends of the reverse-strand copies (4999 / 5004) straddle a round coordinate
# key -> (cell, site offset, reverse)
KEYS = {'K0': (1, 0, False), 'K1': (1, 0, True), 'K2': (2, 0, False), 'K3': (1, 1, False), 'K4': (1, 3000, False)}
# letter = (key, umi, variant)
LETTERS = [
    ('K0', 'AAA', 'base'), ('K0', 'AAC', 'base'), ('K0', 'ACC', 'base'), ('K0', 'NAA', 'base'),
    ('K0', 'AAA', 'r2shift'), ('K0', 'AAA', 'clip'), ('K0', 'AAA', 'error'), ('K0', 'AAC', 'r2shift'),
    ('K1', 'AAA', 'base'), ('K1', 'AAC', 'base'), ('K1', 'AAA', 'clip'), ('K1', 'AAA', 'r2shift'),
    ('K2', 'AAA', 'base'), ('K2', 'AAC', 'base'),
    ('K3', 'AAA', 'base'), ('K3', 'AAC', 'base'),
    ('K4', 'AAA', 'base'),
]
CLASSES = ['nla', 'chic0', 'chic2', 'plain']


def bounds(tier):
    return {'max_fragments': 3 if tier == 'quick' else 4, 'letters': LETTERS, 'classes': CLASSES, 'umi_hamming_distance': [0, 1, 2],
            'max_associated_fragments': [None, 1, 2], 'pooling': [0, 1],
            'configs_for_longest_words': 'full product' if tier == 'quick' else 'configurations within distance 1 of (d=1, cap None, pooling 1) for n=4'}


def make(li, i, cls, dupflag=False):
    key, umi, variant = LETTERS[li]
    cell, off, rev = KEYS[key]
    length = 40
    kw = {}
    if variant == 'r2shift':
        kw['r2_end_shift'] = 5
    if cls in ('nla', 'plain'):
        if variant == 'clip':
            kw['clip'] = 3
        if variant == 'error':
            kw['error'] = True
        return nla_reads(f'f{i}', 'chr1', SITE + off, length, cell, umi, reverse=rev, duplicate_flag=dupflag, **kw)
    if variant == 'clip':
        kw['clip'] = 3
    return chic_reads(f'f{i}', 'chr1', SITE + off, length, cell, umi, reverse=rev, duplicate_flag=dupflag, **kw)


_DELIV = {}


def deliv(li):
    if li not in _DELIV:
        _DELIV[li] = delivery_coordinate(make(li, 0, 'nla'))
    return _DELIV[li]


def orders(multiset):
    groups = {}
    for li in multiset:
        groups.setdefault(deliv(li), []).append(li)
    per = [sorted(set(itertools.permutations(groups[k]))) for k in sorted(groups)]
    for combo in itertools.product(*per):
        yield tuple(x for g in combo for x in g)


def classes_of(cls):
    from singlecellmultiomics.molecule import NlaIIIMolecule, CHICMolecule, Molecule
    from singlecellmultiomics.fragment import NlaIIIFragment, CHICFragment, Fragment
    if cls == 'nla':
        return NlaIIIMolecule, NlaIIIFragment, {}
    if cls == 'chic0':
        return CHICMolecule, CHICFragment, {'assignment_radius': 0}
    if cls == 'chic2':
        return CHICMolecule, CHICFragment, {'assignment_radius': 2}
    return Molecule, Fragment, {'assignment_radius': 0}


def hamming(a, b):
    # an N is an uncalled base: it is not counted as a mismatch (lenient reading, the property does not say)
    return sum(x != y and x != 'N' and y != 'N' for x, y in zip(a, b)) + abs(len(a) - len(b))


def connected(items, edge):
    items = list(items)
    if not items:
        return True
    seen = {0}
    stack = [0]
    while stack:
        i = stack.pop()
        for j in range(len(items)):
            if j not in seen and edge(items[i], items[j]):
                seen.add(j)
                stack.append(j)
    return len(seen) == len(items)


def iterate(reads, cls, d, cap, pooling):
    from singlecellmultiomics.molecule import MoleculeIterator
    mc, fc, fargs = classes_of(cls)
    fargs = dict(fargs)
    fargs['umi_hamming_distance'] = d
    margs = {}
    if cap is not None:
        margs['max_associated_fragments'] = cap
    it = MoleculeIterator(reads, molecule_class=mc, fragment_class=fc, check_eject_every=None, pooling_method=pooling,
                          molecule_class_args=margs, fragment_class_args=fargs, perform_qflag=False)
    return list(it)


def snapshot(reads):
    out = {}
    for pair in reads:
        for r in pair:
            if r is None:
                continue
            tags = {k: v for k, v in r.get_tags() if k not in ('mi',)}
            out[(r.query_name, r.is_read2)] = (r.is_duplicate, r.is_qcfail, tuple(sorted((k, repr(v)) for k, v in tags.items())))
    return out


def check_word(word, cls, d, cap, pooling, dup_pattern=0, second_pass=False):
    """returns (violations, info)"""
    n = len(word)
    reads = [make(li, i, cls, dupflag=bool((dup_pattern >> i) & 1)) for i, li in enumerate(word)]
    viol = {}
    pre = f'{cls}'
    try:
        mols = iterate(reads, cls, d, cap, pooling)
    except Exception as ex:
        return [(f'{pre}:iterator:exception:{type(ex).__name__}', repr(ex))], {}
    truth = {}
    for i, li in enumerate(word):
        key, umi, variant = LETTERS[li]
        cell, off, rev = KEYS[key]
        truth[f'f{i}'] = (cell, off, rev, umi)
    part = []
    for m in mols:
        names = sorted({r.query_name for r in m.iter_reads()})
        part.append(names)
    flat = [x for g in part for x in g]
    if sorted(flat) != sorted(truth):
        viol[f'{pre}:fragment-lost-or-emitted-twice'] = {'partition': part}
    radius = {'nla': 0, 'chic0': 0, 'chic2': 2, 'plain': 0}[cls]
    for g in part:
        ts = [truth[x] for x in g]
        if len({t[0] for t in ts}) > 1:
            viol[f'{pre}:molecule-mixes-cells'] = {'group': g}
        if len({t[2] for t in ts}) > 1:
            viol[f'{pre}:molecule-mixes-strands'] = {'group': g}
        if cls != 'plain' and not connected(ts, lambda a, b: abs(a[1] - b[1]) <= radius):
            viol[f'{pre}:molecule-mixes-sites-beyond-radius'] = {'group': g, 'radius': radius}
        if not connected(ts, lambda a, b: hamming(a[3], b[3]) <= d):
            viol[f'{pre}:molecule-links-umis-beyond-distance'] = {'group': g, 'd': d}
    if d == 0 and cap is None and cls in ('nla', 'chic0'):
        want = {}
        for name, t in truth.items():
            want.setdefault(t, []).append(name)
        want_part = sorted(sorted(v) for v in want.values())
        if sorted(part) != want_part:
            merged = any(len({truth[x] for x in g}) > 1 for g in part)
            viol[f'{pre}:d0:' + ('distinct-molecules-merged' if merged else 'one-molecule-split')] = {
                'got': sorted(part), 'want': want_part}
    if d == 0 and cap is not None and cls in ('nla', 'chic0'):
        # documented behaviour of the cap: a molecule takes at most `cap` fragments, every further fragment of that
        # molecule is emitted as its own (overflow) molecule - and fragments of OTHER molecules are not affected
        want = {}
        order = []
        for i in range(n):
            t = truth[f'f{i}']
            if t not in want:
                want[t] = []
                order.append(t)
            want[t].append(f'f{i}')
        want_part = []
        for t in order:
            names = want[t]
            want_part.append(sorted(names[:cap]))
            for x in names[cap:]:
                want_part.append([x])
        if sorted(part) != sorted(want_part):
            viol[f'{pre}:d0:capped:partition-differs-from-first-cap-fragments-plus-singletons'] = {
                'got': sorted(part), 'want': sorted(want_part), 'cap': cap}
    # completeness for PCR/sequencing errors in the UMI: fragments of one (cell, site, strand) whose UMIs are ALL pairwise
    # within the allowed distance (no N involved) form one molecule, whatever representative the greedy assignment uses
    if cap is None and cls in ('nla', 'chic0') and d > 0:
        bykey = {}
        for name, t in truth.items():
            bykey.setdefault(t[:3], []).append(name)
        where = {x: gi for gi, g in enumerate(part) for x in g}
        for key, names in bykey.items():
            umis = [truth[x][3] for x in names]
            if any('N' in u for u in umis):
                continue
            if all(hamming(a, b) <= d for a in umis for b in umis) and len({where.get(x) for x in names}) > 1:
                viol[f'{pre}:fragments-with-all-umis-within-distance-split'] = {'names': names, 'umis': umis, 'd': d, 'partition': part}
    if cls == 'plain' and cap is None and d == 0:
        # (distance 0 only: with a distance > 0 first-match assignment can put a copy into the molecule of a neighbouring UMI)
        # plain fragments have no cut site; copies of one molecule that share their R1 anchor exactly (same key and UMI,
        # unclipped: variants base / other R2 end / sequencing error) match through that coordinate whatever else the
        # molecule already holds, so they can never be split
        where = {x: gi for gi, g in enumerate(part) for x in g}
        anchors = {}
        for i, li in enumerate(word):
            key, umi, variant = LETTERS[li]
            if variant in ('base', 'r2shift', 'error'):
                anchors.setdefault((key, umi), []).append(f'f{i}')
        clipped_keys = {LETTERS[li][0] for li in word if LETTERS[li][2] == 'clip'}
        for k, names in anchors.items():
            if k[0] in clipped_keys:
                continue      # a clipped copy matches through the OTHER coordinate; first-match assignment may then split (by design)
            if len({where.get(x) for x in names}) > 1:
                viol[f'{pre}:copies-sharing-their-anchor-coordinate-split'] = {'key': k, 'names': names, 'partition': part}
    # ---- tags and flags
    try:
        for m in mols:
            m.write_tags()
    except Exception as ex:
        viol[f'{pre}:write_tags:exception:{type(ex).__name__}'] = repr(ex)
        return [(s, x) for s, x in viol.items()], {}
    inflag = 'flagged-input' if dup_pattern else 'clean-input'
    for m in mols:
        frs = list(m)
        nd = 0
        ranks = []
        for f in frs:
            rs = [r for r in f if r is not None]
            dups = {r.is_duplicate for r in rs}
            if len(dups) > 1:
                viol[f'{pre}:mates-disagree-on-duplicate-flag'] = {}
            if not any(dups):
                nd += 1
            ranks.append(rs[0].get_tag('RC') if rs[0].has_tag('RC') else None)
            af = rs[0].get_tag('af') if rs[0].has_tag('af') else None
            tf = rs[0].get_tag('TF') if rs[0].has_tag('TF') else None
            if af != len(frs):
                viol[f'{pre}:af-differs-from-molecule-size'] = {'af': af, 'n': len(frs)}
            if tf is None or tf < len(frs) or (cap is None and tf != len(frs)):
                viol[f'{pre}:TF-inconsistent-with-molecule-size'] = {'TF': tf, 'n': len(frs), 'cap': cap}
            elif cap is not None and d == 0 and cls in ('nla', 'chic0'):
                # total fragments of a capped molecule = fragments it holds + fragments it refused = size of the true class;
                # an overflow singleton counts only itself
                names_m = sorted({r.query_name for r in m.iter_reads()})
                true_n = sum(1 for x in truth if truth[x] == truth[names_m[0]])
                first_of_class = min(int(x[1:]) for x in truth if truth[x] == truth[names_m[0]])
                is_main = any(int(x[1:]) == first_of_class for x in names_m)
                want_tf = true_n if is_main else len(frs)
                if tf != want_tf:
                    viol[f'{pre}:d0:capped:TF-differs-from-true-fragment-count'] = {'TF': tf, 'want': want_tf, 'molecule': names_m, 'cap': cap}
        if nd != 1:
            viol[f'{pre}:{inflag}:molecule-with-{"no" if nd == 0 else "several"}-non-duplicate-fragments'] = {
                'fragments': len(frs), 'non_duplicate': nd, 'dup_pattern': dup_pattern}
        if sorted(x for x in ranks if x is not None) != list(range(len(frs))) or None in ranks:
            viol[f'{pre}:RC-not-a-ranking-of-the-fragments'] = {'ranks': ranks}
    info = {'molecules': len(mols)}
    if second_pass and not viol:
        snap1 = snapshot(reads)
        try:
            mols2 = iterate(reads, cls, d, cap, pooling)
            for m in mols2:
                m.write_tags()
        except Exception as ex:
            viol[f'{pre}:second-pass:exception:{type(ex).__name__}'] = repr(ex)
            return [(s, x) for s, x in viol.items()], info
        snap2 = snapshot(reads)
        if snap1 != snap2:
            diff = [(k, snap1[k], snap2[k]) for k in snap1 if snap1[k] != snap2.get(k)][:2]
            what = 'flags' if any(a[:2] != b[:2] for _, a, b in diff) else 'tags'
            viol[f'{pre}:retagging-changes-{what}'] = {'diff': diff}
    return [(s, x) for s, x in viol.items()], info


def configs(tier, n):
    full = list(itertools.product(CLASSES, (0, 1, 2), (None, 1, 2), (0, 1)))
    if tier == 'quick' or n <= 3:
        return full
    base = (1, None, 1)
    out = []
    for cls, d, cap, p in full:
        dist = (d != base[0]) + (cap != base[1]) + (p != base[2])
        if dist <= 1:
            out.append((cls, d, cap, p))
    return out


def shards(tier):
    n = bounds(tier)['max_fragments']
    ms = []
    for k in range(1, n + 1):
        ms.extend(itertools.combinations_with_replacement(range(len(LETTERS)), k))
    G = 8
    return [ms[i:i + G] for i in range(0, len(ms), G)]


def true_structure(word):
    t = {}
    for li in word:
        key, umi, variant = LETTERS[li]
        t[(key, umi)] = t.get((key, umi), 0) + 1
    return t


def run_shard(shard, tier, acc):
    for ms in shard:
        for word in orders(ms):
            n = len(word)
            ts = true_structure(word)
            nontrivial = max(ts.values()) >= 2 and len(ts) >= 2
            for cls, d, cap, pooling in configs(tier, n):
                case = {'word': list(word), 'cls': cls, 'd': d, 'cap': cap, 'pooling': pooling, 'dup_pattern': 0, 'second_pass': True}
                viols, info = check_word(word, cls, d, cap, pooling, 0, second_pass=True)
                acc.case(case, transitions=2 * n, nontrivial=nontrivial,
                         outcome=f"{cls}:d{d}:cap{cap}:mols={info.get('molecules')}/{n}")
                for sig, det in viols:
                    acc.violation(sig, case, det)
            # every input duplicate-flag pattern in the default configuration of each class
            for cls in CLASSES:
                for pat in range(1, 1 << n):
                    case = {'word': list(word), 'cls': cls, 'd': 1, 'cap': None, 'pooling': 1, 'dup_pattern': pat, 'second_pass': True}
                    viols, info = check_word(word, cls, 1, None, 1, pat, second_pass=True)
                    acc.case(case, transitions=2 * n, nontrivial=nontrivial, outcome=f'{cls}:flagpattern:mols={info.get("molecules")}/{n}')
                    for sig, det in viols:
                        acc.violation(sig, case, det)


def replay(case):
    return check_word(tuple(case['word']), case['cls'], case['d'], case['cap'], case['pooling'], case['dup_pattern'],
                      case['second_pass'])[0]
