"""C07 - the molecule partition is independent of the buffer-ejection schedule.

Schedules x inputs: for every coordinate-sorted multiset-word of fragment letters (sites placed around
the half-cache margin, short and long fragments, duplicates, two cells, two UMIs, both strands, a second
contig) the real MoleculeIterator is run for EVERY check_eject_every in {None,0..n}, both pooling
methods, two cache sizes, NlaIII and CHIC classes.  Oracle: partition == partition of the never-eject run,
every fragment emitted exactly once, pooling methods agree for exact UMIs.
"""
import itertools

from gen.frags import nla_reads, chic_reads, delivery_coordinate, partition_of

ID = 'C07'
RULE = ('all multisets of <=n fragment letters, delivered in coordinate order (all orders among equal coordinates), x '
        'check_eject_every in {None,0..n} x pooling {0,1} x cache size {100,1000} x class {NlaIII, CHIC r=0, CHIC r=15}; the same for the plain Fragment/Molecule '
        'classes over single-end reads that share starts or ends (a molecule can grow at its end); '
        'non-trivial = a run in which a molecule was ejected mid-stream while an older molecule stayed in the buffer '
        '(non-prefix pop); states = distinct (word, configuration) pairs, transitions = fragments pushed')
ASSUMPTIONS = [
    'input is sorted by the coordinate at which a sorted BAM reader has seen all mates of a fragment',
    'every fragment spans less than half the cache size (48 < 50)',
    'UMIs are compared exactly (umi_hamming_distance=0)',
    'pooling methods are only compared with each other for site-exact classes (NlaIII, CHIC radius 0)',
    'plain-class input is sorted by fragment start; a re-used iterator object must behave like a fresh one after an abandoned iteration',
]

CACHE = 100
S = {0: ('chr1', 1000), 1: ('chr1', 1010), 2: ('chr1', 1060), 3: ('chr1', 1200), 4: ('chr2', 500)}
SHORT, LONG = 20, 48
# letter = (site, length, cell, umi, reverse)
LETTERS = [
    (0, SHORT, 1, 'AAA', False), (0, LONG, 1, 'AAA', False), (0, SHORT, 1, 'CCC', False), (0, SHORT, 2, 'AAA', False),
    (1, SHORT, 1, 'AAA', False), (1, LONG, 1, 'AAA', False), (1, LONG, 1, 'AAA', True),
    (2, SHORT, 1, 'AAA', False), (2, LONG, 1, 'AAA', False),
    (3, SHORT, 1, 'AAA', False), (3, LONG, 1, 'AAA', False),
    (4, SHORT, 1, 'AAA', False),
]


# plain Fragment/Molecule (the iterator's default classes): single-end reads matched by equal start OR equal end,
# so a molecule can grow at its end and a later-starting fragment can still join it through its end coordinate
PLAIN_LETTERS = [
    ('chr1', 0, 10, 1), ('chr1', 0, 41, 1), ('chr1', 0, 49, 1), ('chr1', 10, 49, 1), ('chr1', 41, 49, 1), ('chr1', 45, 49, 1),
    ('chr1', 62, 100, 1), ('chr1', 5, 10, 1), ('chr1', 5, 15, 2), ('chr1', 41, 62, 2), ('chr1', 41, 80, 2),
    # a fragment ((5,10)) can fit two molecules of the same cell that share no coordinate ((0,10) by its end, (5,15) by its
    # start): which one it joins depends on the ORDER of the buffer, which ejecting an older, far-away molecule must not change
    ('chr1', 5, 15, 1), ('chr1', -70, -60, 2),
    ('chr2', 0, 10, 1), ('chr2', 10, 49, 1),      # same coordinates as chr1 letters, on another contig
    # a read pair whose mates map to the SAME strand (forward/forward): its span ends at the start of the right mate
    # (45), its last aligned base lies 20 further (65)
    ('chr1', 1, 11, 2, 45, 65),
]
PLAIN_BASE = 1000


def bounds(tier):
    return {'max_fragments': 5 if tier == 'quick' else 6, 'letters': LETTERS, 'sites': S, 'cache_sizes': [100, 1000],
            'classes': ['nla', 'chic0', 'chic15'] if tier == 'thorough' else ['nla', 'chic15'],
            'eject_every': 'None,0..n', 'pooling': [0, 1], 'plain_letters(contig,start,end,cell)': PLAIN_LETTERS,
            'plain_max_fragments': 4 if tier == 'quick' else 5}


def build_plain(word):
    from gen.frags import HDR
    from gen.reads import make_read
    out = []
    for i, li in enumerate(word):
        letter = PLAIN_LETTERS[li]
        contig, s, e, cell = letter[:4]
        n = e - s
        tags = {'SM': f'LIB_{cell}', 'RX': 'AAA', 'BC': 'ACGTACGT', 'bi': cell}
        if len(letter) == 4:
            r = make_read(HDR, f'f{i}', 'A' * n, contig, PLAIN_BASE + s, f'{n}M', paired=False, tags=tags)
            out.append([r, None])
        else:
            s2, e2 = letter[4:]
            n2 = e2 - s2
            r1 = make_read(HDR, f'f{i}', 'A' * n, contig, PLAIN_BASE + s, f'{n}M', reverse=False, read1=True, paired=True,
                           mate=(contig, PLAIN_BASE + s2, False, False), tags=tags, proper=False)
            r2 = make_read(HDR, f'f{i}', 'C' * n2, contig, PLAIN_BASE + s2, f'{n2}M', reverse=False, read1=False, paired=True,
                           mate=(contig, PLAIN_BASE + s, False, False), tags=tags, proper=False)
            out.append([r1, r2])
    return out


def build(word, cls):
    """word: tuple of letter indices in delivery order -> list of [R1,R2] (fresh reads)"""
    if cls == 'plain':
        return build_plain(word)
    out = []
    for i, li in enumerate(word):
        site, length, cell, umi, rev = LETTERS[li]
        contig, pos = S[site]
        fn = nla_reads if cls == 'nla' else chic_reads
        out.append(fn(f'f{i}', contig, pos, length, cell, umi, reverse=rev))
    return out


_DELIV = {}


def deliv(li):
    if li not in _DELIV:
        site, length, cell, umi, rev = LETTERS[li]
        contig, pos = S[site]
        r = nla_reads('x', contig, pos, length, cell, umi, reverse=rev)
        _DELIV[li] = (contig, delivery_coordinate(r))
    return _DELIV[li]


def orders(multiset, kind='site'):
    """all delivery orders of the multiset: sorted by (contig, delivery coordinate); every order among ties"""
    groups = {}
    for li in multiset:
        key = deliv(li) if kind == 'site' else (PLAIN_LETTERS[li][0], PLAIN_LETTERS[li][1])
        groups.setdefault(key, []).append(li)
    keys = sorted(groups)
    per = [sorted(set(itertools.permutations(groups[k]))) for k in keys]
    for combo in itertools.product(*per):
        yield tuple(x for g in combo for x in g)


def run_iter(word, cls, e, pooling, cache, abandon_first=False):
    from singlecellmultiomics.molecule import MoleculeIterator, NlaIIIMolecule, CHICMolecule
    from singlecellmultiomics.fragment import NlaIIIFragment, CHICFragment
    reads = build(word, cls)
    if cls == 'plain':
        from singlecellmultiomics.molecule import Molecule
        from singlecellmultiomics.fragment import Fragment
        mc, fc, fargs = Molecule, Fragment, {'umi_hamming_distance': 0}
    elif cls == 'nla':
        mc, fc, fargs = NlaIIIMolecule, NlaIIIFragment, {'umi_hamming_distance': 0}
    else:
        mc, fc = CHICMolecule, CHICFragment
        fargs = {'umi_hamming_distance': 0, 'assignment_radius': 0 if cls == 'chic0' else 15}
    it = MoleculeIterator(reads, molecule_class=mc, fragment_class=fc, check_eject_every=e, pooling_method=pooling,
                          molecule_class_args={'cache_size': cache}, fragment_class_args=fargs, perform_qflag=False)
    mols = []
    consumed_at_yield = []
    # feed through a counting generator so that we know how much input was consumed at each yield
    counter = {'n': 0}

    def feed():
        for r in reads:
            counter['n'] += 1
            yield r
    it.alignments = feed()
    if abandon_first:
        # history: an iteration of the SAME iterator object that is abandoned after its first molecule, then a complete one
        g = iter(it)
        try:
            next(g)
        except StopIteration:
            pass
        del g
        reads2 = build(word, cls)
        counter['n'] = 0

        def feed2():
            for r in reads2:
                counter['n'] += 1
                yield r
        it.alignments = feed2()
    for m in it:
        mols.append(m)
        consumed_at_yield.append(counter['n'])
    return mols, consumed_at_yield


def check_word(word, tier, kind='site'):
    viol = {}
    n = len(word)
    nruns = 0
    nonprefix = False
    ejected = False
    ref_parts = {}
    for cls in (bounds(tier)['classes'] if kind == 'site' else ['plain']):
        for pooling in (0, 1):
            base = None
            for cache in (100, 1000):
                for e in [None] + list(range(0, n + 1)):
                    try:
                        mols, consumed = run_iter(word, cls, e, pooling, cache)
                    except Exception as ex:
                        viol.setdefault(f'{cls}:pooling{pooling}:exception:{type(ex).__name__}', {'e': e, 'cache': cache, 'ex': repr(ex)})
                        continue
                    nruns += 1
                    part = partition_of(mols)
                    names = [x for g in part for x in g]
                    if sorted(names) != sorted(f'f{i}' for i in range(n)):
                        dup = len(names) != len(set(names))
                        viol.setdefault(f'{cls}:pooling{pooling}:fragment-' + ('emitted-twice' if dup else 'lost'),
                                        {'e': e, 'cache': cache, 'partition': part})
                    if base is None:
                        base = part        # e=None, cache=100: the never-eject reference
                        ref_parts[(cls, pooling)] = part
                    elif part != base:
                        viol.setdefault(f'{cls}:pooling{pooling}:partition-depends-on-ejection-schedule',
                                        {'e': e, 'cache': cache, 'got': part, 'never_eject': base})
                    if cache == 100 and e in (None, 0) and base is not None:
                        try:
                            mols2, _ = run_iter(word, cls, e, pooling, cache, abandon_first=True)
                            nruns += 1
                            part2 = partition_of(mols2)
                            if part2 != base:
                                names2 = [x for g in part2 for x in g]
                                what = ('fragment-emitted-twice' if len(names2) != len(set(names2)) else 'partition-differs')
                                viol.setdefault(f'{cls}:pooling{pooling}:re-iteration-after-abandoned-iteration:{what}',
                                                {'e': e, 'got': part2, 'fresh': base})
                        except Exception as ex:
                            viol.setdefault(f'{cls}:pooling{pooling}:re-iteration:exception:{type(ex).__name__}', {'e': e, 'ex': repr(ex)})
                    # non-trivial: mid-stream ejection of a molecule while an older molecule is emitted later
                    first = [min(int(r.query_name[1:]) for r in m.iter_reads()) for m in mols]
                    for i, c in enumerate(consumed):
                        if c < n:
                            ejected = True
                            if any(first[j] < first[i] for j in range(i + 1, len(mols))):
                                nonprefix = True
        if cls in ('nla', 'chic0') and (cls, 0) in ref_parts and (cls, 1) in ref_parts and ref_parts[(cls, 0)] != ref_parts[(cls, 1)]:
            viol.setdefault(f'{cls}:pooling-methods-disagree-with-exact-umis', {'p0': ref_parts[(cls, 0)], 'p1': ref_parts[(cls, 1)]})
    return [(s, d) for s, d in viol.items()], nruns, nonprefix, ejected


def shards(tier):
    n = bounds(tier)['max_fragments']
    ms = []
    for k in range(1, n + 1):
        ms.extend(itertools.combinations_with_replacement(range(len(LETTERS)), k))
    G = 16 if tier == 'quick' else 24
    out = [('site', ms[i:i + G]) for i in range(0, len(ms), G)]
    pm = []
    for k in range(1, bounds(tier)['plain_max_fragments'] + 1):
        pm.extend(itertools.combinations_with_replacement(range(len(PLAIN_LETTERS)), k))
    out += [('plain', pm[i:i + 3 * G]) for i in range(0, len(pm), 3 * G)]
    return out


def run_shard(shard, tier, acc):
    kind, mss = shard
    for ms in mss:
        for word in orders(ms, kind):
            viols, nruns, nonprefix, ejected = check_word(word, tier, kind)
            case = {'word': list(word), 'kind': kind}
            acc.case(case, transitions=nruns * len(word), execs=nruns, nontrivial=nonprefix, states=nruns,
                     outcome=f'n={len(word)},ejected={ejected},nonprefix={nonprefix}')
            for sig, d in viols:
                acc.violation(sig, case, d)


def replay(case):
    # the tier only selects the classes; replay with the widest set
    return check_word(tuple(case['word']), 'thorough', case.get('kind', 'site'))[0]
