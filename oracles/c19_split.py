"""C19, BAM splitter part: what the property demands of a "one file per cell" split of a BAM, independent of the splitter.

Policy free: which cells a pass serves is left to the splitter (any choice within the limit is fine); demanded is only
what the property states - a file holds records of its own cell only, in input order, none twice, none missing once the
splitter says the cell is done, as valid (BGZF = multi-member gzip, terminated) BAM, never more files open at once than the limit.
"""
import gzip
import os

# the 28 byte empty BGZF block every complete BAM ends with (SAM/BAM specification, section 4.1.2)
BGZF_EOF = bytes.fromhex('1f8b08040000000000ff0600424302001b0003000000000000000000')


def clean_name(value):
    """The documented file name cleaning (get_valid_filename docstring): surrounding blanks removed, other spaces become
    underscores, then only alphanumerics, dash, underscore and dot remain."""
    s = str(value).strip().replace(' ', '_')
    return ''.join(ch for ch in s if ch.isalnum() or ch in '-_.')


def cells(stream):
    """stream: [(tag value or None, record text)] in input order -> {file stem: [record text, ...]} (insertion ordered).
    Reads without the tag belong to no cell."""
    out = {}
    for value, rec in stream:
        if value is None:
            continue
        out.setdefault(clean_name(value), []).append(rec)
    return out


def container_problem(path):
    """None if the file is a complete gzip/BGZF stream, else a short description"""
    with open(path, 'rb') as f:
        data = f.read()
    if not data:
        return 'empty file'
    try:
        gzip.decompress(data)
    except Exception as ex:
        return f'not valid gzip: {ex!r}'
    if not data.endswith(BGZF_EOF):
        return 'BGZF end-of-file block missing (truncated)'
    return None


def judge_records(got, want):
    """got: records found in the file of a cell; want: all records of that cell in input order.
    Returns (clause or None, complete?) - clause names what is wrong with `got` as a PREFIX-in-progress of want."""
    if got == want:
        return None, True
    if len(got) < len(want) and want[:len(got)] == got:
        return None, False                      # a proper prefix: fine for a pass which stopped early, incomplete otherwise
    wantset = set(want)
    if any(r not in wantset for r in got):
        return 'records-of-another-cell-or-altered', False
    if len(set(got)) < len(got):
        return 'records-duplicated', False
    pos = [want.index(r) for r in got]
    if pos != sorted(pos):
        return 'records-out-of-input-order', False
    return 'records-lost', False                 # a sub-sequence with a hole


def list_bams(folder, prefix_len=0):
    """{file stem: path} of the *.bam files of the output folder"""
    out = {}
    for name in sorted(os.listdir(folder)):
        if name.endswith('.bam'):
            out[name[:-4]] = os.path.join(folder, name)
    return out
