"""C04 input side: the registered strategy objects per loader configuration and accepted (planted) read pairs.

Own copy of the few generator helpers C04 used to borrow from props/c02.py (which is developed independently);
the protocol layout table itself stays in oracles/c02_layout.py.
"""
import os

from mc import bind
from oracles import c02_layout as L

ST = {}         # configuration -> {shortName: strategy}
PARSERS = {}
_WL = {}

# configuration -> (index alias, barcode Hamming expansion)
CONFIGS = {
    'A': ('illumina_merged_ThruPlex48S_RP', 0),
    'B': (None, 0),
    'C': ('illumina_i7_indices', 0),
    'D': ('illumina_ThruPlex48S_indices', 0),
    'H': ('illumina_merged_ThruPlex48S_RP', 1),
}


def wl(alias):
    if alias not in _WL:
        _WL[alias] = L.read_whitelist(bind.REPO, alias)
    return _WL[alias]


def setup():
    if ST:
        return
    bad = L.table_selfcheck()
    if bad:
        raise bind.HarnessError(f'layout table inconsistent: {bad}')
    import singlecellmultiomics
    from singlecellmultiomics.barcodeFileParser.barcodeFileParser import BarcodeParser
    from singlecellmultiomics.modularDemultiplexer.demultiplexingStrategyLoader import DemultiplexingStrategyLoader
    root = os.path.dirname(os.path.realpath(singlecellmultiomics.__file__))
    ip = BarcodeParser(barcodeDirectory=os.path.join(root, 'modularDemultiplexer/indices/'), hammingDistanceExpansion=1)
    bps = {}
    for hd in (0, 1):
        bps[hd] = BarcodeParser(barcodeDirectory=os.path.join(root, 'modularDemultiplexer/barcodes/'),
                                hammingDistanceExpansion=hd, lazyLoad=("10x_3M-february-2018",))
    PARSERS['index'] = ip
    for cfg, (alias, hd) in CONFIGS.items():
        dmx = DemultiplexingStrategyLoader(barcodeParser=bps[hd], indexParser=ip, indexFileAlias=alias)
        d = {}
        for s in dmx.demultiplexingStrategies:
            if s.shortName in d:
                raise bind.HarnessError(f'two registered strategies share shortName {s.shortName}')
            d[s.shortName] = s
        ST[cfg] = d
    missing = sorted(set(ST['A']) - set(L.ALL_SHORT))
    if missing:
        raise bind.HarnessError(f'registered strategies without a layout row: {missing}')
    gone = sorted(set(L.ALL_SHORT) - set(ST['A']))
    if gone:
        raise bind.HarnessError(f'layout rows without a registered strategy: {gone}')
    for a in {r['alias'] for r in L.ROWS.values()} | {'celseq2', 'maya_384NLA'}:
        wl(a)


def sources(short):
    """[(label, alias, barcode segments)] : where a whitelisted barcode makes the strategy accept"""
    R = L.ROWS
    if short in R:
        return [('wl', R[short]['alias'], R[short]['bc'])]
    if short in ('TCHIC', 'CHICTV'):
        return [('wl', 'maya_384NLA', R['scCHIC384C8U3l']['bc'])]
    if short == 'DamAndT':
        return [('dam', 'DamID2', R['DamID2']['bc']), ('tx', 'celseq2', R['CS2C8U6']['bc'])]
    if short == 'DamID2andT_3u4b3u4b':
        return [('dam', 'DamID2_scattered_8bp', R['DamID2_3u4b3u6b']['bc']), ('tx', 'CS2_scattered_8bp', R['_SCA_TX']['bc'])]
    if short == 'DamID2andT_3u4b3u6b':
        return [('dam', 'DamID2_scattered_10bp', R['_SCA_DAM10']['bc']), ('tx', 'CS2_scattered_8bp', R['_SCA_TX']['bc'])]
    return []   # ILLU


def plant_bc(barcode, segments):
    """write the barcode over its segments"""
    out, i = [], 0
    for m, s, e in segments:
        out.append([m, s, barcode[i:i + (e - s)]])
        i += e - s
    return out


def pick3(alias):
    w = wl(alias)
    if not w:
        return []
    keys = list(w)
    idx = sorted({0, len(keys) // 2, len(keys) - 1})
    return [keys[i] for i in idx]


def sub1(alias, bc):
    """the barcode with ONE substitution such that the whitelist member at distance <= 1 is still unique
    (simplest first: earliest position, bases in the order A C G T N); None when no such word exists"""
    w = wl(alias) or {}
    for pos in range(len(bc)):
        for base in 'ACGTN':
            if base == bc[pos]:
                continue
            cand = bc[:pos] + base + bc[pos + 1:]
            if cand in w:
                continue
            near = [x for x in w if len(x) == len(cand) and sum(a != b for a, b in zip(x, cand)) <= 1]
            if near == [bc]:
                return cand
    return None


def base_plant(short):
    if short == 'CHICTV':
        return [[0, 14, L.TSO]]
    return []


def se_mode(short):
    return L.ROWS[short]['single'] if short in L.ROWS else 'no'
