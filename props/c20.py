"""C20 - the status marker reports success only for a complete, sorted, indexed output.

Crash-point / fault enumeration on the real tagging pipeline (single process and --multiprocess, nla and chic),
each execution in a forked child so that a kill is real (os._exit at the injection point) and an exception is an
injected RuntimeError.  Injection points are discovered by an instrumented fault-free run, on two levels:

* site level: before/after EVERY molecule write, before/after the read-group header rewrite, before/inside/after
  sort, before/inside/after index, every pool job, before/inside/after merge, temp-folder cleanup, input
  verification, every file-system call the pipeline modules make (remove / rename / move / makedirs), every write of
  the status file (cannot be opened / partially written / after);
* line level: before EVERY executed source line of the three pipeline modules (bamtagmultiome.py, bamFunctions.py,
  tagging.py) - all Python-level step boundaries, not a chosen subset (sys.settrace in the child; the fault is raised
  from the trace function and so surfaces at that line).

Configurations: option letters (-head, --no_rejects, -contig, -skip_contig, --consensus with a reference), output
path letters (relative path, '.bam' inside the name, not-yet-existing directory, .cram), samtools present (modelled
`which` + `os.system`: header rewrite and merge through the external tool, working or failing), re-run over the
finished output of an earlier run on ANOTHER input.
Oracle: status never says success unless the run returned normally; whenever it says success the output BAM
exists, reads to EOF, is coordinate sorted, has a usable index and holds every input record.
"""
import errno
import gzip
import json
import os
import re
import select
import shutil
import signal
import struct
import sys
import tempfile
import time
import zlib

import pysam

from gen.bam import Builder, records, is_coordinate_sorted
from mc import tagger
from mc.bind import HarnessError, seam

ID = 'C20'
RULE = ('every injection point discovered by an instrumented fault-free run (molecule write k of n, header rewrite, sort, index, '
        'pool job j, merge, temp-folder cleanup, input verification, failing arguments; before/after and, for sort and merge, inside = half-written output) x fault kind '
        '{exception, kill, interrupt} x {single, --multiprocess} x {nla, chic} x {fresh output path, re-run over the finished output of an earlier run}; thorough adds every pair of consecutive points for exceptions; '
        'audit wave: + LINE level = before every executed source line of bamtagmultiome.py / bamFunctions.py / tagging.py (quick: exception at the first and last '
        'occurrence of every line, kill once per distinct on-disk state, interrupt once per distinct (state, call stack); thorough: every occurrence x 3 kinds for nla); '
        '+ sites index-inside (half-written .bai), every remove/rename/move/makedirs of the pipeline modules, every status-file write (open fails / partial text / after), '
        'fault kind oserror (ENOSPC) at all sites; + configurations {-head, --no_rejects, -contig, -skip_contig, --consensus -ref, relative output path, ".bam" inside the output name, '
        'output in a not-yet-existing directory, .cram output, samtools present (header rewrite and merge via the external tool: works / fails / fails with half an output / '
        'fails leaving a valid BAM without the records), -contig of a contig without reads (merge receives one file and moves it)}; '
        '+ sort / merge dying after a VALID output without the records (inside-subset) and all three sort attempts failing in every variant; '
        '+ a DAMAGED INPUT: one payload byte of BGZF block k flipped, for every block (EOF marker and index intact, reading that block fails); '
        '+ cluster mode with the local scheduler (per-contig jobs and the final merge/index/rm/echo command really run as shell scripts; samtools, rm and the tagger '
        'executable are stand-ins on PATH; failing: merge, index, either rm, either job, a damaged input); '
        '+ a real multiprocessing.Pool whose workers raise or die (parent hangs and is killed after a timeout); '
        'the earlier run of a re-run case used ANOTHER input, so a surviving output is recognisably stale; '
        'non-trivial = fault injected after at least one molecule was written; states = executions in forked children')
ASSUMPTIONS = [
    'kills land at Python-level step boundaries (and one modelled mid-sort / mid-merge / mid-index point), not inside htslib',
    'pool jobs run in-process under the ScheduledPool (a kill inside pool job j models "worker j died and the hung parent was killed afterwards"); '
    'with a real Pool (thorough) dying workers make the parent wait for ever: it is killed after 25 s and the status is judged then',
    'a normally returning run is not required to say success (the property only constrains what success means)',
    'a fault that strikes after this run itself has already written the success status (inside/after the final status write, later clean-up) '
    'is not a failed tagging step: then only the second clause (the output must be complete) is judged',
    'a fault before the run has touched its input or written anything is not a tagging step: not combined with a stale success status',
    'with -head / --no_rejects the set of records to expect is left open by the property: only existence, EOF, order and index are judged; '
    'with -contig / -skip_contig every input record of the selected contigs must be present; with --consensus every input record',
    'samtools is not installed: its presence is modelled (which() finds it; the two command lines the pipeline hands to os.system are executed by a '
    'stand-in built on the bundled pysam, which returns 0, or returns a failure status with nothing / half an output written)',
    'cluster mode: only the local scheduler is reachable offline; samtools (merge, index, view) and rm are stand-ins on PATH built on the bundled pysam; '
    'its final command reports success with the text "All done", which is judged like the success text of the other modes; every per-contig job also '
    'processes the unmapped reads, so the merged output is judged as a superset of the input',
    'a damaged input block is a failure "while reading": the records of that block cannot be in the output, so a success status is a violation',
    'not reachable from the command line, hence not explored: tiling of contigs into bins under --multiprocess (the tagger forces one contig per process), '
    '-blacklist (needs bedtools), consensus in single-process mode (refused)',
    'a read-only output directory cannot be produced by chmod here (the checks run as root): it is represented by the oserror kind at every file-system call '
    'and status write; a status file that cannot even be opened for the first write is not combined with a stale success text (nothing a run could do)',
    'an execution that does not end within 60 s is killed and judged like a killed run (exit label "hung")',
]
SUCCESS = 'Reached end. All ok!'
BGZF_EOF = bytes.fromhex('1f8b08040000000000ff0600424302001b0003000000000000000000')
STALE_MTIME = 1000000000          # the status / output files of an earlier run are stamped with this time
PIPE_FILES = ('universalBamTagger/bamtagmultiome.py', 'bamProcessing/bamFunctions.py', 'universalBamTagger/tagging.py')

# configuration letters: extra arguments, output name relative to the run directory, what the output must hold
#   expect: all | valid (records left open) | superset | ('contig', name) | ('not-contig', name)
CONFIGS = {
    'plain': {'argv': [], 'out': 'out.bam', 'expect': 'all', 'modes': ('single', 'multi')},
    'head': {'argv': ['-head', '2'], 'out': 'out.bam', 'expect': 'valid', 'modes': ('single', 'multi')},
    'no_rejects': {'argv': ['--no_rejects'], 'out': 'out.bam', 'expect': 'valid', 'modes': ('single', 'multi')},
    'contig': {'argv': ['-contig', 'cS'], 'out': 'out.bam', 'expect': ('contig', 'cS'), 'modes': ('single', 'multi')},
    'skip_contig': {'argv': ['-skip_contig', 'cS'], 'out': 'out.bam', 'expect': ('not-contig', 'cS'), 'modes': ('single', 'multi')},
    'consensus': {'argv': ['--consensus', '-ref', '@REF'], 'out': 'out.bam', 'expect': 'superset', 'modes': ('multi',)},
    'relpath': {'argv': [], 'out': 'out.bam', 'relative': True, 'expect': 'all', 'modes': ('single', 'multi')},
    'dotted': {'argv': [], 'out': 'x.bam.d.bam', 'expect': 'all', 'modes': ('single', 'multi')},
    'samtools': {'argv': [], 'out': 'out.bam', 'expect': 'all', 'modes': ('single', 'multi'), 'samtools': True},
    # no job produces a file: merge_bams receives the header BAM alone and moves it (and its index) to the output path
    'onefile': {'argv': ['-contig', 'cE'], 'out': 'out.bam', 'expect': ('contig', 'cE'), 'modes': ('single', 'multi'), 'input': 'empty_contig'},
    # nothing but consensus reads / nothing at all is written (thorough; quick runs them fault-free only)
    'no_source_reads': {'argv': ['--no_source_reads'], 'out': 'out.bam', 'expect': 'valid', 'modes': ('single', 'multi'), 'quick_clean_only': True},
    'consensus_only': {'argv': ['--consensus', '--no_source_reads', '-ref', '@REF'], 'out': 'out.bam', 'expect': 'valid', 'modes': ('multi',),
                       'quick_clean_only': True},
    # these two cannot even start (the fault-free run fails): the status must not say success
    'newdir': {'argv': [], 'out': 'new/sub/out.bam', 'expect': 'all', 'modes': ('single', 'multi'), 'may_fail': True},
    'cram': {'argv': [], 'out': 'out.cram', 'expect': 'all', 'modes': ('single', 'multi'), 'may_fail': True},
}
# the plain run on an input that ends with several blocks of unmapped pairs (damaged-input level only)
CONFIGS['unmapped_tail'] = {'argv': [], 'out': 'out.bam', 'expect': 'all', 'modes': ('single', 'multi'), 'input': 'unmapped_tail'}
OPTION_CONFIGS = [c for c in CONFIGS if c not in ('plain', 'unmapped_tail')]
SAMTOOLS_FAILURES = ('merge-fail', 'merge-fail-half', 'merge-fail-subset', 'rehead-fail', 'rehead-fail-half')


def bounds(tier):
    return {'modes': ['single', 'multi'], 'methods': ['nla', 'chic'],
            'kinds': ['exception', 'kill', 'interrupt (KeyboardInterrupt)', 'oserror (OSError ENOSPC, site level)', 'memoryerror (MemoryError, site level)',
                      'silent (torn intermediate file: the unsorted output of writer k loses its last data block and EOF block before the header rewrite; nothing raised)'],
            'levels': ['site (wrapped operations incl. half-written sort / merge / index output, file-system calls, status writes)',
                       'line (before every executed line of bamtagmultiome.py, bamFunctions.py, tagging.py)'],
            'line_level': ('exception: first+last occurrence of every line; kill: one per distinct on-disk state; interrupt: one per distinct (state, stack); nla'
                           if tier == 'quick' else 'every occurrence of every line x {exception, kill, interrupt} for nla; the quick selection for chic'),
            'configurations': sorted(CONFIGS),
            'configuration_depth': ('site level (first and last molecule write only) x {exception, kill} x nla; re-run history for the path letters, onefile and samtools' if tier == 'quick' else
                                    'site level x {exception, kill, interrupt, oserror} x {nla, chic} + line-level kills per on-disk state'),
            'damaged_input': 'every BGZF block of the input re-written in 300-byte blocks (one flipped payload byte), x {single, multi} x {nla, chic} x {fresh, re-run}; the same on an input ending with four unmapped pairs, plus an impossible record in front of every record of that unmapped tail (valid blocks, the handle survives)',
            'cluster_mode': ('clean, merge fails (nla)' if tier == 'quick' else
                             'clean, merge / index / rm .bam / rm .status.txt fail, job cS / cL fails, damaged input (nla); clean (chic); merge fails and job fails as a re-run'),
            'real_pool': ('clean, every attempt of a worker sort raises' if tier == 'quick' else 'clean; workers raise in sort / after a molecule write; workers die before sort / after a write / after index'),
            'history': ['fresh output path', 're-run over the finished output (status, BAM, index stamped old) of an earlier successful run on another input'],
            'deviation_bound': 1 if tier == 'quick' else 2,
            'fault_sequences': ('all three attempts of a sort failing (before / half output / valid output without records)' if tier == 'quick' else
                                'pairs of consecutive old points; every point x each of the next 6 points (exceptions); every point x the next status write failing or partial; triple sort failures'), 'input': '10 fragments / 8 molecules on a small and a large contig + unmapped pair'}


def build_input(path, method, earlier=False, variant=None):
    """earlier=True: the input of the EARLIER run of a re-run history (one fragment fewer, one moved): its output is
    recognisably not the output of the later run.  variant 'empty_contig': a third contig without reads and no unmapped pair
    (with -contig cE no job produces anything: the merge step receives the header file only)"""
    b = Builder([('cS', 5000), ('cL', 120000)] + ([('cE', 3000)] if variant == 'empty_contig' else []))
    mx = 'scCHIC384C8U3' if method == 'chic' else 'NLAIII384C8U3'
    kw = dict(method=method, mx=mx)
    b.pair('cS', 1000, cell=1, umi='AAA', **kw)
    b.pair('cS', 1000, cell=1, umi='AAA', frag=45, **kw)
    b.pair('cS', 1400, cell=2, umi='ACG', reverse=True, **kw)
    b.pair('cS', 2400 if earlier else 2000, cell=1, umi='CCC', motif='CTTG', **kw)
    b.pair('cL', 50000, cell=1, umi='GGA', **kw)
    b.pair('cL', 50000, cell=2, umi='GGA', **kw)
    b.pair('cL', 50000, cell=2, umi='GGA', frag=44, **kw)
    if not earlier:
        b.pair('cL', 70000, cell=1, umi='TTT', reverse=True, **kw)
    b.pair('cL', 90000, cell=1, umi='TAT', r2_unmapped=True, **kw)
    if variant != 'empty_contig':
        b.unmapped_pair()
    if variant == 'unmapped_tail':
        # several blocks of reads without a coordinate at the end of the file: a read failure inside them is met by the
        # pass over the unmapped reads only (the pass over the last contig ends at the first of them)
        for _ in range(3):
            b.unmapped_pair()
    b.write(path)


def _bgzf_block(data):
    c = zlib.compressobj(6, zlib.DEFLATED, -15)
    comp = c.compress(data) + c.flush()
    return (b'\x1f\x8b\x08\x04\x00\x00\x00\x00\x00\xff\x06\x00BC\x02\x00' + struct.pack('<H', len(comp) + 25) + comp +
            struct.pack('<I', zlib.crc32(data) & 0xffffffff) + struct.pack('<I', len(data)))


DAMAGE_CHUNK = 300


def reblock(path, damage=None):
    """rewrite the BAM as many small BGZF blocks (DAMAGE_CHUNK uncompressed bytes each) + EOF block, index it, and - damage=k -
    flip one payload byte of block k afterwards: EOF marker and index stay intact (the input verification passes), reading block k
    fails.  Returns the number of data blocks."""
    raw = gzip.open(path, 'rb').read()
    blocks = [_bgzf_block(raw[i:i + DAMAGE_CHUNK]) for i in range(0, len(raw), DAMAGE_CHUNK)]
    with open(path, 'wb') as f:
        for b in blocks:
            f.write(b)
        f.write(BGZF_EOF)
    pysam.index(path)
    if damage is not None:
        off = sum(len(b) for b in blocks[:damage]) + 18 + min(5, len(blocks[damage]) - 27)
        with open(path, 'r+b') as f:
            f.seek(off)
            byte = f.read(1)
            f.seek(off)
            f.write(bytes([byte[0] ^ 0xFF]))
        st = os.stat(path)
        os.utime(path + '.bai', (st.st_atime + 5, st.st_mtime + 5))      # the index stays newer than the file
    return len(blocks)


def reblock_tail(path, damage=None):
    """rewrite the BAM so that the mapped part lies in DAMAGE_CHUNK blocks and every record WITHOUT a coordinate (the unmapped
    tail) in a block of its own, index it, and - damage=j - put a block holding an impossible alignment record (record length 8) in
    front of tail record j afterwards.  The BGZF layer, the EOF marker and the index stay intact and the file handle survives the
    error, unlike with a corrupt block: only the pass that reads the unmapped reads meets the failure.  Returns the number of
    tail records."""
    raw = gzip.open(path, 'rb').read()
    if raw[:4] != b'BAM\1':
        raise HarnessError('C20: not a BAM file')
    pos = 8 + struct.unpack('<i', raw[4:8])[0]
    nref = struct.unpack('<i', raw[pos:pos + 4])[0]
    pos += 4
    for _ in range(nref):
        ln = struct.unpack('<i', raw[pos:pos + 4])[0]
        pos += 4 + ln + 4
    tail = []
    first_tail = None
    while pos < len(raw):
        size = struct.unpack('<i', raw[pos:pos + 4])[0]
        refid = struct.unpack('<i', raw[pos + 4:pos + 8])[0]
        if refid == -1:
            if first_tail is None:
                first_tail = pos
            tail.append((pos, pos + 4 + size))
        elif first_tail is not None:
            raise HarnessError('C20: a placed record behind the unmapped tail')
        pos += 4 + size
    if first_tail is None:
        raise HarnessError('C20: the input has no unmapped tail')
    blocks = [_bgzf_block(raw[i:min(i + DAMAGE_CHUNK, first_tail)]) for i in range(0, first_tail, DAMAGE_CHUNK)]
    nmapped_blocks = len(blocks)
    blocks += [_bgzf_block(raw[a:b]) for a, b in tail]
    with open(path, 'wb') as f:
        for b in blocks:
            f.write(b)
        f.write(BGZF_EOF)
    pysam.index(path)
    if damage is not None:
        bad = _bgzf_block(struct.pack('<i', 8) + b'\0' * 8)
        k = nmapped_blocks + damage
        with open(path, 'wb') as f:
            for b in blocks[:k]:
                f.write(b)
            f.write(bad)
            for b in blocks[k:]:
                f.write(b)
            f.write(BGZF_EOF)
        st = os.stat(path)
        os.utime(path + '.bai', (st.st_atime + 5, st.st_mtime + 5))      # the index stays newer than the file
    return len(tail)


def build_reference(path):
    unit = 'ACGTTGCATGCCATGAAGCTTGACCTGA'
    with open(path, 'w') as f:
        for name, n in (('cS', 5000), ('cL', 120000)):
            f.write(f'>{name}\n')
            s = (unit * (n // len(unit) + 1))[:n]
            for i in range(0, n, 60):
                f.write(s[i:i + 60] + '\n')
    pysam.faidx(path)


class _Injected(RuntimeError):
    pass


def _status_paths(out):
    """where a reader may look for the status of `out`: the documented rule (.bam -> .status.txt) read as a suffix rule and as the
    plain textual replacement"""
    cands = []
    if out.endswith('.bam'):
        cands.append(out[:-4] + '.status.txt')
    r = out.replace('.bam', '.status.txt')
    if r != out and r not in cands:
        cands.append(r)
    return cands


def _read_status(out):
    """(text or None, stale?) - text of the first existing candidate that says success, else of the first existing one"""
    found = None
    for p in _status_paths(out):
        try:
            with open(p) as f:
                text = f.read().strip()
            stale = int(os.stat(p).st_mtime) == STALE_MTIME
        except OSError:
            continue
        if SUCCESS in text:
            return text, stale
        if found is None:
            found = (text, stale)
    return found if found is not None else (None, False)


class Injector:
    """Counts the events of each site; fires the planned faults. plan: list of (site, occurrence, when, kind)."""

    def __init__(self, plan, log, out_path=None, fire_path=None):
        self.plan = [tuple(p) for p in plan]
        self.counts = {}
        self.log = log          # list of (site, occurrence) in execution order (instrumented run)
        self.out_path = out_path
        self.fire_path = fire_path
        self.armed = {(s, o, w): kind for (s, o, w, kind) in self.plan}

    def hit(self, site, when, occ, inside_cb=None):
        kind = self.armed.get((site, occ, when))
        if kind is None:
            return
        if when in ('inside', 'inside-subset') and inside_cb is not None:
            try:
                inside_cb()
            except Exception:
                pass
        self.note_fire()
        if kind == 'silent':
            return                        # the damage is done (inside_cb), nobody is told: the run goes on
        if kind == 'kill':
            os._exit(137)
        if kind == 'interrupt':
            raise KeyboardInterrupt()     # what a SIGINT (ctrl-c, scheduler soft kill) does to the process
        if kind == 'oserror':
            raise OSError(errno.ENOSPC, f'injected at {site}#{occ}:{when}')
        if kind == 'memoryerror':
            raise MemoryError(f'injected at {site}#{occ}:{when}')      # what an exhausted molecule buffer / allocator raises
        raise _Injected(f'injected at {site}#{occ}:{when}')

    def note_fire(self):
        """what the status file said at the moment the fault struck (observation for the oracle, written before the fault)"""
        if not self.fire_path or not self.out_path:
            return
        text, stale = _read_status(self.out_path)
        try:
            fd = os.open(self.fire_path, os.O_WRONLY | os.O_CREAT | os.O_APPEND)
            os.write(fd, (json.dumps({'status': text, 'stale': stale}) + '\n').encode())
            os.close(fd)
        except OSError:
            pass

    def wrap(self, site, fn, inside_cb_factory=None, subset_cb_factory=None):
        inj = self

        def wrapper(*a, **k):
            occ = inj.counts.get(site, 0)
            inj.counts[site] = occ + 1
            inj.log.append((site, occ))
            inj.hit(site, 'before', occ)
            if inside_cb_factory is not None:
                inj.hit(site, 'inside', occ, inside_cb_factory(*a, **k))
            if subset_cb_factory is not None and (site, occ, 'inside-subset') in inj.armed:
                inj.hit(site, 'inside-subset', occ, subset_cb_factory(*a, **k))
            r = fn(*a, **k)
            inj.hit(site, 'after', occ)
            return r
        return wrapper


class _Shim:
    def __init__(self, real, **over):
        self.__dict__['_real'] = real
        self.__dict__['_over'] = over

    def __getattr__(self, name):
        if name in self._over:
            return self._over[name]
        return getattr(self._real, name)


def _header_only(src, dst):
    """a VALID BAM at dst that holds none of the records of src (a tool that died after the header, or merged nothing, but closed its
    output properly)"""
    def cb():
        with pysam.AlignmentFile(src, check_sq=False) as i:
            header = i.header.to_dict()
        with pysam.AlignmentFile(dst, 'wb', header=header):
            pass
    return cb


def _drop_tail_blocks(path):
    """the last data block and the EOF block of a BGZF file never reached the disk (a final flush that failed unreported, a full
    disk): the file ends on a block boundary"""
    def cb():
        with open(path, 'rb') as f:
            data = f.read()
        offs, o = [], 0
        while o + 18 <= len(data):
            offs.append(o)
            o += int.from_bytes(data[o + 16:o + 18], 'little') + 1
        if len(offs) >= 3:
            with open(path, 'wb') as f:
                f.write(data[:offs[-2]])
    return cb


def _half_copy(src, dst):
    def cb():
        with open(src, 'rb') as f:
            data = f.read()
        with open(dst, 'wb') as o:
            o.write(data[:max(1, len(data) // 2)])
    return cb


class _StatusFile:
    """file object handed to write_status: the planned fault strikes in the middle of the text"""

    def __init__(self, real, inj, occ):
        self._f, self._inj, self._occ = real, inj, occ

    def write(self, text):
        inj, occ = self._inj, self._occ
        if ('status_write', occ, 'inside') in inj.armed:
            self._f.write(text[:max(1, len(text) // 2)])
            self._f.flush()
            inj.hit('status_write', 'inside', occ)
        if ('status_write', occ, 'inside-all-but-newline') in inj.armed:
            self._f.write(text.rstrip('\n'))
            self._f.flush()
            inj.hit('status_write', 'inside-all-but-newline', occ)
        return self._f.write(text)

    def __enter__(self):
        return self

    def __exit__(self, *a):
        self._f.close()
        if a[0] is None:
            self._inj.hit('status_write', 'after', self._occ)
        return False

    def __getattr__(self, name):
        return getattr(self._f, name)


class LineTracer:
    """sys.settrace hook: every 'line' event of the pipeline modules is an injection point; a planned fault is raised from the trace
    function, i.e. it surfaces in the traced frame at that line (CPython then switches tracing off: one line fault per run)"""

    def __init__(self, inj, root, want_states):
        self.inj = inj
        self.root = root                  # run directory: its file shapes and sizes are the on-disk state
        self.want_states = want_states
        self.states = {}
        self.stacks = {}
        self.meta = []                    # parallel to the 'line@' entries of inj.log: (state id, stack id)
        self.wanted = {s for (s, o, w) in inj.armed if s.startswith('line@')}

    def _state(self, frame):
        items = []
        for base, dirs, files in os.walk(self.root):
            dirs.sort()
            for f in sorted(files):
                if f in ('events.log', 'fire.json') or f.startswith(('in.bam', 'ref.fa')):
                    continue
                p = os.path.join(base, f)
                try:
                    size = os.stat(p).st_size
                except OSError:
                    size = -1
                # names hold uuids: keep the shape (depth, extension chain), not the name
                rel = os.path.relpath(p, self.root)
                items.append(((rel.count(os.sep), f.split('.', 1)[1] if '.' in f else ''), size))
        text, stale = _read_status(self.inj.out_path) if self.inj.out_path else (None, False)
        key = (tuple(sorted(items)), text, stale)
        stack = []
        fr = frame
        while fr is not None:
            if fr.f_code.co_filename.endswith(PIPE_FILES):
                stack.append(fr.f_code.co_name)
            fr = fr.f_back
        skey = (key, tuple(stack))
        return self.states.setdefault(key, len(self.states)), self.stacks.setdefault(skey, len(self.stacks))

    def global_trace(self, frame, event, arg):
        if frame.f_code.co_filename.endswith(PIPE_FILES):
            return self.local_trace
        return None

    def local_trace(self, frame, event, arg):
        if event == 'line':
            code = frame.f_code
            site = f'line@{os.path.basename(code.co_filename)}:{code.co_name}:{frame.f_lineno}'
            inj = self.inj
            occ = inj.counts.get(site, 0)
            inj.counts[site] = occ + 1
            if self.want_states:
                inj.log.append((site, occ))
                self.meta.append(self._state(frame))
            if site in self.wanted:
                inj.hit(site, 'before', occ)
        return self.local_trace


_REHEAD = re.compile(r"cat '([^']+)'; samtools view -@4 '([^']+)'; \} \| samtools view -b -@4> '([^']+)' &&\s*mv '([^']+)' '([^']+)' && rm '([^']+)'")


def _fake_samtools(failing):
    """stand-in for os.system in bamFunctions when samtools is 'installed'.  It executes the two command lines the pipeline
    builds - `samtools merge -o OUT IN.. -@ n -f -p -c` and the header-rewrite pipeline `{ cat H.sam; samtools view ORIGIN; } |
    samtools view -b > TEMP && mv TEMP TARGET && rm H.sam` - with the bundled pysam.  `failing`: subset of SAMTOOLS_FAILURES
    (exit status 256 with nothing, or with half an output, written)."""
    def system(cmd):
        parts = cmd.split()
        if parts[:2] == ['samtools', 'merge']:
            out = parts[parts.index('-o') + 1]
            ins = [p for p in parts[2:] if p.endswith('.bam') and p != out]
            if 'merge-fail' in failing:
                return 256
            if 'merge-fail-half' in failing:
                _half_copy(ins[-1], out)()
                return 256
            if 'merge-fail-subset' in failing:      # a valid BAM without the records, and a failure status
                _header_only(ins[0], out)()
                return 256
            pysam.merge(out, *ins, '-f', '-p', '-c')
            return 0
        m = _REHEAD.search(cmd)
        if m:
            header_sam, origin, temp, temp2, target, rm = m.groups()
            if 'rehead-fail' in failing:
                return 256
            with pysam.AlignmentFile(header_sam, check_sq=False) as h:
                header = h.header.to_dict()
            with pysam.AlignmentFile(origin, check_sq=False) as src, pysam.AlignmentFile(temp, 'wb', header=header) as o:
                for r in src.fetch(until_eof=True):
                    o.write(r)
            if 'rehead-fail-half' in failing:
                _half_copy(temp, temp)()
                return 256
            os.rename(temp2, target)
            os.remove(rm)
            return 0
        return os.system(cmd)
    return system


def child_main(inp_path, out_path, tmpdir, mode, method, plan, log_path, extra_argv=(), samtools=None, chdir=None):
    """runs in the forked child; never returns"""
    code = 3
    line_level = any(str(p[0]).startswith('line@') for p in plan) or (log_path is not None)
    cov = None if line_level else _child_coverage_start()
    try:
        if chdir:
            os.chdir(chdir)
        tm = tagger.tagger_module()
        import singlecellmultiomics.bamProcessing.bamFunctions as bf
        import singlecellmultiomics.molecule.molecule as mm
        import singlecellmultiomics.universalBamTagger.tagging as tg
        for mod, name in ((bf, 'add_readgroups_to_header'), (bf, 'pysam'), (tm, 'pysam'), (tm, 'shutil'), (tm, 'run_tagging_tasks'),
                          (tm, 'merge_bams'), (mm.Molecule, 'write_pysam')):
            seam(mod, name)
        log = []
        abs_out = out_path if os.path.isabs(out_path) else os.path.join(chdir or os.getcwd(), out_path)
        inj = Injector(plan, log, out_path=abs_out, fire_path=os.path.join(tmpdir, 'fire.json'))
        mm.Molecule.write_pysam = inj.wrap('write_pysam', mm.Molecule.write_pysam)
        bf.add_readgroups_to_header = inj.wrap('header_rewrite', bf.add_readgroups_to_header)

        def sort_inside(*a, **k):
            # pysam.sort('-o', sorted_path, '-T', tmp, unsorted_path, level)
            args = list(a)
            sorted_path = args[args.index('-o') + 1]
            unsorted = [x for x in args if isinstance(x, str) and x.endswith('.unsorted')]
            src = unsorted[0] if unsorted else None
            return _half_copy(src, sorted_path) if src else (lambda: None)

        def merge_inside(bams, output_path, *a, **k):
            srcs = [b for b in bams if os.path.exists(b)]
            return _half_copy(srcs[-1], output_path) if srcs else (lambda: None)

        def sort_subset(*a, **k):
            args = list(a)
            unsorted = [x for x in args if isinstance(x, str) and x.endswith('.unsorted')]
            return _header_only(unsorted[0], args[args.index('-o') + 1]) if unsorted else (lambda: None)

        def merge_subset(bams, output_path, *a, **k):
            srcs = [b for b in bams if os.path.exists(b)]
            return _header_only(srcs[0], output_path) if srcs else (lambda: None)

        def index_inside(*a, **k):
            # pysam.index(bam_path, options..): a truncated index file next to the BAM
            path = a[0]

            def cb():
                with open(path + '.bai', 'wb') as o:
                    o.write(b'BAI\1\2\0\0')
            return cb
        real_pysam = bf.pysam
        shim = _Shim(real_pysam, sort=inj.wrap('sort', real_pysam.sort, sort_inside, sort_subset), index=inj.wrap('index', real_pysam.index, index_inside))
        bf.pysam = shim
        tm.pysam = shim
        seam(tm, 'verify_and_fix_bam')
        tm.verify_and_fix_bam = inj.wrap('verify_input', tm.verify_and_fix_bam)
        tm.run_tagging_tasks = inj.wrap('pool_job', tm.run_tagging_tasks)
        tm.merge_bams = inj.wrap('merge', tm.merge_bams, merge_inside, merge_subset)
        tm.shutil = _Shim(tm.shutil, rmtree=inj.wrap('cleanup', tm.shutil.rmtree))
        # audit wave: every file-system call the pipeline modules make through their own names (soft seams: the line level
        # covers the same boundaries whatever the calls are named)
        over = dict(remove=inj.wrap('fs_remove', os.remove), rename=inj.wrap('fs_rename', os.rename), makedirs=inj.wrap('fs_makedirs', os.makedirs))
        if samtools is not None:
            over['system'] = inj.wrap('external_tool', _fake_samtools(samtools))
            if hasattr(bf, 'which'):
                bf.which = lambda name, *a, **k: ('/usr/bin/samtools' if name == 'samtools' else shutil.which(name, *a, **k))
        fs_os = _Shim(os, **over)
        for mod in (bf, tm):
            if getattr(mod, 'os', None) is os:
                mod.os = fs_os
        if hasattr(bf, 'move'):
            bf.move = inj.wrap('fs_move', bf.move)
        if any(p[0] == 'torn_intermediate' for p in plan) and hasattr(bf, 'replace_bam_header'):
            real_rbh = bf.replace_bam_header

            def torn_rbh(origin_bam_path, *a, **k):
                occ = inj.counts.get('torn_intermediate', 0)
                inj.counts['torn_intermediate'] = occ + 1
                inj.hit('torn_intermediate', 'inside', occ, _drop_tail_blocks(origin_bam_path))
                return real_rbh(origin_bam_path, *a, **k)
            bf.replace_bam_header = torn_rbh
        if hasattr(tg, 'remove'):
            tg.remove = inj.wrap('fs_remove', tg.remove)

        def status_open(path, mode_='r', *a, **k):
            if 'w' not in mode_ or not str(path).endswith('.txt'):
                return open(path, mode_, *a, **k)
            occ = inj.counts.get('status_write', 0)
            inj.counts['status_write'] = occ + 1
            inj.log.append(('status_write', occ))
            inj.hit('status_write', 'before', occ)
            return _StatusFile(open(path, mode_, *a, **k), inj, occ)
        tm.open = status_open
        argv = [inp_path, '-method', method, '-o', out_path, '-temp_folder', tmpdir]
        if mode == 'multi':
            argv.append('--multiprocess')
        argv += list(extra_argv)
        tracer = None
        if line_level:
            tracer = LineTracer(inj, tmpdir, want_states=log_path is not None)
            sys.settrace(tracer.global_trace)
        try:
            exc, sch = tagger.run_tagger(argv, catch_interrupt=True)
        finally:
            sys.settrace(None)
        if log_path:
            meta = iter(tracer.meta) if tracer else iter(())
            with open(log_path, 'w') as f:
                for s, o in log:
                    st, sk = next(meta) if s.startswith('line@') else (-1, -1)
                    f.write(f'{s}\t{o}\t{st}\t{sk}\n')
        code = 0 if exc is None else (130 if isinstance(exc, KeyboardInterrupt) else 3)
    except BaseException:
        code = 4
    finally:
        _child_coverage_stop(cov)
        os._exit(code)


# ------------------------------------------------------------------------------------------------------
# cluster mode (--cluster -sched local): the per-contig jobs and the final merge command run as shell scripts
# ------------------------------------------------------------------------------------------------------
CLUSTER_SUCCESS = 'All done'        # what the final command of the cluster mode echoes into the status file

_STUB_TAGGER = r"""#!{python}
import os, sys
sys.path.insert(0, {verif!r})
fail = os.environ.get('C20_JOB_FAIL', '')
if fail and fail in sys.argv:
    sys.stderr.write('job failed (injected)\n')
    sys.exit(1)
from mc import bind
bind.bind()
from singlecellmultiomics.universalBamTagger import bamtagmultiome as tm
tm.run_multiome_tagging_cmd(sys.argv[1:])
"""

_STUB_SAMTOOLS = r"""#!{python}
# stand-in for the samtools binary (merge / index / view as used by the pipeline), built on the bundled pysam
import os, sys
import pysam
sub = sys.argv[1]
args = sys.argv[2:]
if sub in os.environ.get('C20_TOOL_FAIL', '').split(','):
    sys.stderr.write('samtools ' + sub + ': failed (injected)\n')
    sys.exit(1)
try:
    if sub == 'merge':
        files = [a for a in args if a.endswith('.bam')]
        for f in files[1:]:
            if not os.path.exists(f):
                sys.stderr.write('samtools merge: fail to open ' + f + '\n')
                sys.exit(1)
        pysam.merge('-f', '-c', files[0], *files[1:])
    elif sub == 'index':
        pysam.index(args[-1])
    elif sub == 'view' and '-b' in args:
        with pysam.AlignmentFile('-', 'r', check_sq=False) as i, pysam.AlignmentFile('-', 'wb', template=i) as o:
            for r in i:
                o.write(r)
    elif sub == 'view':
        path = [a for a in args if not a.startswith('-')][-1]
        with pysam.AlignmentFile(path, check_sq=False) as i:
            for r in i.fetch(until_eof=True):
                sys.stdout.write(r.to_string() + '\n')
    else:
        sys.exit(2)
except Exception as e:
    sys.stderr.write(str(e) + '\n')
    sys.exit(1)
"""

_STUB_RM = r"""#!/bin/sh
# rm that can be made to fail for one class of files
for a in "$@"; do
  case "$a" in
    *"$C20_RM_FAIL") if [ -n "$C20_RM_FAIL" ]; then echo "rm: cannot remove $a (injected)" >&2; exit 1; fi;;
  esac
done
exec /bin/rm "$@"
"""

CLUSTER_PLANS = [
    [],
    [('cluster_tool', 'merge', 'run', 'fail')],
    [('cluster_tool', 'index', 'run', 'fail')],
    [('cluster_rm', '.bam', 'run', 'fail')],
    [('cluster_rm', '.status.txt', 'run', 'fail')],
    [('cluster_job', 'cS', 'run', 'fail')],
    [('cluster_job', 'cL', 'run', 'fail')],
    [('damaged_input', 9, 'block', 'readerror')],
]


def _cluster_child(d, inp, out, method, plan):
    code = 3
    try:
        os.setpgid(0, 0)
        os.chdir(d)
        bindir = os.path.join(d, 'bin')
        os.makedirs(bindir)
        verif = os.path.dirname(os.path.dirname(os.path.abspath(tagger.__file__)))
        for name, text in (('bamtagmultiome.py', _STUB_TAGGER), ('samtools', _STUB_SAMTOOLS), ('rm', _STUB_RM)):
            with open(os.path.join(bindir, name), 'w') as f:
                f.write(text.replace('{python}', sys.executable).replace('{verif!r}', repr(verif)))
            os.chmod(os.path.join(bindir, name), 0o755)
        os.environ['PATH'] = bindir + os.pathsep + os.environ.get('PATH', '')
        for s, o, w, k in plan:
            if s == 'cluster_tool':
                os.environ['C20_TOOL_FAIL'] = o
            elif s == 'cluster_rm':
                os.environ['C20_RM_FAIL'] = o
            elif s == 'cluster_job':
                os.environ['C20_JOB_FAIL'] = o
        argv = [inp, '-method', method, '--cluster', '-sched', 'local', '-o', out]
        sys.argv = [os.path.join(bindir, 'bamtagmultiome.py')] + argv      # the job command lines are built from sys.argv
        exc, _ = tagger.run_tagger(argv, catch_interrupt=True)
        normal = exc is None or (isinstance(exc, SystemExit) and exc.code in (None, 0))
        code = 0 if normal else 3
    except BaseException:
        code = 4
    finally:
        os._exit(code)


def run_cluster(method, plan, prior=False):
    """the cluster mode with the local scheduler: every per-contig job and the final merge / index / clean-up / status command really
    run (bash scripts written by the code under test); `samtools`, `rm` and the tagger executable are stand-ins on PATH"""
    d = tempfile.mkdtemp(prefix='c20_', dir='/dev/shm')
    try:
        inp, out = os.path.join(d, 'in.bam'), os.path.join(d, 'out.bam')
        if prior:
            build_input(inp, method, earlier=True)
            c0 = _fork_wait(lambda: _cluster_child(d, inp, out, method, []))
            text0, _ = _read_status(out)
            if c0 != 0 or text0 is None or CLUSTER_SUCCESS not in text0:
                raise HarnessError(f'C20: the preceding fault-free cluster run did not succeed (exit {c0}, status {text0!r})')
            for p in _status_paths(out) + [out, out + '.bai']:
                if os.path.exists(p):
                    os.utime(p, (STALE_MTIME, STALE_MTIME))
            shutil.rmtree(os.path.join(d, 'bin'))
        build_input(inp, method)
        inrecs = records(inp)
        for p in plan:
            if p[0] == 'damaged_input':
                reblock(inp, damage=p[1])
        code = _fork_wait(lambda: _cluster_child(d, inp, out, method, plan))
        if code == 4:
            raise HarnessError('C20 cluster child failed outside the code under test')
        text, stale = _read_status(out)
        viol = []
        tag = f'cluster:{method}' + (':rerun-over-finished-output' if prior else '')
        where = '+'.join(f'{s}:{o}' if s != 'damaged_input' else 'damaged_input:block' for s, o, w, k in plan) or 'no-fault'
        says_success = text is not None and (SUCCESS in text or CLUSTER_SUCCESS in text)
        if says_success and code != 0:
            viol.append((f'{tag}:success-status-although-run-failed:{where}', {'exit': code, 'status': text}))
        if says_success:
            problem = output_problem(out, inrecs, 'superset')
            if problem:
                viol.append((f'{tag}:success-status-but-output-{problem}:{where}', {'exit': code, 'status': text, 'status-from-earlier-run': stale}))
        return viol, {'exit': code, 'status': text}
    finally:
        shutil.rmtree(d, ignore_errors=True)


def _fork_wait(fn, timeout=None):
    """run fn in a forked child (own process group); returns its exit code, or 'hung' when it had to be killed after `timeout` s"""
    sys.stdout.flush()
    sys.stderr.flush()
    pid = os.fork()
    if pid == 0:
        try:
            fn()
        finally:
            os._exit(4)
    t0 = time.time()
    code = None
    while True:
        w, status = os.waitpid(pid, os.WNOHANG if timeout else 0)
        if w == pid:
            code = os.waitstatus_to_exitcode(status)
            break
        if time.time() - t0 > timeout:
            code = 'hung'
            break
        time.sleep(0.05)
    try:
        os.killpg(pid, signal.SIGKILL)          # stragglers of the child's process group (pool workers, shell jobs)
    except (ProcessLookupError, PermissionError):
        pass
    if code == 'hung':
        try:
            os.kill(pid, signal.SIGKILL)
        except ProcessLookupError:
            pass
        os.waitpid(pid, 0)
    return code


# ------------------------------------------------------------------------------------------------------
# a real multiprocessing.Pool: a worker raising / a worker dying
# ------------------------------------------------------------------------------------------------------
REALPOOL_PLANS = [
    [],
    [('sort', j, 'before', 'exception') for j in range(3)],        # every worker: all attempts of its first sort raise (the exception travels to the parent)
    [('write_pysam', 0, 'after', 'exception')],
    [('sort', 0, 'before', 'kill')],             # every worker dies at its first sort: the parent waits for ever
    [('write_pysam', 0, 'after', 'kill')],
    [('index', 0, 'after', 'kill')],
]
REALPOOL_TIMEOUT = 25


def _realpool_child(d, inp, out, method, plan):
    code = 3
    try:
        os.setpgid(0, 0)
        import multiprocessing
        multiprocessing.current_process()._config['daemon'] = False      # the engine's workers are daemonic; this child is a plain fork
        tm = tagger.tagger_module()
        import singlecellmultiomics.bamProcessing.bamFunctions as bf
        import singlecellmultiomics.molecule.molecule as mm
        inj = Injector(plan, [], out_path=out, fire_path=None)
        # the wrappers live in the memory the pool workers are forked from: every worker counts its own occurrences
        mm.Molecule.write_pysam = inj.wrap('write_pysam', mm.Molecule.write_pysam)
        shim = _Shim(bf.pysam, sort=inj.wrap('sort', bf.pysam.sort), index=inj.wrap('index', bf.pysam.index))
        bf.pysam = shim
        main_pid = os.getpid()
        real_hit = inj.hit

        def hit(site, when, occ, inside_cb=None):
            if os.getpid() != main_pid:              # faults strike in the workers only
                real_hit(site, when, occ, inside_cb)
        inj.hit = hit
        argv = [inp, '-method', method, '-o', out, '-temp_folder', d, '--multiprocess', '-tagthreads', '2']
        exc, _ = tagger.run_tagger(argv, real_pool=True, catch_interrupt=True)
        code = 0 if exc is None else 3
    except BaseException:
        code = 4
    finally:
        os._exit(code)


def run_realpool(method, plan):
    d = tempfile.mkdtemp(prefix='c20_', dir='/dev/shm')
    try:
        inp, out = os.path.join(d, 'in.bam'), os.path.join(d, 'out.bam')
        build_input(inp, method)
        inrecs = records(inp)
        code = _fork_wait(lambda: _realpool_child(d, inp, out, method, plan), timeout=REALPOOL_TIMEOUT)
        if code == 4:
            raise HarnessError('C20 real-pool child failed outside the code under test')
        text, stale = _read_status(out)
        viol = []
        where = '+'.join(f'worker-{s}:{w}' for s, o, w, k in plan) or 'no-fault'
        says_success = text is not None and SUCCESS in text
        if says_success and code != 0:
            how = 'hung-after-a-worker-died' if code == 'hung' else 'failed'
            viol.append((f'realpool:{method}:success-status-although-run-{how}:{where}', {'exit': code, 'status': text}))
        if says_success:
            problem = output_problem(out, inrecs, 'all')
            if problem:
                viol.append((f'realpool:{method}:success-status-but-output-{problem}:{where}', {'exit': code, 'status': text}))
        return viol, {'exit': code, 'status': text}
    finally:
        shutil.rmtree(d, ignore_errors=True)


def _child_coverage_start():
    """audit aid (tools/coverage_audit.py): the code under test runs in forked children which leave through os._exit, so the
    child records its own coverage file (kills lose theirs; the exception kinds walk the same paths)"""
    cov_dir = os.environ.get('VERIF_COVERAGE')
    if not cov_dir:
        return None
    import coverage
    from mc import bind
    cur = coverage.Coverage.current()
    if cur is not None:
        cur.stop()
    cov = coverage.Coverage(data_file=os.path.join(cov_dir, f'cov.c20child.{os.getpid()}'), branch=True,
                            include=[os.path.join(bind.REPO, 'singlecellmultiomics', '*')])
    cov.start()
    return cov


def _child_coverage_stop(cov):
    if cov is not None:
        try:
            cov.stop()
            cov.save()
        except Exception:
            pass


BADARGS = {'region': ['-region_start', '5'],                    # -region_start without -region_end
           'transcriptome': ['-method', 'nla_transcriptome'],    # needs -exons / -introns
           'jobbed': ['-jobbed', '@DIR/jobs.bed'],               # --multiprocess: refused (one contig per process); single: ignored
           'temp_folder': ['-temp_folder', '@DIR/no-such-dir']}  # --multiprocess: refused; single: not used


RUN_TIMEOUT = 60        # seconds; an execution takes well under a second.  A run that hangs (seen: htslib's threaded index on a
                        # truncated BAM never returns) is killed and judged like a killed run: the status must not say success


def _fork_run(inp, out, d, mode, method, plan, log_path, extra_argv=(), samtools=None, chdir=None):
    sys.stdout.flush()
    sys.stderr.flush()
    pid = os.fork()
    if pid == 0:
        child_main(inp, out, d, mode, method, plan, log_path, extra_argv, samtools, chdir)
    try:
        fd = os.pidfd_open(pid)
    except (AttributeError, OSError):
        fd = None
    if fd is not None:
        try:
            ready, _, _ = select.select([fd], [], [], RUN_TIMEOUT)
        finally:
            os.close(fd)
        if not ready:
            try:
                os.kill(pid, signal.SIGKILL)
            except ProcessLookupError:
                pass
            os.waitpid(pid, 0)
            return 'hung'
    _, status = os.waitpid(pid, 0)
    return os.waitstatus_to_exitcode(status)


def run_plan(mode, method, plan, want_log=False, prior=False, config='plain'):
    """plan entries are (site, occurrence, when, kind); the pseudo site 'badargs' (occurrence = key of BADARGS) makes the run
    fail in its own set-up through its arguments; the pseudo site 'samtools' (occurrence in SAMTOOLS_FAILURES) makes the modelled
    external tool fail.  prior=True: a complete successful run to the same output path precedes the faulty one, on ANOTHER
    input (history: the status file, the output and the index of an earlier run exist, stamped with an old time)."""
    cfg = CONFIGS[config]
    d = tempfile.mkdtemp(prefix='c20_', dir='/dev/shm')
    try:
        inp = os.path.join(d, 'in.bam')
        out_abs = os.path.join(d, cfg['out'])
        out = cfg['out'] if cfg.get('relative') else out_abs
        chdir = d if cfg.get('relative') else None
        extra = []
        for a in cfg['argv']:
            if a == '@REF':
                a = os.path.join(d, 'ref.fa')
                build_reference(a)
            extra.append(a)
        samtools = None
        if cfg.get('samtools'):
            samtools = tuple(p[1] for p in plan if p[0] == 'samtools')
        log_path = os.path.join(d, 'events.log') if want_log else None
        variant = cfg.get('input')
        prior_recs = None
        if prior:
            build_input(inp, method, earlier=True, variant=variant)
            prior_recs = records(inp)
            c0 = _fork_run(inp, out, d, mode, method, [], None, extra, () if samtools is not None else None, chdir)
            text0, _ = _read_status(out_abs)
            if c0 != 0 or text0 is None or SUCCESS not in text0:
                raise HarnessError(f'C20: the preceding fault-free run did not succeed (exit {c0})')
            for p in _status_paths(out_abs) + [out_abs, out_abs + '.bai']:
                if os.path.exists(p):
                    os.utime(p, (STALE_MTIME, STALE_MTIME))
        build_input(inp, method, variant=variant)
        inrecs = records(inp)
        real_plan = []
        for p in plan:
            if p[0] == 'badargs':
                extra += [a.replace('@DIR', d) for a in BADARGS[p[1]]]
            elif p[0] == 'damaged_input':
                if p[2] == 'tail-record':
                    reblock_tail(inp, damage=p[1])
                else:
                    reblock(inp, damage=p[1])
            elif p[0] != 'samtools':
                real_plan.append(p)
        code = _fork_run(inp, out, d, mode, method, real_plan, log_path, extra, samtools, chdir)
        if code == 4:
            raise HarnessError('C20 child failed outside the code under test (seam missing or harness bug)')
        text, stale = _read_status(out_abs)
        fire = None
        fp = os.path.join(d, 'fire.json')
        if os.path.exists(fp):
            lines = [l for l in open(fp).read().splitlines() if l.strip()]
            if lines:
                fire = json.loads(lines[-1])        # the fault that ended the run is the last one that struck
        events = None
        if want_log and os.path.exists(log_path):
            events = []
            for l in open(log_path):
                s, o, st, sk = l.rstrip('\n').split('\t')
                events.append((s, int(o), int(st), int(sk)))
        if prior and _status_unwritable(plan):
            # the status file of the EARLIER run cannot be written at all (every status write of this run fails to open it): the run
            # has no way to take the old success text back, so the only way to keep "success => complete, sorted, indexed output"
            # true is to leave the output that text describes alone
            viol = []
            if text is not None and SUCCESS in text:
                problem = output_problem(out_abs, prior_recs, 'all')
                if problem:
                    where = '+'.join(_where(s_, o, w) for s_, o, w, k in plan if s_ != 'status_write') or 'no-further-fault'
                    viol.append((f'{mode}:{method}:rerun-with-unwritable-status-file:stale-success-status-but-the-output-it-describes-is-'
                                 f'{problem}:{where}', {'exit': code, 'status': text, 'stale': stale}))
            return viol, {'exit': code, 'status': text, 'events': events}
        viol = judge(mode, method, plan, code, text, out_abs, inrecs, prior, config=config, stale=stale, fire=fire)
        return viol, {'exit': code, 'status': text, 'events': events}
    finally:
        shutil.rmtree(d, ignore_errors=True)


def _where(site, occ, when):
    """signature part: the site class, never the concrete line number"""
    if site.startswith('line@'):
        return 'line-in-' + site[5:].split(':')[1]
    if site == 'samtools':
        return f'external-{occ}'
    return f'{site}:{when}'


REFINED_SITES = ('status_write', 'fs_remove', 'fs_rename', 'fs_makedirs', 'fs_move', 'external_tool')


def judge(mode, method, plan, code, text, out, inrecs, prior=False, config='plain', stale=False, fire=None):
    viol = []
    says_success = (text is not None and SUCCESS in text)
    tag = f'{mode}:{method}' + (f':{config}' if config != 'plain' else '') + (':rerun-over-finished-output' if prior else '')
    where = '+'.join(_where(s, o, w) for s, o, w, k in plan) or 'no-fault'
    kinds = '+'.join(sorted({k for s, o, w, k in plan})) or 'none'
    # points of the audit wave: a fault that strikes after THIS run already reported success is judged by the second clause only
    refined = any(s.startswith('line@') or s in REFINED_SITES for s, o, w, k in plan)
    fresh_success_at_fault = bool(fire and fire.get('status') and SUCCESS in fire['status'] and not fire.get('stale'))
    if says_success and code != 0 and not (refined and fresh_success_at_fault and not stale):
        how = {137: 'was-killed', 130: 'was-interrupted', 'hung': 'hung'}.get(code, 'failed')
        viol.append((f'{tag}:success-status-although-run-{how}:{where}', {'exit': code, 'status': text, 'status-from-earlier-run': stale}))
    if says_success:
        problem = output_problem(out, inrecs, CONFIGS[config]['expect'])
        if problem:
            viol.append((f'{tag}:success-status-but-output-{problem}:{where}', {'exit': code, 'status': text, 'fault': kinds}))
    return viol


def output_problem(out, inrecs, expect='all'):
    if not os.path.exists(out):
        return 'missing'
    try:
        with open(out, 'rb') as f:
            f.seek(0, 2)
            size = f.tell()
            f.seek(max(0, size - 28))
            tail = f.read()
        if tail != BGZF_EOF:
            return 'truncated-(no-EOF-block)'
        recs = records(out)
    except Exception as ex:
        return f'unreadable-({type(ex).__name__})'
    if not is_coordinate_sorted(recs):
        return 'not-coordinate-sorted'
    if not os.path.exists(out + '.bai'):
        return 'index-missing'
    try:
        with pysam.AlignmentFile(out) as f:
            n = sum(sum(1 for _ in f.fetch(c)) for c in f.references)
        if n != sum(1 for r in recs if r['tid'] >= 0):
            return 'index-stale'
    except Exception as ex:
        return f'index-unusable-({type(ex).__name__})'
    key = lambda r: (r['name'], r['seq'], r['qual'], r['contig'], r['pos'], r['cigar'])
    have = sorted(key(r) for r in recs)
    if expect == 'all':
        if have != sorted(key(r) for r in inrecs):
            return 'incomplete-(records-differ-from-input)'
    elif expect != 'valid':
        if expect == 'superset':
            need = inrecs
        elif expect[0] == 'contig':
            need = [r for r in inrecs if r['contig'] == expect[1]]
        else:
            need = [r for r in inrecs if r['contig'] is not None and r['contig'] != expect[1]]
        pool = {}
        for k in have:
            pool[k] = pool.get(k, 0) + 1
        for r in need:
            k = key(r)
            if pool.get(k, 0) == 0:
                return 'incomplete-(an-input-record-of-the-requested-part-is-missing)'
            pool[k] -= 1
    return None


def points_for(mode, method, config='plain'):
    """instrumented fault-free run -> (site points [(site, occ, when)], line points [(site, occ, state, stack, started)], ...)"""
    viol, info = run_plan(mode, method, [], want_log=True, config=config)
    if info['events'] is None:
        raise HarnessError(f'C20: instrumented run produced no event log (exit {info["exit"]}, status {info["status"]})')
    pts, lines = [], []
    started = False
    for site, occ, st, sk in info['events']:
        if site.startswith('line@'):
            lines.append((site, occ, st, sk, started))
            continue
        started = True
        if site == 'status_write':
            whens = ('before', 'inside', 'inside-all-but-newline', 'after')
        elif site in ('sort', 'merge'):
            whens = ('before', 'inside', 'inside-subset', 'after')
        elif site == 'index':
            whens = ('before', 'inside', 'after')
        else:
            whens = ('before', 'after')
        for when in whens:
            pts.append((site, occ, when))
    return pts, lines, viol, info


OLD_SITES = ('write_pysam', 'header_rewrite', 'sort', 'merge', 'cleanup', 'verify_input', 'pool_job')


def _is_old_point(p):
    """the points of the check before the audit wave (their enumeration, pairs and sharding stay as they were)"""
    return p[2] != 'inside-subset' and (p[0] in OLD_SITES or (p[0] == 'index' and p[2] != 'inside'))


def select_lines(lines, kind, every):
    """line-level points for one fault kind.  every=True: every occurrence.  Otherwise exception: first and last occurrence of every
    line; kill: the first point of every distinct on-disk state (nothing runs after a kill, so points that share the state on disk are
    equivalent); interrupt: the first point of every distinct (state, call stack)"""
    if every:
        return list(lines)
    if kind == 'exception':
        first, last = {}, {}
        for i, l in enumerate(lines):
            first.setdefault(l[0], i)
            last[l[0]] = i
        return [lines[i] for i in sorted(set(first.values()) | set(last.values()))]
    out, seen = [], set()
    for l in lines:
        k = l[2] if kind == 'kill' else l[3]
        if k not in seen:
            seen.add(k)
            out.append(l)
    return out


def shards(tier):
    out = []
    for mode in ('single', 'multi'):
        for method in ('nla', 'chic'):
            for kind in ('exception', 'kill', 'interrupt'):
                for prior in (False, True):
                    for part in range(4):
                        out.append({'level': 'site', 'mode': mode, 'method': method, 'kind': kind, 'part': part, 'nparts': 4, 'prior': prior,
                                    'config': 'plain'})
    # audit wave -------------------------------------------------------------------------------
    for mode in ('single', 'multi'):
        for method in ('nla', 'chic'):
            # new sites of the plain configuration (file-system calls, status writes, half-written index) and the oserror kind
            for kind in ('exception', 'kill', 'interrupt', 'oserror', 'memoryerror'):
                if tier == 'quick' and (method == 'chic' or kind == 'interrupt'):
                    continue
                for prior in (False, True):
                    if tier == 'quick' and prior and kind in ('oserror', 'memoryerror'):
                        continue
                    if kind == 'memoryerror' and prior:
                        continue
                    nparts = (2 if mode == 'multi' else 1) * (8 if (tier != 'quick' and kind == 'exception' and not prior) else 1)
                    for part in range(nparts):
                        out.append({'level': 'newsite', 'mode': mode, 'method': method, 'kind': kind, 'part': part, 'nparts': nparts,
                                    'prior': prior, 'config': 'plain'})
            # line level
            if method == 'nla' or tier != 'quick':
                for kind in ('exception', 'kill', 'interrupt'):
                    nparts = 8 if (kind == 'exception' or tier != 'quick') and method == 'nla' else 2
                    for part in range(nparts):
                        out.append({'level': 'line', 'mode': mode, 'method': method, 'kind': kind, 'part': part, 'nparts': nparts, 'prior': False,
                                    'config': 'plain'})
                for part in range(2):
                    out.append({'level': 'line', 'mode': mode, 'method': method, 'kind': 'exception', 'part': part, 'nparts': 2, 'prior': True,
                                'config': 'plain'})
    # a torn intermediate file: the unsorted output of the k-th writer lost its last data block and EOF block before the header rewrite
    for mode in ('single', 'multi'):
        for method in (('nla',) if tier == 'quick' else ('nla', 'chic')):
            out.append({'level': 'torn', 'mode': mode, 'method': method, 'kind': 'silent', 'part': 0, 'nparts': 1, 'prior': False,
                        'config': 'plain'})
    # a damaged input: reading block k fails (every data block), fresh and as a re-run over a finished output
    for mode in ('single', 'multi'):
        for method in ('nla', 'chic'):
            for prior in (False, True):
                if tier == 'quick' and method == 'chic' and prior:
                    continue
                out.append({'level': 'damaged', 'mode': mode, 'method': method, 'kind': 'readerror', 'part': 0, 'nparts': 1, 'prior': prior,
                            'config': 'plain'})
                if not prior:
                    out.append({'level': 'damaged', 'mode': mode, 'method': method, 'kind': 'readerror', 'part': 0, 'nparts': 1,
                                'prior': prior, 'config': 'unmapped_tail'})
    # cluster mode with the local scheduler (each execution runs several interpreters: few, one per shard)
    for i, plan in enumerate(CLUSTER_PLANS):
        if tier == 'quick' and i not in (0, 1, 5):
            continue
        out.append({'level': 'cluster', 'mode': 'cluster', 'method': 'nla', 'kind': 'fail', 'part': i, 'nparts': len(CLUSTER_PLANS), 'prior': False,
                    'config': 'plain'})
    if tier != 'quick':
        out.append({'level': 'cluster', 'mode': 'cluster', 'method': 'chic', 'kind': 'fail', 'part': 0, 'nparts': len(CLUSTER_PLANS), 'prior': False,
                    'config': 'plain'})
        for i in (1, 5):
            out.append({'level': 'cluster', 'mode': 'cluster', 'method': 'nla', 'kind': 'fail', 'part': i, 'nparts': len(CLUSTER_PLANS), 'prior': True,
                        'config': 'plain'})
    # a real multiprocessing.Pool: a worker raising (quick) / workers dying, the parent hangs and is killed after a timeout (thorough)
    for i, plan in enumerate(REALPOOL_PLANS):
        if tier == 'quick' and i not in (0, 1, 5):
            continue
        out.append({'level': 'realpool', 'mode': 'realpool', 'method': 'nla', 'kind': 'worker', 'part': i, 'nparts': len(REALPOOL_PLANS), 'prior': False,
                    'config': 'plain'})
    for config in OPTION_CONFIGS:
        for mode in CONFIGS[config]['modes']:
            for method in (('nla',) if tier == 'quick' else ('nla', 'chic')):
                if CONFIGS[config].get('may_fail') or (tier == 'quick' and CONFIGS[config].get('quick_clean_only')):
                    out.append({'level': 'config', 'mode': mode, 'method': method, 'kind': 'exception', 'part': 0, 'nparts': 1, 'prior': False,
                                'config': config})
                    continue
                nparts = 3 if mode == 'multi' else 1
                for part in range(nparts):
                    for kind in (('exception', 'kill') if tier == 'quick' else ('exception', 'kill', 'interrupt', 'oserror')):
                        out.append({'level': 'config', 'mode': mode, 'method': method, 'kind': kind, 'part': part, 'nparts': nparts, 'prior': False,
                                    'config': config})
                    if tier != 'quick' or config in ('relpath', 'dotted', 'onefile', 'samtools'):
                        out.append({'level': 'config', 'mode': mode, 'method': method, 'kind': 'exception', 'part': part, 'nparts': nparts, 'prior': True,
                                    'config': config})
    return _balanced(out)


def _weight(sh):
    """rough number of executions of a shard (the engine puts shard i into group i % 64; groups run one after the other in a worker)"""
    multi = sh['mode'] == 'multi'
    w = {'site': 25 if multi else 12, 'newsite': 60 if multi else 35, 'config': 45 if multi else 45, 'damaged': 14,
         'cluster': 200, 'realpool': 5}.get(sh['level'], 10)
    if sh['level'] == 'line':
        w = (600 if multi else 340) // sh['nparts'] if (sh['kind'] == 'exception' and not sh['prior']) else 20
    if sh['level'] == 'realpool' and any(p[3] == 'kill' for p in REALPOOL_PLANS[sh['part']]):
        w = 120
    if sh['prior']:
        w *= 2
    return w


def _balanced(shards_):
    """heaviest first, dealt out in snake order over the 64 groups (a pure reordering: the shards still partition the space)"""
    ordered = sorted(range(len(shards_)), key=lambda i: (-_weight(shards_[i]), i))
    G = 64
    rows = [ordered[i:i + G] for i in range(0, len(ordered), G)]
    out = []
    for r, row in enumerate(rows):
        if r % 2 and len(row) == G:
            row = row[::-1]
        out += [shards_[i] for i in row]
    return out


def _nontrivial(first):
    written_sites = {'header_rewrite', 'sort', 'index', 'merge', 'cleanup', 'fs_move', 'fs_rename', 'external_tool'}
    return first[0] in written_sites or (first[0] == 'write_pysam' and (first[1] > 0 or first[2] == 'after')) or first[0] == 'pool_job'


def _count(acc, level, config, kind, prior, info):
    """the evidence keeps only the 12 most frequent outcome labels: these counters show that every dimension was exercised"""
    acc.count(f'executions:level={level}', 1)
    acc.count(f'executions:config={config}', 1)
    acc.count(f'executions:kind={kind}', 1)
    if prior:
        acc.count('executions:re-run-over-finished-output', 1)
    says = info['status'] is not None and (SUCCESS in info['status'] or CLUSTER_SUCCESS in info['status'])
    acc.count(f"final-status:{'success' if says else 'not-success'}:exit={'0' if info['exit'] == 0 else 'nonzero'}", 1)


UNWRITABLE_STATUS = [('status_write', occ, 'before', 'oserror') for occ in range(4)]


def _status_unwritable(plan):
    return all(tuple(u) in [tuple(p) for p in plan] for u in UNWRITABLE_STATUS)


def _not_for_rerun(p):
    # the status file cannot be opened at all: nothing a run could do about a stale text
    return p[0] == 'status_write' and p[1] == 0 and p[2] == 'before'


def run_shard(shard, tier, acc):
    if isinstance(shard, (tuple, list)):          # shard description of the first version
        mode, method, kind, part, nparts, prior = shard
        shard = {'level': 'site', 'mode': mode, 'method': method, 'kind': kind, 'part': part, 'nparts': nparts, 'prior': prior, 'config': 'plain'}
    level, mode, method, kind = shard['level'], shard['mode'], shard['method'], shard['kind']
    part, nparts, prior, config = shard['part'], shard['nparts'], shard['prior'], shard['config']
    cfg = CONFIGS[config]
    if cfg.get('may_fail') or (tier == 'quick' and cfg.get('quick_clean_only')):
        # the run cannot start (one execution, judged like any other: the status must not say success) / fault-free slice of the quick tier
        case = {'mode': mode, 'method': method, 'plan': [], 'config': config}
        viols, info = run_plan(mode, method, [], config=config)
        acc.case(case, transitions=1, nontrivial=False, outcome=f'{mode}:{config}:no-fault:exit={info["exit"]}:status={(info["status"] or "none")[:12]}')
        _count(acc, level, config, kind, prior, info)
        for sig, d in viols:
            acc.violation(sig, case, d)
        if not cfg.get('may_fail') and (info['exit'] != 0 or info['status'] is None or SUCCESS not in info['status']):
            acc.violation(f'{mode}:{method}:{config}:fault-free-run-did-not-report-success', case, info)
        return
    if level in ('cluster', 'realpool'):
        plan = (CLUSTER_PLANS if level == 'cluster' else REALPOOL_PLANS)[part]
        case = {'level': level, 'mode': mode, 'method': method, 'plan': [list(p) for p in plan], 'prior': prior, 'config': config}
        viols, info = run_cluster(method, plan, prior=prior) if level == 'cluster' else run_realpool(method, plan)
        what = '+'.join(f'{p[0]}:{p[1]}:{p[2]}:{p[3]}' for p in plan) or 'no-fault'
        acc.case(case, transitions=1, nontrivial=bool(plan),
                 outcome=f"{level}:{'rerun:' if prior else ''}{what}:exit={info['exit']}:status={(info['status'] or 'none')[:12]}")
        _count(acc, level, config, kind, prior, info)
        for sig, dd in viols:
            acc.violation(sig, case, dd)
        if not plan and not prior:
            ok = info['exit'] == 0 and info['status'] is not None and (SUCCESS in info['status'] or (level == 'cluster' and CLUSTER_SUCCESS in info['status']))
            if not ok:
                acc.violation(f'{level}:{method}:fault-free-run-did-not-report-success', case, info)
        return
    if level == 'torn':
        for k in range(1 if mode == 'single' else 4):
            plan = [('torn_intermediate', k, 'inside', 'silent')]
            case = {'mode': mode, 'method': method, 'plan': [list(p) for p in plan], 'prior': prior, 'config': config}
            viols, info = run_plan(mode, method, plan, prior=prior, config=config)
            acc.case(case, transitions=1, nontrivial=True,
                     outcome=f"{mode}:torn-intermediate-file:exit={info['exit']}:status={(info['status'] or 'none')[:12]}")
            _count(acc, level, config, kind, prior, info)
            for sig, dd in viols:
                acc.violation(sig, case, dd)
        return
    if level == 'damaged':
        d = tempfile.mkdtemp(prefix='c20_', dir='/dev/shm')
        try:
            probe = os.path.join(d, 'in.bam')
            build_input(probe, method, variant=CONFIGS[config].get('input'))
            nblocks = reblock(probe)
            intact = len(records(probe))
        finally:
            shutil.rmtree(d, ignore_errors=True)
        for k in range(nblocks):
            plan = [('damaged_input', k, 'block', 'readerror')]
            case = {'mode': mode, 'method': method, 'plan': [list(p) for p in plan], 'prior': prior, 'config': config}
            viols, info = run_plan(mode, method, plan, prior=prior, config=config)
            acc.case(case, transitions=1, nontrivial=True,
                     outcome=f"{mode}:{'rerun:' if prior else ''}damaged-input-block:exit={info['exit']}:status={(info['status'] or 'none')[:12]}")
            _count(acc, level, config, kind, prior, info)
            for sig, dd in viols:
                acc.violation(sig, case, dd)
        if config == 'unmapped_tail':
            # a damaged RECORD in front of each record of the unmapped tail (the blocks themselves stay valid)
            d = tempfile.mkdtemp(prefix='c20_', dir='/dev/shm')
            try:
                probe = os.path.join(d, 'in.bam')
                build_input(probe, method, variant='unmapped_tail')
                ntail = reblock_tail(probe)
                if len(records(probe)) != 26 or ntail != 8:
                    raise HarnessError(f'C20: unmapped-tail input holds {len(records(probe))} records, {ntail} in the tail')
            finally:
                shutil.rmtree(d, ignore_errors=True)
            for j in range(ntail):
                plan = [('damaged_input', j, 'tail-record', 'readerror')]
                case = {'mode': mode, 'method': method, 'plan': [list(p) for p in plan], 'prior': prior, 'config': config}
                viols, info = run_plan(mode, method, plan, prior=prior, config=config)
                acc.case(case, transitions=1, nontrivial=True,
                         outcome=f"{mode}:damaged-record-in-unmapped-tail:exit={info['exit']}:status={(info['status'] or 'none')[:12]}")
                _count(acc, level, config, kind, prior, info)
                for sig, dd in viols:
                    acc.violation(sig, case, dd)
        if intact != (26 if config == 'unmapped_tail' else 20):
            raise HarnessError(f'C20: the re-blocked input holds {intact} records instead of 20')
        return
    allpts, lines, viol0, info0 = points_for(mode, method, config)
    cfgsig = '' if config == 'plain' else ':' + config
    if part == 0 and kind == 'exception' and not prior and level in ('site', 'config'):
        case = {'mode': mode, 'method': method, 'plan': [], 'config': config}
        acc.case(case, transitions=len(allpts) + len(lines), nontrivial=False, outcome=f'clean{cfgsig}:exit={info0["exit"]}:status={info0["status"]}')
        for sig, d in viol0:
            acc.violation(sig, case, d)
        if info0['exit'] != 0 or info0['status'] is None or SUCCESS not in info0['status']:
            acc.violation(f'{mode}:{method}{cfgsig}:fault-free-run-did-not-report-success', case, info0)
    plans = []
    if level == 'site':
        pts = [p for p in allpts if _is_old_point(p)]
        plans = [[(s, o, w, kind)] for (s, o, w) in pts]
        if kind == 'exception':
            plans += [[('badargs', k, 'setup', 'exception')] for k in sorted(BADARGS)]
            if prior:
                plans.append([])        # the plain re-run (no fault) on another input than the earlier run: the old output must not survive
        if bounds(tier)['deviation_bound'] >= 2 and kind == 'exception' and not prior:
            for i in range(len(pts) - 1):
                plans.append([pts[i] + (kind,), pts[i + 1] + (kind,)])
            # sort is retried at other temp locations: all three attempts failing
            sorts = [p for p in pts if p[0] == 'sort' and p[2] == 'before']
            if sorts:
                s0 = sorts[0]
                plans.append([('sort', s0[1] + j, 'before', kind) for j in range(3)])
    elif level == 'newsite':
        for p in allpts:
            if (kind in ('oserror', 'memoryerror') or not _is_old_point(p)) and not (prior and _not_for_rerun(p)):
                plans.append([p + (kind,)])
        if prior and kind == 'exception':
            # a re-run whose status file cannot be written (a colleague's file, read-only bit, quota): alone, and followed by an
            # exception at every later point of the first version (sort, index, merge, ...)
            plans.append(list(UNWRITABLE_STATUS))
            for p in allpts:
                if _is_old_point(p) and p[0] != 'status_write':
                    plans.append(list(UNWRITABLE_STATUS) + [p + ('exception',)])
        if kind == 'exception' and tier != 'quick' and not prior:
            # fault sequences (deviation bound 2) over ALL points: a second exception at each of the next 6 points of the fault-free run
            # (after a retried sort the run continues: sort fails, then index / remove / move / status write fails), and a first
            # exception followed by a failing or partial write of whatever status comes next (the FAIL text of the handler)
            for i in range(len(allpts)):
                for j in range(i + 1, min(i + 7, len(allpts))):
                    if _is_old_point(allpts[i]) and _is_old_point(allpts[j]) and j == i + 1:
                        continue        # the consecutive pairs of the first version are enumerated at the site level
                    plans.append([allpts[i] + (kind,), allpts[j] + (kind,)])
            nstatus = len({p[1] for p in allpts if p[0] == 'status_write'})
            for p in allpts:
                if p[0] == 'status_write':
                    continue
                for occ in range(1, nstatus):
                    for when in ('before', 'inside', 'inside-all-but-newline'):
                        plans.append([p + (kind,), ('status_write', occ, when, 'oserror')])
        if kind in ('exception', 'oserror', 'memoryerror'):
            # sort is retried at other temp locations: all three attempts of one sort failing, for every sort and every variant
            for s0 in [p for p in allpts if p[0] == 'sort' and p[2] == 'before']:
                if s0[1] > 0 and mode == 'single':
                    continue
                for when in ('before', 'inside', 'inside-subset'):
                    plans.append([('sort', s0[1] + j, when, kind) for j in range(3)])
    elif level == 'line':
        every = tier != 'quick' and method == 'nla' and not prior
        for (site, occ, st, sk, started) in select_lines(lines, 'kill' if prior else kind, every):
            if prior and not started:
                continue            # before the run touched its input or wrote anything: not a tagging step
            plans.append([(site, occ, 'before', kind)])
    elif level == 'config':
        pts = list(allpts)
        if config in ('relpath', 'dotted'):
            pts = [p for p in pts if p[0] != 'write_pysam']          # only the paths differ from the plain configuration
        elif tier == 'quick':
            # quick: the first and the last molecule write only (every write k of n: plain configuration and thorough tier)
            last = max([p[1] for p in pts if p[0] == 'write_pysam'], default=0)
            pts = [p for p in pts if p[0] != 'write_pysam' or p[1] in (0, last)]
        if prior:
            pts = [p for p in pts if not _not_for_rerun(p)]
        plans = [[p + (kind,)] for p in pts]
        if config == 'samtools' and not prior:
            # the external tool fails (nothing / half an output written): merge falls back to pysam.merge, the header rewrite gives up;
            # alone and together with every later point of the final steps
            for beh in SAMTOOLS_FAILURES:
                if mode == 'single' and beh.startswith('merge'):
                    continue
                if kind == 'exception':
                    plans.append([('samtools', beh, 'run', 'exception')])
                if beh.startswith('merge') and kind in ('exception', 'kill'):
                    for p in allpts:
                        if p[0] in ('merge', 'cleanup') or (p[0] == 'status_write' and p[1] > 0):
                            plans.append([('samtools', beh, 'run', 'exception'), p + (kind,)])
        if tier != 'quick' and kind == 'kill' and not prior:
            for (site, occ, st, sk, started) in select_lines(lines, 'kill', False):
                plans.append([(site, occ, 'before', kind)])
    for i, plan in enumerate(plans):
        if i % nparts != part:
            continue
        case = {'mode': mode, 'method': method, 'plan': [list(p) for p in plan], 'prior': prior, 'config': config}
        viols, info = run_plan(mode, method, plan, prior=prior, config=config)
        first = plan[0] if plan else ('no-fault', 0, 'none')
        cfgl = '' if config == 'plain' else f'{config}:'
        if first[0] == 'samtools':
            cfgl += f'external-{first[1]}:'
            if len(plan) > 1:
                first = plan[1]
        if first[0].startswith('line@'):
            label = 'line:' + first[0][5:].split(':')[1]
            nontrivial = any(l[4] for l in lines if l[0] == first[0] and l[1] == first[1])
        else:
            label = f'{first[0]}:{first[2]}'
            nontrivial = _nontrivial(first) or (bool(plan) and plan[0][0] == 'samtools')
        acc.case(case, transitions=1, nontrivial=nontrivial,
                 outcome=f"{mode}:{cfgl}{'rerun:' if prior else ''}{label}:{kind}:exit={info['exit']}:status={(info['status'] or 'none')[:12]}")
        _count(acc, level, config, kind, prior, info)
        for sig, d in viols:
            acc.violation(sig, case, d)


def replay(case):
    plan = [tuple(p) for p in case['plan']]
    config = case.get('config', 'plain')
    if case.get('level') in ('cluster', 'realpool'):
        cluster = case['level'] == 'cluster'
        viols, info = run_cluster(case['method'], plan, prior=case.get('prior', False)) if cluster else run_realpool(case['method'], plan)
        if not plan and not case.get('prior'):
            ok = info['exit'] == 0 and info['status'] is not None and (SUCCESS in info['status'] or (cluster and CLUSTER_SUCCESS in info['status']))
            if not ok:
                viols.append((f"{case['level']}:{case['method']}:fault-free-run-did-not-report-success", info))
        return viols
    viols, info = run_plan(case['mode'], case['method'], plan, prior=case.get('prior', False), config=config)
    if not plan and not case.get('prior') and not CONFIGS[config].get('may_fail') and \
            (info['exit'] != 0 or info['status'] is None or SUCCESS not in info['status']):
        viols.append((f"{case['mode']}:{case['method']}{':' + config if config != 'plain' else ''}:fault-free-run-did-not-report-success", info))
    return viols
