"""C08 - parallel tagging is equivalent to serial tagging.

One serial run of the real command line is compared with (i) --multiprocess (contig per process) and (ii) the
region-tiling path of tag_multiome_multi_processing (one_contig_per_process=False) for EVERY tiling
(bin size x fetch margin x job size) of the alphabet, with and without a pool, under a scheduler-owned Pool with
every completion order (<=4 jobs) or every order within 2 adjacent swaps + reversal (more jobs).
The genome is tiny and holds a molecule on, one before and one after EVERY bin boundary any tiling produces,
on both strands, with 1-3 duplicates, several cells, rejects and unmapped reads.

Further dimensions, each a letter enumerated next to the main alphabet (thin slice in quick, wide in thorough):
methods (qflag, nla_no_overhang = cut site OUTSIDE the fragment, nla_taps, chic_taps with a reference written here, nla_transcriptome with exons next to every bin boundary,
scartrace contig-per-process only), libraries (empty, unmapped reads only, a single molecule, one contig only, no unmapped reads, "odd" =
chimeric / mate-unmapped / R1-only / single-end / placed-unmapped reads on every boundary), command-line options
(-tagthreads 1..8, -contig, -skip_contig, -max_time_per_segment, --one_contig_per_process, -assignment_radius, ...), each for the
tiling AND for contig-per-process, free-running runs with the real multiprocessing.Pool for worker counts 1..8, and the
observation WHICH job wrote a molecule (records of every job file against the job's ownership intervals).
"""
import os
import shutil
import tempfile

from gen import c08_lib
from gen.bam import Builder, records
from mc import tagger
from mc.bind import HarnessError, seam
from mc.sched import orders as sched_orders

ID = 'C08'
RULE = ('serial run vs every (bin size, fetch margin, job size, pool on/off) tiling and vs --multiprocess, each under every completion '
        'order of the jobs (all for <=4 jobs, <=2 adjacent swaps + reversal beyond); input holds molecules at B-1,B,B+1 for every bin '
        'boundary B of every tiling, both strands; non-trivial = run with >=3 jobs in a non-submission order; states = tagger runs, '
        'transitions = records compared; further letters: methods x libraries x options (see bounds), each under the tiling and '
        'contig-per-process, real-Pool runs per worker count, and per job file: every read-1 record with a DS tag lies in an '
        'ownership interval of the job that wrote it')
ASSUMPTIONS = [
    'wall-clock time is not explored; the time limit is exercised through a virtual clock that moves between segments only '
    '(a segment that itself exceeds its limit is dropped by design and has no serial counterpart)',
    'fetch margin >= longest fragment (60 nt), as the property states; smaller margins are not generated',
    'no blacklist (the tiling path raises NotImplementedError for one)',
    'per-run identifiers (mi, ix) and the order among equal coordinates are not compared',
    'the worker schedule reaches the output only through the order in which job results are delivered (owned scheduler); the real '
    'multiprocessing.Pool is run in addition, free-running, once per worker count',
    'the cut site of a written molecule is its DS tag (documented as "site location"); records without DS (rejects) are not '
    'checked for ownership',
    'methods whose fragments have no cut site (scartrace) have no defined tiling: contig-per-process only',
    'options with a defined serial counterpart only (--consensus, -blacklist need --multiprocess / external tools: not generated)',
]
CONTIGS = [('c1', 2000), ('c2', 1500), ('c3', 300)]
# only used by the contig-per-process comparison: small contigs that together exceed the 100 kb small-contig threshold, and a large one
EXTRA_CONTIGS = [('m1', 60000), ('m2', 60000), ('m3', 45000), ('big', 150000)]
MAXFRAG = 60
IGNORE_TAGS = {'mi', 'ix'}


OPTION_LETTERS = [
    # (name, options, modes).  modes: t = region tiling, c = contig-per-process
    ('contig', ['-contig', 'c2'], 'tc'),
    ('skip_contig', ['-skip_contig', 'c2,c3'], 'tc'),
    ('max_time', ['-max_time_per_segment', '100000'], 'tc'),          # a limit no job reaches: nothing may change
    ('one_contig_flag', ['--one_contig_per_process'], 'c'),
    ('jobbed', ['-jobbed', '{d}/jobs.bed'], 't'),                     # the job list is written to a file first ({d} = temp dir)
    ('assignment_radius', ['-assignment_radius', '5'], 'c'),          # the command line forces contig-per-process for it
    ('every_fragment', ['--every_fragment_as_molecule'], 'tc'),
    ('max_associated', ['-max_associated_fragments', '2'], 'tc'),    # overflow fragments become molecules of their own
    ('no_rejects', ['--no_rejects'], 'tc'),
    ('cycle_shift', ['--allow_cycle_shift'], 'tc'),
    ('no_motif_check', ['--no_restriction_motif_check'], 'tc'),
    ('umi_hamming_0', ['-umi_hamming_distance', '0'], 'tc'),
    ('read_group_format_1', ['-read_group_format', '1'], 'tc'),
]
LIBS = ['empty', 'only_unmapped', 'one_molecule', 'one_contig', 'no_unmapped', 'odd']
EXTRA_METHODS = ['qflag', 'nla_no_overhang', 'nla_taps', 'chic_taps', 'nla_transcriptome', 'scartrace']
# chic_nla is not generated: its SERIAL pass raises on unmapped / reject molecules (no reference behaviour to compare with)


def bounds(tier):
    more = {'clock': 'virtual (-max_time_per_segment 60 s): +1 h before every segment, frozen inside; 3 bins per job, all bins in one job, contig-per-process',
            'extra_methods': EXTRA_METHODS, 'libraries': ['main'] + LIBS, 'options': [n for n, _, _ in OPTION_LETTERS],
            'modes': ['tiling', 'contig-per-process'],
            'job_ownership_observed': 'first (submission order) run of every configuration'}
    if tier == 'quick':
        return dict({'bin_sizes': [250, 700, 1000, 5000], 'fetch_margins': [60, 1000], 'job_sizes': ['b', '3b', 'inf'], 'methods': ['nla', 'chic'],
                     'pool': [True, False], 'orders': 'all for <=4 jobs, else <=2 adjacent swaps + reversal',
                     'tagthreads': [1, 2, 8], 'real_pool_worker_counts': {'contig-per-process': [1], 'tiling': [3]},   # chic / nla
                     'options_contig_per_process': [n for n, _, m in OPTION_LETTERS if 'c' in m and n in JOB_LETTERS] + ['tagthreads'],
                     'extra_method_tilings': [[250, 60, 250], [700, 1000, 2100]], 'library_tilings': [[250, 60, 250], [1000, 60, 10 ** 9]]}, **more)
    return dict({'bin_sizes': [250, 500, 700, 1000, 5000], 'fetch_margins': [60, 100, 1000], 'job_sizes': ['b', '3b', 'inf'],
                 'methods': ['nla', 'chic'], 'pool': [True, False], 'orders': 'all for <=5 jobs, else <=3 adjacent swaps + reversal',
                 'tagthreads': [1, 2, 3, 4, 5, 6, 7, 8],
                 'real_pool_worker_counts': {'contig-per-process': [1, 2, 3, 4, 5, 6, 7, 8], 'tiling': [1, 2, 3, 4, 5, 6, 7, 8]},
                 'extra_method_tilings': [[250, 60, 250], [500, 100, 1500], [700, 1000, 2100], [1000, 60, 10 ** 9]],
                 'library_tilings': [[250, 60, 250], [500, 60, 500], [700, 100, 2100], [1000, 60, 10 ** 9], [5000, 1000, 5000]]}, **more)


def tiling_boundaries(tier):
    """bin boundaries every tiling of the alphabet produces, from the real tiling function"""
    from singlecellmultiomics.bamProcessing.bamBinCounts import blacklisted_binning_contigs
    out = {c: set() for c, _ in CONTIGS}
    for b in bounds(tier)['bin_sizes']:
        for contig, s, e, fs, fe in blacklisted_binning_contigs(CONTIGS, b, MAXFRAG):
            out[contig].add(s)
            out[contig].add(e)
    return out


def build_input(path, method, tier, extra=False, dense=False, shifted=False):
    mx = 'scCHIC384C8U3' if method == 'chic' else 'NLAIII384C8U3'
    kw = dict(method=method, mx=mx)
    b = Builder(CONTIGS + (EXTRA_CONTIGS if extra else []))
    bnds = tiling_boundaries(tier)
    umis = ['AAA', 'ACG', 'CCT', 'GTA', 'TTC']
    k = 0
    for contig, length in CONTIGS:
        sites = set()
        for B in sorted(bnds[contig]):
            for d in (-1, 0, 1):
                sites.add(B + d)
        # the first and the last bases of the contig (remainder bins of a tiling are only a few bases wide)
        sites.update(range(0, 4))
        sites.update(range(length - 8, length))
        for site in sorted(sites):
            for reverse in (False, True):
                # the complete fragment must lie inside the contig, and the site itself must be a coordinate of the contig
                if method == 'chic':
                    lo = site + 2 if not reverse else site - 1 - MAXFRAG
                    hi = site + 2 + MAXFRAG if not reverse else site - 1
                else:
                    lo = site if not reverse else site + 4 - MAXFRAG
                    hi = site + MAXFRAG if not reverse else site + 4
                if lo < 0 or hi > length or not (0 <= site < length):
                    continue
                k += 1
                umi = umis[k % len(umis)]
                ndup = 1 + (k % 3)
                for j in range(ndup):
                    b.pair(contig, site, cell=1, umi=umi, reverse=reverse, frag=[50, 60, 40][j], **kw)
                if k % 4 == 0:
                    b.pair(contig, site, cell=2, umi=umi, reverse=reverse, frag=55, **kw)
                if k % 7 == 0:
                    b.pair(contig, site, cell=1, umi='GGG', reverse=reverse, motif='CTTG', frag=50, **kw)   # reject (nla)
                if shifted and method == 'nla' and k % 5 == 0:
                    # first base of the motif lost: a reject, but with --allow_cycle_shift a molecule whose site (`site`) lies one
                    # base OUTSIDE the read
                    if not reverse and site + 1 + 50 <= length:
                        b.pair(contig, site + 1, cell=3, umi=umi, motif='ATGA', frag=50, **kw)
                    if reverse and site - 1 + 4 - 50 >= 0:
                        b.pair(contig, site - 1, cell=3, umi=umi, reverse=True, motif='ATGT', frag=50, **kw)
        b.pair(contig, min(length - 100, 150), cell=2, umi='TGA', r2_unmapped=True, **kw)
    if dense:
        # a molecule in every 20-base bin, so that a one-bin-per-job tiling produces more than a hundred result files
        for contig, length in CONTIGS[:2]:
            for site in range(10, length - MAXFRAG - 10, 20):
                b.pair(contig, site, cell=3, umi='TCA', frag=45, **kw)
    if extra:
        for ci, (contig, length) in enumerate(EXTRA_CONTIGS):
            b.pair(contig, 1000 + ci, cell=1, umi='AAA', **kw)
            b.pair(contig, 1000 + ci, cell=1, umi='AAA', frag=45, **kw)
            b.pair(contig, length - 500, cell=2, umi='CGT', reverse=True, **kw)
    b.unmapped_pair()
    b.unmapped_pair(cell=2, umi='CCC')
    b.write(path)


def canon(recs):
    out = []
    for r in recs:
        tags = tuple(sorted((k, repr(v)) for k, v in r['tags'].items() if k not in IGNORE_TAGS))
        out.append((r['name'], r['mate'], r['flag'], r['contig'], r['pos'], r['cigar'], r['seq'], tags))
    return sorted(out)


def diff_signature(want, got):
    from collections import Counter
    cw, cg = Counter(want), Counter(got)
    lost = list((cw - cg).elements())
    extra = list((cg - cw).elements())
    ln = {(x[0], x[1]) for x in lost}
    en = {(x[0], x[1]) for x in extra}
    sigs = []
    if ln - en:
        sigs.append(('record-missing-in-parallel-output', [x[:5] for x in lost if (x[0], x[1]) not in en][:3]))
    if en - ln:
        sigs.append(('record-written-more-often-than-serial', [x[:5] for x in extra if (x[0], x[1]) not in ln][:3]))
    both = ln & en
    if both:
        # same record, different flag / tags
        ex = []
        kinds = set()
        for nm in sorted(both)[:50]:
            a = [x for x in lost if (x[0], x[1]) == nm][0]
            b = [x for x in extra if (x[0], x[1]) == nm][0]
            if a[2] != b[2]:
                kinds.add('flag')
            ta, tb = dict(a[7]), dict(b[7])
            for t in sorted(set(ta) | set(tb)):
                if ta.get(t) != tb.get(t):
                    kinds.add('tag-' + t)
            if len(ex) < 2:
                ex.append({'serial': (a[0], a[1], a[2], a[4], {t: v for t, v in ta.items() if tb.get(t) != v}),
                           'parallel': (b[0], b[1], b[2], b[4], {t: v for t, v in tb.items() if ta.get(t) != v})})
        sigs.append(('record-differs:' + '+'.join(sorted(kinds)[:4]), ex))
    return sigs


def is_cpp(cfg):
    """contig-per-process (what --multiprocess does on the command line): no wrapper around the job builder"""
    return cfg is None or cfg.get('mode') == 'cpp'


class Session:
    """one input BAM + its serial reference output, reused for all tilings of a shard"""

    def __init__(self, method, tier, extra=False, dense=False, lib='main', shifted=False):
        self.method = method
        base, needs_ref, _, needs_gtf = c08_lib.METHODS[method]
        self.d = tempfile.mkdtemp(prefix='c08_', dir='/dev/shm')
        self.inp = os.path.join(self.d, 'in.bam')
        self.base_opts = []
        contigs = CONTIGS + (EXTRA_CONTIGS if extra else [])
        sites = None
        if base == 'noov':
            sites = c08_lib.noov_sites(CONTIGS, tiling_boundaries(tier))
            c08_lib.build_noov(self.inp, CONTIGS, sites, MAXFRAG, extra_contigs=(EXTRA_CONTIGS if extra else []))
        elif lib == 'main':
            build_input(self.inp, base, tier, extra=extra, dense=dense, shifted=shifted)
        else:
            c08_lib.build_kind(self.inp, lib, CONTIGS, base, tiling_boundaries(tier), MAXFRAG)
        if needs_ref:
            ref = os.path.join(self.d, 'ref.fa')
            c08_lib.write_ref(ref, contigs, sites)
            self.base_opts = ['-ref', ref]
        if needs_gtf:
            self.base_opts += ['-exons', c08_lib.write_gtf(os.path.join(self.d, 'exons.gtf'), CONTIGS, tiling_boundaries(tier))]
        self.nrec = len(records(self.inp))
        self._serial = {}
        self.serial, self.serial_error = self.serial_for(())

    def serial_for(self, opts):
        """serial reference output for extra command-line options (cached per option tuple)"""
        opts = tuple(opts)
        if opts not in self._serial:
            out = os.path.join(self.d, 'serial.bam')
            for p in (out, out + '.bai'):
                if os.path.exists(p):
                    os.remove(p)
            exc, _ = tagger.run_tagger([self.inp, '-method', self.method, '-o', out, '-temp_folder', self.d] + self.base_opts + list(opts))
            self._serial[opts] = (None, exc) if exc is not None else (canon(records(out)), None)
        return self._serial[opts]

    def close(self):
        shutil.rmtree(self.d, ignore_errors=True)

    def run_parallel(self, cfg, order, extra_opts=(), observe_jobs=False):
        """cfg: None / mode 'cpp' (= --multiprocess contig per process) or dict(b, f, j, pool). Returns (violations, njobs)"""
        tm = tagger.tagger_module()
        out = os.path.join(self.d, 'par.bam')
        for p in (out, out + '.bai'):
            if os.path.exists(p):
                os.remove(p)
        opts = [o.replace('{d}', self.d) for o in list((cfg or {}).get('opts', ())) + list(extra_opts)]
        # worker count: not an option of the serial pass
        serial, serial_error = self.serial_for(without_worker_count(opts))
        cpp = is_cpp(cfg)
        tag = 'contig-per-process' if cpp else ('tiling' + ('' if cfg['pool'] else ':no-pool'))
        if serial is None:
            if (cfg or {}).get('lenient_serial'):
                return [], None            # the option has no serial counterpart for this method: outside the property
            return [(f'{self.method}:serial:exception:{type(serial_error).__name__}', repr(serial_error))], None
        argv = [self.inp, '-method', self.method, '-o', out, '-temp_folder', self.d, '--multiprocess'] + self.base_opts + opts
        if (cfg or {}).get('real_pool'):
            # free-running, real multiprocessing.Pool, fresh interpreter
            if cpp:
                err = tagger.run_tagger_subprocess(argv)
            else:
                err = c08_lib.run_tiling_subprocess(cfg['b'], cfg['f'], cfg['j'], argv)
            if err is not None:
                return [(f'{self.method}:{tag}:real-pool-run-failed', err)], None
            if not os.path.exists(out):
                return [(f'{self.method}:{tag}:real-pool:no-output', {})], None
            got = canon(records(out))
            if got == serial:
                return [], None
            return [(f'{self.method}:{tag}:real-pool:{s}', d) for s, d in diff_signature(serial, got)], None
        real = seam(tm, 'tag_multiome_multi_processing')
        real_rtt = seam(tm, 'run_tagging_tasks')
        misplaced = []
        if not cpp:
            def wrapper(**kw):
                kw['one_contig_per_process'] = False
                kw['bp_per_segment'] = cfg['b']
                kw['fragment_size'] = cfg['f']
                kw['bp_per_job'] = cfg['j']
                kw['use_pool'] = cfg['pool']
                return real(**kw)
            tm.tag_multiome_multi_processing = wrapper
        clock = None
        if (cfg or {}).get('clock'):
            # virtual clock (the tagger's only time source for the limit is `datetime.now` of the tagging module): time passes
            # BETWEEN segments only (one hour before every segment starts), never inside one, so no segment comes near its limit
            # and the output must equal the serial pass; a limit measured from anywhere outside the segment sees the hours
            import singlecellmultiomics.universalBamTagger.tagging as tg
            real_task, real_dt = seam(tg, 'run_tagging_task'), seam(tg, 'datetime')
            clock = VirtualClock(real_dt)

            def timed_task(*a, **kw):
                clock.advance(3600)
                return real_task(*a, **kw)
            tg.run_tagging_task, tg.datetime = timed_task, clock
        if observe_jobs:
            def observed(args):
                res = real_rtt(args)
                try:
                    path, tasks = res[0], args[1]
                except Exception:
                    return res
                if path and os.path.exists(path):
                    misplaced.extend(not_owned(path, tasks))
                return res
            tm.run_tagging_tasks = observed
        try:
            exc, sch = tagger.run_tagger(argv, order=order)
        finally:
            tm.tag_multiome_multi_processing = real
            tm.run_tagging_tasks = real_rtt
            if clock is not None:
                tg.run_tagging_task, tg.datetime = real_task, real_dt
        njobs = sch.log[0]['n'] if sch.log else None
        if exc is not None:
            return [(f'{self.method}:{tag}:exception:{type(exc).__name__}', repr(exc))], njobs
        if not os.path.exists(out):
            return [(f'{self.method}:{tag}:no-output', {})], njobs
        viols = []
        for pl in sch.pools:
            if pl['processes'] is not None and pl['processes'] < 1:
                # multiprocessing.Pool raises ValueError('Number of processes must be at least 1')
                viols.append((f'{self.method}:{tag}:pool-created-with-less-than-one-worker', {'processes': pl['processes'], 'options': opts}))
        if misplaced:
            viols.append((f'{self.method}:{tag}:molecule-written-by-a-job-whose-bins-do-not-contain-its-site', misplaced[:3]))
        got = canon(records(out))
        if got == serial:
            return viols, njobs
        if opts:
            tag += ':' + opts[0].lstrip('-')
        return viols + [(f'{self.method}:{tag}:{s}', d) for s, d in diff_signature(serial, got)], njobs


class VirtualClock:
    """stands in for the `datetime` class in the tagging module: now() is owned by the harness"""

    def __init__(self, real):
        self.real = real
        self.t = real(2020, 1, 1)
        self.reads = 0

    def advance(self, seconds):
        from datetime import timedelta
        self.t = self.t + timedelta(seconds=seconds)

    def now(self, tz=None):
        self.reads += 1
        return self.t

    def __getattr__(self, name):
        return getattr(self.real, name)


def without_worker_count(opts):
    out, skip = [], False
    for o in opts:
        if skip:
            skip = False
        elif o == '-tagthreads':
            skip = True
        else:
            out.append(o)
    return out


def not_owned(path, tasks):
    """read-1 / single-end records of one job file whose DS (site location) is in none of the job's ownership intervals"""
    import pysam
    bad = []
    with pysam.AlignmentFile(path, check_sq=False) as f:
        for r in f.fetch(until_eof=True):
            if r.is_read2 or r.is_unmapped or r.is_secondary or r.is_supplementary or not r.has_tag('DS'):
                continue
            ds = r.get_tag('DS')
            ok = False
            for t in tasks:
                if t['contig'] != r.reference_name:
                    continue
                if t['start'] is None or t['start'] <= ds < t['end']:
                    ok = True
                    break
            if not ok:
                bad.append({'read': r.query_name, 'contig': r.reference_name, 'site': ds,
                            'job_bins': [(t['contig'], t['start'], t['end']) for t in tasks][:6]})
    return bad


def base_configs(tier):
    bd = bounds(tier)
    out = [None]
    for b in bd['bin_sizes']:
        for f in bd['fetch_margins']:
            for jn in bd['job_sizes']:
                j = {'b': b, '3b': 3 * b, 'inf': 10 ** 9}[jn]
                for pool in bd['pool']:
                    if not pool and jn != 'b':
                        continue       # without a pool there is no schedule; one job size suffices
                    out.append({'b': b, 'f': f, 'j': j, 'pool': pool})
    # a fine tiling with more than a hundred jobs (one bin per job)
    out.append({'b': 20, 'f': 60, 'j': 20, 'pool': True, 'few_orders': True})
    # an option that makes some fragments rejects (longer than the limit): the serial run still writes both mates, flagged
    for f in bd['fetch_margins']:
        out.append({'b': 250, 'f': f, 'j': 250, 'pool': True, 'opts': ['-max_fragment_size', '30'], 'few_orders': True})
    # a history of calls in one process: restricted to one contig, then the whole file, then another contig
    out.append({'b': 250, 'f': 60, 'j': 750, 'pool': True, 'history': ['c2', None, 'c1', None], 'few_orders': True})
    return out


TILE = {'b': 250, 'f': 60, 'j': 750, 'pool': True}
CPP = {'mode': 'cpp', 'pool': True}


JOB_LETTERS = {'contig', 'skip_contig', 'max_time', 'one_contig_flag', 'jobbed', 'assignment_radius'}   # options the job builder reads


def option_bundles(tier):
    """one letter per command-line option, for the tiling and for contig-per-process; light input, identity + reversed order.
    A bundle shares one input file.  quick: options which only shape the molecules run under the tiling alone."""
    bd = bounds(tier)
    light = {'few_orders': True, 'light': True}
    threads = []
    for t in bd['tagthreads']:
        threads.append(dict(TILE, opts=['-tagthreads', str(t)], **light))
        threads.append(dict(CPP, opts=['-tagthreads', str(t)], **light))
    jobs, shaping = [], []
    for name, opts, modes in OPTION_LETTERS:
        dest = jobs if name in JOB_LETTERS else shaping
        if 't' in modes:
            dest.append(dict(TILE, opts=opts, lenient_serial=True, **light))
        if 'c' in modes and (tier != 'quick' or name in JOB_LETTERS):
            dest.append(dict(CPP, opts=opts, lenient_serial=True, **light))
    # a limit of one minute under a virtual clock which moves one hour between segments and not at all inside one
    jobs.append(dict(TILE, opts=['-max_time_per_segment', '60'], clock=True, lenient_serial=True, **light))
    jobs.append(dict({'b': 250, 'f': 60, 'j': 10 ** 9, 'pool': True}, opts=['-max_time_per_segment', '60'], clock=True, lenient_serial=True, **light))
    jobs.append(dict(CPP, opts=['-max_time_per_segment', '60'], clock=True, lenient_serial=True, **light))
    # the same history of restricted / unrestricted calls as for the tiling, contig-per-process
    jobs.append(dict(CPP, history=['c2', None, 'c1', None], **light))
    out = [threads, jobs]
    n = 4 if tier == 'quick' else 3
    out += [shaping[k:k + n] for k in range(0, len(shaping), n)]
    return out


def real_pool_bundles(tier, method):
    """free-running runs with the real Pool, one per worker count (quick: one mode per method)"""
    bd = bounds(tier)
    out = []
    if tier != 'quick' or method == 'chic':
        for t in bd['real_pool_worker_counts']['contig-per-process']:
            out.append([dict(CPP, opts=['-tagthreads', str(t)], real_pool=True, light=True)])
    if tier != 'quick' or method == 'nla':
        for t in bd['real_pool_worker_counts']['tiling']:
            out.append([dict({'b': 250, 'f': 60, 'j': 250, 'pool': True}, opts=['-tagthreads', str(t)], real_pool=True, light=True)])
    return out


def library_bundles(tier):
    out = []
    for lib in LIBS:
        one = [dict(CPP, lib=lib, few_orders=True, light=True)]
        for b, f, j in bounds(tier)['library_tilings']:
            one.append({'b': b, 'f': f, 'j': j, 'pool': True, 'lib': lib, 'few_orders': True, 'light': True})
        one.append({'b': 250, 'f': 60, 'j': 250, 'pool': False, 'lib': lib, 'light': True})
        out.append(one)
    return out


def extra_method_bundles(tier, method):
    out = [[dict(CPP, extra=True, few_orders=True, light=True)]]
    if c08_lib.METHODS[method][2]:
        one = []
        for b, f, j in bounds(tier)['extra_method_tilings']:
            one.append({'b': b, 'f': f, 'j': j, 'pool': True, 'few_orders': True, 'light': True})
        one.append({'b': 250, 'f': 60, 'j': 250, 'pool': False, 'light': True})
        out.append(one)
    return out


def bundles(tier, method):
    """list of lists of configurations; the configurations of one list share one input file (one shard)"""
    if method in bounds(tier)['methods']:
        return [[c] for c in base_configs(tier)] + option_bundles(tier) + real_pool_bundles(tier, method) + library_bundles(tier)
    return extra_method_bundles(tier, method)


def shards(tier):
    out = []
    for method in bounds(tier)['methods'] + EXTRA_METHODS:
        for i, _ in enumerate(bundles(tier, method)):
            out.append((method, i))
    return out


def session_key(cfg):
    if cfg is None:
        return ('main', True, False, False)
    if cfg.get('light'):
        return (cfg.get('lib', 'main'), bool(cfg.get('extra')), False, True)
    return ('main', False, bool(cfg.get('few_orders')), False)


def session_for(method, cfg, tier):
    lib, extra, dense, shifted = session_key(cfg)
    return Session(method, tier, extra=extra, dense=dense, lib=lib, shifted=shifted)


def run_shard(shard, tier, acc):
    method, bi = shard
    cfgs = bundles(tier, method)[bi]
    if len({session_key(c) for c in cfgs}) != 1:
        raise HarnessError(f'C08: bundle {bi} of {method} mixes input files')
    ses = session_for(method, cfgs[0], tier)
    try:
        if ses.serial is None:
            case = {'method': method, 'cfg': None, 'order': None, 'tier': tier}
            acc.case(case, outcome='serial-failed')
            acc.violation(f'{method}:serial:exception:{type(ses.serial_error).__name__}', case, repr(ses.serial_error))
            return
        for cfg in cfgs:
            run_config(ses, method, cfg, tier, acc)
    finally:
        ses.close()


def run_config(ses, method, cfg, tier, acc):
    if cfg is not None and cfg.get('history'):
        for step, contig in enumerate(cfg['history']):
            extra = ['-contig', contig] if contig else []
            case = {'method': method, 'cfg': cfg, 'order': None, 'tier': tier, 'history_step': step}
            viols, njobs = ses.run_parallel(cfg, None, extra_opts=extra)
            viols = [(sg + ':in-a-history-of-calls', d) for sg, d in viols]
            _report(acc, case, viols, njobs, ses.nrec)
        return
    # first run in submission order tells how many jobs there are
    case = {'method': method, 'cfg': cfg, 'order': None, 'tier': tier}
    viols, njobs = ses.run_parallel(cfg, None, observe_jobs=True)
    _report(acc, case, viols, njobs, ses.nrec)
    if njobs and njobs > 1 and (cfg is None or cfg['pool']):
        full, swaps = (4, 2) if tier == 'quick' else (5, 3)
        order_list = sched_orders(njobs, full_upto=full, swaps=swaps)
        if cfg is not None and cfg.get('few_orders'):
            order_list = [tuple(range(njobs)), tuple(reversed(range(njobs)))]
        for o in order_list:
            if list(o) == list(range(njobs)):
                continue
            case = {'method': method, 'cfg': cfg, 'order': list(o), 'tier': tier}
            viols, nj = ses.run_parallel(cfg, list(o))
            _report(acc, case, viols, nj, ses.nrec)


def _report(acc, case, viols, njobs, nrec):
    cfg = case['cfg']
    if cfg is None:
        lab = 'contig-per-process'
    else:
        lab = 'contig-per-process' if is_cpp(cfg) else f"b={cfg['b']},f={cfg['f']},pool={cfg['pool']}"
        if cfg.get('lib'):
            lab += ',lib=' + cfg['lib']
        if cfg.get('opts') and cfg.get('light'):
            lab += ',' + ' '.join(cfg['opts']).lstrip('-')
        if cfg.get('real_pool'):
            lab += ',real-pool'
        if cfg.get('clock'):
            lab += ',virtual-clock'
    real_pool = bool(cfg and cfg.get('real_pool'))
    acc.case(case, transitions=nrec, nontrivial=(real_pool or ((njobs or 0) >= 3 and case['order'] is not None)),
             outcome=f"{case['method']}:{lab}:jobs={njobs}:viol={len(viols)}")
    for sig, d in viols:
        acc.violation(sig, case, d)


def replay(case):
    cfg = case['cfg']
    tier = case.get('tier', 'quick')
    ses = session_for(case['method'], cfg, tier)
    try:
        if ses.serial is None:
            return [(f"{case['method']}:serial:exception:{type(ses.serial_error).__name__}", repr(ses.serial_error))]
        if cfg is not None and cfg.get('history'):
            out = []
            for step, contig in enumerate(cfg['history']):
                v, _ = ses.run_parallel(cfg, None, extra_opts=(['-contig', contig] if contig else []))
                if step == case.get('history_step'):
                    out = [(sg + ':in-a-history-of-calls', d) for sg, d in v]
            return out
        return ses.run_parallel(cfg, case['order'], observe_jobs=(case['order'] is None))[0]
    finally:
        ses.close()
