"""C17 - blacklist-aware genome tiling is an exact partition with contained fetch windows.

Space: EVERY region [a,b) with 0<=a<b<=R, every bin size 1..R+2, fragment size in {None,0,1,2,R},
every blacklist of <= K half-open intervals with endpoints in -1..R+1 (two intervals in both orders), on the real blacklisted_binning; plus fill_range / trim_rangelist / merge_overlapping_ranges /
bp_chunked / blacklisted_binning_contigs on their own complete small spaces.
Oracle: the property statement itself, evaluated with bitsets.
"""
import itertools
import os
import tempfile

ID = 'C17'
DESIGN_REF = 'DESIGN.md section 3, C17'
RULE = ('exhaustive product region x bin size x fragment size x blacklist (all sets of <=K intervals over '
        '-1..R+1) on the real blacklisted_binning; a case is non-trivial when the blacklist intersects the '
        'region and at least two bins are produced; states = distinct cases')
ASSUMPTIONS = [
    'blacklist intervals are half-open [start,end) with start<end; two-interval blacklists are passed in both orders, three-interval ones sorted',
    'bin size >= 1, fragment size >= 0',
]


def bounds(tier):
    if tier == 'quick':
        return {'R': 8, 'max_blacklist_intervals': 2, 'bin_sizes': '1..R+2', 'fragment_sizes': [None, 0, 1, 2, 8],
                'aux': 'fill_range/trim/merge/bp_chunked exhaustive to R'}
    return {'R': 12, 'max_blacklist_intervals': 2, 'R3': 7, 'max_blacklist_intervals_R3': 3, 'bin_sizes': '1..R+2',
            'fragment_sizes': [None, 0, 1, 2, 'R'], 'aux': 'fill_range/trim/merge/bp_chunked exhaustive to R'}


def shards(tier):
    b = bounds(tier)
    out = []
    R = b['R']
    for a in range(0, R):
        for e in range(a + 1, R + 1):
            out.append(('bb', R, a, e, b['max_blacklist_intervals']))
    if tier == 'thorough':
        R3 = b['R3']
        for a in range(0, R3):
            for e in range(a + 1, R3 + 1):
                out.append(('bb', R3, a, e, 3))
    out.append(('fill', R))
    out.append(('trim', R))
    out.append(('merge', min(R, 8)))
    out.append(('chunk', min(R, 8)))
    out.append(('contigs', min(R, 8)))
    return out


def _mask(s, e):
    """bitset of integer positions s..e-1 (clipped at 0)"""
    s = max(s, 0)
    e = max(e, 0)
    if e <= s:
        return 0
    return ((1 << e) - 1) ^ ((1 << s) - 1)


def _intervals(R):
    return [(s, e) for s in range(-1, R + 2) for e in range(s + 1, R + 2)]


def _frag_sizes(R):
    return [None, 0, 1, 2, R]


def check_bb(a, e, bin_size, frag, blacklist, acc=None):
    """Run the real blacklisted_binning on one case and return list of (signature, detail)."""
    from singlecellmultiomics.bamProcessing import bamBinCounts as B
    out = []
    try:
        res = list(B.blacklisted_binning(a, e, bin_size, blacklist=list(blacklist), fragment_size=frag))
    except Exception as ex:
        return [(f'blacklisted_binning:exception:{type(ex).__name__}', repr(ex))], None
    region = _mask(a, e)
    black = 0
    for s, t in blacklist:
        black |= _mask(s, t)
    black &= region
    covered = 0
    for tup in res:
        if frag is None:
            if len(tup) != 2:
                out.append(('blacklisted_binning:tuple-shape', tup)); break
            s, t = tup
        else:
            if len(tup) != 4:
                out.append(('blacklisted_binning:tuple-shape', tup)); break
            s, t, fs, fe = tup
        if not (s < t):
            out.append(('blacklisted_binning:empty-or-inverted-bin', tup)); continue
        if t - s > bin_size:
            out.append(('blacklisted_binning:bin-larger-than-bin-size', tup))
        if s < a or t > e:
            out.append(('blacklisted_binning:bin-outside-region', tup))
        m = _mask(s, t)
        if m & black:
            out.append(('blacklisted_binning:bin-touches-blacklist', tup))
        if m & covered:
            out.append(('blacklisted_binning:bins-overlap', tup))
        covered |= m
        if frag is not None:
            if fs > s or fe < t:
                out.append(('blacklisted_binning:fetch-window-does-not-contain-bin', tup))
            if s - fs > frag or fe - t > frag:
                out.append(('blacklisted_binning:fetch-window-extends-more-than-fragment-size', tup))
            if fs < a or fe > e:
                out.append(('blacklisted_binning:fetch-window-outside-region', tup))
            if _mask(fs, fe) & black:
                out.append(('blacklisted_binning:fetch-window-into-blacklist', tup))
    missing = (region & ~black) & ~covered
    if missing:
        out.append(('blacklisted_binning:gap-uncovered-bases', [i for i in range(a, e) if (missing >> i) & 1]))
    seen = set()
    dedup = []
    for sig, d in out:
        if sig not in seen:
            seen.add(sig)
            dedup.append((sig, {'result': res, 'first_offender': d}))
    return dedup, (len(res), bool(black))


def run_shard(shard, tier, acc):
    kind = shard[0]
    if kind == 'bb':
        _, R, a, e, K = shard
        ivs = _intervals(R)
        bls = [()]
        for k in range(1, K + 1):
            bls.extend(itertools.combinations(ivs, k))   # combinations of a sorted list are sorted
        # the function does not require a sorted blacklist (it merges and sorts itself): two intervals also in reverse order
        bls.extend((b, a) for a, b in itertools.combinations(ivs, 2))
        for bin_size in range(1, R + 3):
            for frag in _frag_sizes(R):
                for bl in bls:
                    viols, info = check_bb(a, e, bin_size, frag, bl)
                    case = {'fn': 'blacklisted_binning', 'start': a, 'end': e, 'bin_size': bin_size,
                            'fragment_size': frag, 'blacklist': [list(x) for x in bl]}
                    nbins, hasblack = info if info else (0, False)
                    acc.case(case, transitions=1 + nbins, nontrivial=(hasblack and nbins >= 2),
                             outcome=f'bins={nbins},black={hasblack}')
                    for sig, d in viols:
                        acc.violation(sig, case, d)
    else:
        for case in _aux_cases(kind, shard[1]):
            viols = replay(case)
            acc.case(case, transitions=1, nontrivial=True, outcome=kind)
            for sig, d in viols:
                acc.violation(sig, case, d)


def _aux_cases(kind, R):
    if kind == 'fill':
        for s in range(0, R + 1):
            for e in range(s, R + 1):
                for step in range(1, R + 3):
                    yield {'fn': 'fill_range', 'start': s, 'end': e, 'step': step}
    elif kind == 'trim':
        ivs = _intervals(R)
        for a in range(0, R):
            for e in range(a + 1, R + 1):
                for iv in ivs:
                    yield {'fn': 'trim_rangelist', 'start': a, 'end': e, 'ranges': [list(iv)]}
    elif kind == 'merge':
        ivs = _intervals(R)
        for k in (1, 2, 3):
            for combo in itertools.combinations(ivs, k):
                yield {'fn': 'merge_overlapping_ranges', 'ranges': [list(x) for x in combo]}
    elif kind == 'chunk':
        # every composition of total length <= R into bins (the bin lists tilings produce are runs of
        # adjacent bins), every bp_per_job
        for total in range(1, R + 1):
            for cuts in range(0, 1 << (total - 1)):
                bins, s = [], 0
                for i in range(1, total):
                    if (cuts >> (i - 1)) & 1:
                        bins.append((s, i)); s = i
                bins.append((s, total))
                for bp in range(1, R + 2):
                    yield {'fn': 'bp_chunked', 'bins': [list(x) for x in bins], 'bp_per_job': bp}
    elif kind == 'contigs':
        for l1 in range(1, R + 1, 2):
            for l2 in (1, 3, R):
                for bin_size in (1, 2, 3, R + 1):
                    for frag in (None, 0, 2):
                        for bl in ([], [('c1', 0, 1)], [('c1', 1, 3), ('c2', 0, 2)], [('c2', 2, R + 1), ('c1', -1, 2)],
                                   [('c1', 1, 2), ('c1', 2, 3)], [('zz', 0, 5)]):
                            for wl in (None, ['c2']):
                                yield {'fn': 'blacklisted_binning_contigs', 'contigs': [['c1', l1], ['c2', l2]],
                                       'bin_size': bin_size, 'fragment_size': frag,
                                       'blacklist_bed': [list(x) for x in bl], 'whitelist': wl}


def replay(case):
    from singlecellmultiomics.bamProcessing import bamBinCounts as B
    from singlecellmultiomics.utils import binning
    fn = case['fn']
    if fn == 'blacklisted_binning':
        viols, _ = check_bb(case['start'], case['end'], case['bin_size'], case['fragment_size'],
                            tuple(tuple(x) for x in case['blacklist']))
        return viols
    out = []
    try:
        if fn == 'fill_range':
            s, e, step = case['start'], case['end'], case['step']
            res = list(B.fill_range(s, e, step))
            cur = s
            for (x, y) in res:
                if x != cur or not (x < y) or y - x > step or y > e:
                    out.append(('fill_range:not-a-partition-into-steps', res)); break
                cur = y
            else:
                if cur != e:
                    out.append(('fill_range:does-not-reach-end', res))
        elif fn == 'trim_rangelist':
            a, e = case['start'], case['end']
            rl = [tuple(x) for x in case['ranges']]
            res = list(B.trim_rangelist(rl, a, e))
            want = 0
            for s, t in rl:
                want |= _mask(s, t)
            want &= _mask(a, e)
            got = 0
            for s, t in res:
                if s < a or t > e:
                    out.append(('trim_rangelist:range-outside-region', res))
                got |= _mask(s, t)
            if got != want:
                out.append(('trim_rangelist:trimmed-union-differs-from-intersection', {'got': res}))
        elif fn == 'merge_overlapping_ranges':
            rl = [tuple(x) for x in case['ranges']]
            res = list(B.merge_overlapping_ranges(rl))
            want = 0
            for s, t in rl:
                want |= _mask(s + 2, t + 2)
            got = 0
            prev_end = None
            for s, t in res:
                m = _mask(s + 2, t + 2)
                if got & m or (prev_end is not None and s < prev_end):
                    out.append(('merge_overlapping_ranges:result-overlaps-or-unsorted', res)); break
                got |= m
                prev_end = t
            if got != want:
                out.append(('merge_overlapping_ranges:union-changed', res))
        elif fn == 'bp_chunked':
            bins = [('c', s, e) for s, e in case['bins']]
            bp = case['bp_per_job']
            res = list(binning.bp_chunked(iter(bins), bp))
            flat = [x for ch in res for x in ch]
            if flat != bins:
                out.append(('bp_chunked:chunks-do-not-concatenate-to-input', res))
            for ch in res[:-1]:
                if sum(abs(e - s) for _, s, e in ch) < bp:
                    out.append(('bp_chunked:inner-chunk-below-requested-size', res)); break
                if len(ch) > 1 and sum(abs(e - s) for _, s, e in ch[:-1]) >= bp:
                    out.append(('bp_chunked:chunk-grown-past-requested-size', res)); break
        elif fn == 'blacklisted_binning_contigs':
            out.extend(_check_contigs(case, B))
        else:
            raise ValueError(fn)
    except Exception as ex:
        out.append((f'{fn}:exception:{type(ex).__name__}', repr(ex)))
    return out


def _check_contigs(case, B):
    out = []
    contigs = [tuple(x) for x in case['contigs']]
    bed = case['blacklist_bed']
    frag = case['fragment_size']
    path = None
    try:
        if bed:
            fd, path = tempfile.mkstemp(suffix='.bed', prefix='c17_')
            with os.fdopen(fd, 'w') as f:
                for c, s, e in bed:
                    f.write(f'{c}\t{max(s, 0)}\t{e}\n')
        res = list(B.blacklisted_binning_contigs(contigs, case['bin_size'], frag, blacklist_path=path,
                                                 contig_whitelist=case['whitelist']))
    finally:
        if path:
            os.unlink(path)
    for c, length in contigs:
        mine = [r[1:] for r in res if r[0] == c]
        if case['whitelist'] is not None and c not in case['whitelist']:
            if mine:
                out.append(('blacklisted_binning_contigs:bins-on-non-whitelisted-contig', res))
            continue
        black = 0
        for bc, s, e in bed:
            if bc == c:
                black |= _mask(s, e)
        region = _mask(0, length)
        black &= region
        cov = 0
        for r in mine:
            s, t = r[0], r[1]
            m = _mask(s, t)
            if not (s < t) or t - s > case['bin_size'] or s < 0 or t > length:
                out.append(('blacklisted_binning_contigs:bad-bin', res))
            if m & black:
                out.append(('blacklisted_binning_contigs:bin-touches-blacklist', res))
            if m & cov:
                out.append(('blacklisted_binning_contigs:bins-overlap', res))
            cov |= m
            if frag is not None:
                fs, fe = r[2], r[3]
                if fs > s or fe < t or s - fs > frag or fe - t > frag or fs < 0 or fe > length or (_mask(fs, fe) & black):
                    out.append(('blacklisted_binning_contigs:bad-fetch-window', res))
        if (region & ~black) & ~cov:
            out.append(('blacklisted_binning_contigs:gap-uncovered-bases', res))
    extra = [r for r in res if r[0] not in dict(contigs)]
    if extra:
        out.append(('blacklisted_binning_contigs:unknown-contig', res))
    seen = set()
    return [(s, d) for s, d in out if not (s in seen or seen.add(s))]
