"""C11 - count tables count exactly the reads passing the filters, at documented weights.

Level 1 (read)   bamToCountTable.assignReads on ONE in-memory pysam read and a fresh count table:
                 every read differing from a plain good read in <= 2 attributes (gen/c11_reads.py: mate role /
                 unpaired, qcfail, duplicate, RR, MAPQ 0/29/30/60, proper bit, mate unmapped, unmapped, CIGAR I/D/S,
                 NM 0/1/2/absent, XA non-alt / alt-only / mixed, NH, mp, SM, feature value, by-value value, contig,
                 position in/out of the blacklist)  x  option sets (11 booleans incl. blacklist x minMQ {0,30} x
                 max_base_edits {None,1} x feature mode {joined, single tags, joined+byValue}).
                 quick: option sets within distance <= 3 of the default; thorough: ALL of them.
                 Added by the audit (gen/c11_reads.py lists the letters): reads on a contig that is in no blacklist / BED
                 file, reads touching a blacklist interval / BED region from outside and from inside, secondary /
                 supplementary records, empty XA, float by-value value, feature values holding a delimiter, BI / bi / both,
                 DS; options (--splitFeatures, -featureDelimiter) as ONE dimension of 4 values, feature modes one joined tag / tag-alias-attribute
                 lookups (joined, single) / joined + -bin.  These are enumerated within distance <= 2 (quick) / <= 3
                 (thorough) of the default over ALL reads; the first version's space (core letters) is kept in full.
Level 2 (table)  create_count_table(args, return_df=True) on a BAM holding all these reads (synthesised with pysam
                 under /dev/shm, sorted + indexed) x option sets within distance <= 2 (quick) / <= 3 (thorough)
                 x -contig {none, chr1, chr2} x -bedfile {none, 3 regions} (all feature modes but by-value and bin);
                 blacklist from a BED file.
                 Sample tags 'SM,ri' (ri = unique read id) give every read its own column, so the table is compared
                 read by read; additionally 'SM' alone (reads pooled per sample) for option sets within distance 1.
                 For option sets within distance 1 x -contig {none, chr1} x -bedfile also: the reads dealt over TWO
                 alignment files; -head {0, 3, 10^6}; the table written with -o (csv, pickle, pickle.gz) and with
                 --bulk, read back from the file; --noNames on the pooled table; named two-level sample tags SM,chrom.

Oracle: oracles/c11_oracle.py - an independent recomputation from the property text and the CLI help strings on the
abstract read descriptions.  Where the documentation is silent/ambiguous the case is executed (exceptions still count)
but its result is not compared (outcome label 'ambiguous').
"""
import collections
import os
import shutil
import tempfile

ID = 'C11'
DESIGN_REF = 'DESIGN.md section 3, C11'
RULE = ('level 1: exhaustive product (reads within 2 attribute changes of a plain good read) x (option sets within the '
        'stated distance of the default: quick = distance <= 2 over all option values plus distance <= 3 over the core '
        'values; thorough = distance <= 3 over all values plus the FULL product of the core values x the core reads) '
        'through assignReads, one state per (read, option set); '
        'non-trivial when at least one selected option or changed attribute bears on the verdict, i.e. the read is '
        'excluded by a selected filter, its weight differs from the default 0.5 or it feeds more than one cell; level 2: one table per (option set, '
        '-contig, -bedfile, sample tags, slice) through create_count_table on the BAM of all reads, compared cell by cell '
        '(per read with sample tags SM,ri), non-trivial always (the BAM holds counted, filtered and re-weighted reads); '
        'slices (option distance <= 1): reads dealt over two alignment files, -head, -o csv / pickle / pickle.gz with and '
        'without --bulk read back from the file, --noNames, named two-level sample tags; '
        'ambiguous (undocumented) cases are executed but not compared and are never counted as non-trivial')
ASSUMPTIONS = [
    'XA tags are in bwa format (one "chr,pos,CIGAR,NM;" entry per alternative hit, trailing semicolon); the number of '
    'reported hits is the number of XA entries + 1, or NH',
    'every read carries SM, the feature tag (XT), the by-value tag (RC), the bin tag (DS) and BI or bi; a feature value holds '
    'a delimiter only as a separator of non-empty pieces',
    'reads lie fully inside or fully outside blacklist / BED regions; BED regions are disjoint',
    'undocumented interactions are not judged: unpaired read with --r1only/--r2only, missing NM with -max_base_edits, '
    'missing/other mp with --filterMP, XA and NH disagreeing, -byValue with a divided weight (value or value x weight '
    'accepted), -byValue or -bin together with -bedfile (not generated)',
    'with -bedfile the key of a read is its key without the option followed by (start, end, name) of the region, for '
    'joined and for single feature tags alike',
    'level 1 calls assignReads the way create_count_table does (feature tag list with the by-value / bin tag appended, '
    'sliding = bin, reference lengths set)',
    '--splitFeatures with -byValue is refused by the program (NotImplementedError) and not generated; with --splitFeatures a '
    'piece may be incremented by the weight or by an equal share of it',
    '-head N is only judged for what the property still says: no read is counted that a filter excludes or at another '
    'weight / key, and the passing reads among the first N records of the (contig-restricted) file are counted; how many '
    'records beyond N are looked at is left open; with -bedfile only the first clause',
    '-bin is used with one size (100) on contigs of 1000 bases, so no bin is over the bounds (C10 decides the bin arithmetic)',
    'tables written with -o are compared after reading them back with pandas (csv: keys compared as strings)',
    'the per-read sample tag pair SM,ri is a device of this check, not part of the quantified space: those tables are '
    'requested with --noNames (naming the two column levels of an EMPTY result raises ValueError in pandas, which is '
    'outside this property); the pooled SM tables keep the default naming',
]

TOL = 1e-9


def bounds(tier):
    from gen import c11_reads as R
    b = {'read_attribute_changes': 2, 'attributes': {a: v for a, v in R.ALTS},
         'options': {d: [list(x) if isinstance(x, tuple) else x for x in v] for d, v in R.DIMS},
         'contig_selection': [None, 'chr1', 'chr2'], 'bed_regions': R.BED, 'blacklist': R.BLACKLIST,
         'level2_sample_tags': ['SM,ri', 'SM (distance<=1)'],
         'core_attributes': R.CORE_ALTS, 'core_option_values': R.CORE_VALUES, 'feature_modes': R.FEATURE_ARGS,
         'level2_distance<=1_slices': {'files': ['one', 'split2'], 'head': HEADS, 'out': OUTS,
                                       'pooled_noNames': [False, True], 'named_sample_tags': 'SM,chrom',
                                       'contig': [None, 'chr1']}}
    if tier == 'quick':
        b.update({'level1_option_distance': {'core letters': 3, 'all letters': 2}, 'level2_option_distance': 2})
    else:
        b.update({'level1_option_distance': {'core letters x core reads': 'all', 'all letters': 3},
                  'level2_option_distance': 3})
    return b


HEADS = [0, 3, 10 ** 6]
OUTS = ['csv', 'pickle', 'pickle.gz', 'csv+bulk', 'pickle.gz+bulk']


N_READ_SHARDS = 32
N_TABLE_SHARDS = 32


def shards(tier):
    """level 1: the option sets (simplest first) dealt round-robin over N_READ_SHARDS shards, each x all its reads;
    level 2: the table configurations dealt round-robin over N_TABLE_SHARDS shards"""
    return [('read', i) for i in range(N_READ_SHARDS)] + [('table', i) for i in range(N_TABLE_SHARDS)]


# ------------------------------------------------------------------------------------------------ comparison

def _ok(value, acceptable):
    return any(abs(value - a) <= TOL for a in acceptable)


def classify(site, rd, opt, blacklist_idx, got, exp, excluded_by=None, key_class=''):
    """got {(sample,key): value}, exp {(sample,key): set(acceptable)} of ONE read -> [(signature, detail)]"""
    from oracles import c11_oracle as O
    got = {k: v for k, v in got.items() if abs(v) > TOL}
    if not exp and not got:
        return []
    detail = {'read': rd, 'got': sorted(([list(k[0]), list(k[1]), v] for k, v in got.items()), key=repr),
              'expected': sorted(([list(k[0]), list(k[1]), sorted(v)] for k, v in exp.items()), key=repr)}
    if not exp:
        why = list(excluded_by or []) + O.why_not(rd, opt, blacklist_idx)
        return [(f'{site}:counted-read-excluded-by:{why[0] if why else "unknown"}', detail)]
    if not got:
        return [(f'{site}:dropped-read-passing-all-filters{key_class or _dropped_class(rd, opt, blacklist_idx)}', detail)]
    if set(got) != set(exp):
        return [(f'{site}:wrong-sample-or-feature-key{key_class}', detail)]
    for k in exp:
        if not _ok(got[k], exp[k]):
            if opt['features'] == 'joined+byValue':
                cls = 'byValue'
            elif opt.get('splitFeatures') and len(exp) > 1:
                cls = 'splitFeatures'
            elif opt['divideMultimapping'] and (rd['XA'] is not None or rd['NH'] is not None):
                cls = 'multimapping-division'
            else:
                cls = 'fragment-division'
            return [(f'{site}:wrong-weight:{cls}', detail)]
    return []


def _dropped_class(rd, opt, blacklist_idx):
    """configuration class of a wrongly dropped read (part of the signature)"""
    from oracles import c11_oracle as O
    if blacklist_idx and not rd['unmapped']:
        a, b = rd['pos'], rd['pos'] + O.ref_span(rd['cigar'])
        if any(a == be or b == bs for bs, be in blacklist_idx.get(rd['contig'], ())):
            return ':read-touching-blacklist-interval-from-outside'
    if rd['aln'] != 'primary':
        return ':secondary-or-supplementary-record'
    if blacklist_idx and not rd['unmapped'] and rd['contig'] not in blacklist_idx:
        return ':contig-without-blacklist-interval'
    return ''


def _nontrivial(rd, opt, exp):
    if exp == {}:
        return True
    return any(v != {0.5} for v in exp.values()) or len(exp) > 1


def _outcome(exp):
    from oracles import c11_oracle as O
    if exp == O.AMBIGUOUS:
        return 'ambiguous'
    if not exp:
        return 'excluded'
    v = sorted(next(iter(exp.values())))
    return f'counted:w={"|".join(f"{x:.4g}" for x in v)}:cells={len(exp)}'


# ------------------------------------------------------------------------------------------------ level 1

def _level1_setup():
    from gen import c10_counttable as G
    from gen import c11_reads as R
    hdr = G.header(R.CONTIGS)
    reads = R.all_reads(2)
    return hdr, reads, [R.to_pysam(rd, hdr) for rd in reads]


def _feature_lists(opt):
    """what create_count_table hands to assignReads for the feature modes (joinFeatures, featureTags)"""
    from gen import c11_reads as R
    return R.feature_tags(opt)


def setup():
    """the oracle's table of feature modes and the generator's must describe the same command lines"""
    from gen import c11_reads as R
    from oracles import c11_oracle as O
    from mc.bind import HarnessError
    for m, (joined, tags, by, bin_) in R.FEATURE_ARGS.items():
        if O.MODES.get(m) != (joined, tuple(tags.split(',')), by, bin_):
            raise HarnessError(f'C11 feature mode {m}: generator and oracle disagree')
    if set(O.MODES) != set(R.FEATURE_ARGS) or (O.BI_VALUE, O.bi_VALUE, O.BIN) != (R.BI_VALUE, R.bi_VALUE, R.BIN):
        raise HarnessError('C11 feature modes / constants: generator and oracle disagree')


def check_read(rd, pr, opt, args=None):
    from gen import c10_counttable as G
    from gen import c11_reads as R
    from oracles import c11_oracle as O
    from singlecellmultiomics.bamProcessing import bamToCountTable as T
    if args is None:
        args = R.make_args(opt, level1=True)
    join, feats = _feature_lists(opt)
    bl_real = R.BLACKLIST if opt['blacklist'] else None
    bl_idx = R.BLACKLIST_IDX if opt['blacklist'] else None
    exp = O.expected_read(rd, opt, R.CONTIG_NAMES, bl_idx)
    ct = collections.defaultdict(collections.Counter)
    try:
        T.assignReads(pr, ct, args, join, list(feats), ['SM'], blacklist_dic=bl_real)
    except Exception as ex:
        return [(f'assignReads:exception:{type(ex).__name__}', {'read': rd, 'error': repr(ex)})], exp
    if exp == O.AMBIGUOUS:
        return [], exp
    return classify('assignReads', rd, opt, bl_idx, G.counter_to_dict(ct), exp), exp


# ------------------------------------------------------------------------------------------------ level 2

class Files:
    """BAMs (full / without unmapped reads / only never-ambiguous reads; each also dealt over two files), BED and
    blacklist files in one temp dir"""

    def __init__(self):
        from gen import c10_counttable as G
        from gen import c11_reads as R
        self.dir = tempfile.mkdtemp(prefix='c11_', dir='/dev/shm')
        hdr = G.header(R.CONTIGS)
        hdr_rev = G.header(list(reversed(R.CONTIGS)))
        self.reads = R.all_reads(2)
        self.by_ri = {rd['ri']: rd for rd in self.reads}
        self.sets = {
            'full': self.reads,
            'mapped': [rd for rd in self.reads if not rd['unmapped']],
            'clean': [rd for rd in self.reads if R.never_ambiguous(rd)],
        }
        self.bam, self.bam2 = {}, {}
        for name, rds in self.sets.items():
            self.bam[name] = G.write_bam(os.path.join(self.dir, f'{name}.bam'), hdr, [R.to_pysam(rd, hdr) for rd in rds])
            # the same reads dealt alternately over two files: every sample and most cells occur in both
            # the second file lists the contigs in the OPPOSITE order in its header (another aligner index): a reference id
            # means something within one file only
            n_contigs = len(R.CONTIGS)
            self.bam2[name] = [G.write_bam(os.path.join(self.dir, f'{name}_0.bam'), hdr,
                                           [R.to_pysam(rd, hdr) for rd in rds[0::2]]),
                               G.write_bam(os.path.join(self.dir, f'{name}_1.bam'), hdr_rev,
                                           [R.to_pysam(rd, hdr_rev, contig_index_of=lambda i: n_contigs - 1 - i) for rd in rds[1::2]])]
        self.bed = os.path.join(self.dir, 'regions.bed')
        with open(self.bed, 'w') as f:
            for c, s, e, n in R.BED:
                f.write(f'{c}\t{s}\t{e}\t{n}\n')
        self.blacklist = os.path.join(self.dir, 'blacklist.bed')
        with open(self.blacklist, 'w') as f:
            for c, ivs in R.BLACKLIST.items():
                for s, e in ivs:
                    f.write(f'{c}\t{s}\t{e}\n')
        self.n_out = 0

    def close(self):
        shutil.rmtree(self.dir, ignore_errors=True)


def file_order(reads, contig=None):
    """the records in the order of the coordinate-sorted BAM (gen.c10_counttable.write_bam), optionally of one contig"""
    from gen import c11_reads as R
    idx = sorted(range(len(reads)), key=lambda i: (reads[i]['contig'], reads[i]['pos'], i))
    return [reads[i] for i in idx if contig is None or R.CONTIG_NAMES[reads[i]['contig']] == contig]


def bed_allowed(opt):
    """-bedfile goes with every feature mode except by-value and bin (those interactions are undocumented: the by-value
    key becomes the tag NAME, and -bin overrides the region)"""
    return opt['features'] not in ('joined+byValue', 'joined+bin')


def table_configs(max_distance):
    """[(opt, contig, bed, sample_tags, extra)] - the level-2 space, deterministic order.
    extra: {} or one of {'files': 'split2'}, {'head': n}, {'out': kind}, {'noNames': True}"""
    from gen import c11_reads as R
    out = []
    for opt in R.option_sets(max_distance):
        d = R.distance(opt)
        for contig in (None, 'chr1', 'chr2'):
            for bed in (False, True):
                if bed and not bed_allowed(opt):
                    continue
                out.append((opt, contig, bed, 'SM,ri', {}))
                if d <= 1:
                    out.append((opt, contig, bed, 'SM', {}))
                if d <= 1 and contig != 'chr2':
                    out.append((opt, contig, bed, 'SM,ri', {'files': 'split2'}))
                    out.append((opt, contig, bed, 'SM', {'files': 'split2'}))
                    for h in HEADS:
                        out.append((opt, contig, bed, 'SM,ri', {'head': h}))
                    for o in OUTS:
                        out.append((opt, contig, bed, 'SM', {'out': o}))
                    out.append((opt, contig, bed, 'SM', {'noNames': True}))
                    out.append((opt, contig, bed, 'SM,chrom', {}))
    return out


def table_to_dict(df):
    """gen.c10_counttable.table_to_dict (same canonical form), but in one pass over the value matrix: the per-read tables
    have a thousand columns"""
    import numpy as np
    from gen.c10_counttable import _plain, _tup
    out = {}
    if df.shape[0] == 0 or df.shape[1] == 0:
        return out
    vals = df.to_numpy(dtype=float, na_value=float('nan'))
    cols = [tuple(_plain(x) for x in _tup(c)) for c in df.columns.tolist()]
    rows = [tuple(_plain(x) for x in _tup(r)) for r in df.index.tolist()]
    for i, j in np.argwhere(~np.isnan(vals)):
        k = (cols[j], rows[i])
        out[k] = out.get(k, 0.0) + float(vals[i, j])
    return out


def _str_cells(cells, merge):
    out = {}
    for (sm, k), v in cells.items():
        kk = (tuple(str(x) for x in sm), tuple(str(x) for x in k))
        out[kk] = merge(out[kk], v) if kk in out else v
    return out


def _read_written(path, kind, n_levels):
    """the table a -o run wrote, as {(sample tuple, key tuple): float}; csv keys are strings"""
    import pandas as pd
    from gen import c10_counttable as G
    if kind.startswith('csv'):
        df = pd.read_csv(path, index_col=list(range(n_levels)), dtype=str, keep_default_na=False, na_values=[''])
        df = df.astype(float)
        df.columns = [str(c) for c in df.columns]
    else:
        df = pd.read_pickle(path)
    return table_to_dict(df)


def _run_table(files, which, opt, contig, bed, sample_tags, extra, n_levels=None):
    from gen import c10_counttable as G
    from gen import c11_reads as R
    from singlecellmultiomics.bamProcessing import bamToCountTable as T
    import copy
    paths = files.bam2[which] if extra.get('files') == 'split2' else [files.bam[which]]
    no_names = extra.get('noNames', sample_tags == 'SM,ri')
    args = R.make_args(opt, alignmentfiles=list(paths), contig=contig, bedfile=(files.bed if bed else None),
                       blacklist=(files.blacklist if opt['blacklist'] else None), sampleTags=sample_tags,
                       noNames=no_names, head=extra.get('head'))
    kind = extra.get('out')
    if kind is None:
        return table_to_dict(G.run_table(args))
    files.n_out += 1
    ext = kind.split('+')[0]
    path = os.path.join(files.dir, f'out{files.n_out}.{ext}')
    a = copy.copy(args)
    a.o = path
    a.bulk = kind.endswith('+bulk')
    with G.quiet():
        T.create_count_table(a, return_df=False)
    try:
        if not os.path.exists(path):
            raise FileNotFoundError(f'-o {ext}: no file written')
        return _read_written(path, ext, n_levels)
    finally:
        if os.path.exists(path):
            os.unlink(path)


def check_table(files, opt, contig, bed, sample_tags, extra=None):
    from gen import c11_reads as R
    from oracles import c11_oracle as O
    extra = extra or {}
    out = []
    which = 'full' if sample_tags == 'SM,ri' else 'clean'
    stags = tuple(sample_tags.split(','))
    bl_idx = R.BLACKLIST_IDX if opt['blacklist'] else None
    kind = extra.get('out')
    n_levels = None
    if sample_tags != 'SM,ri':
        exp0, amb0 = O.expected_table(files.sets[which], opt, R.CONTIG_NAMES, bl_idx, stags, contig=contig,
                                      bed=(R.BED if bed else None))
        if not exp0 and (kind is not None or len(stags) > 1):
            # an empty table: nothing to read back from a file; naming two column levels of an empty frame raises in
            # pandas (outside this property, see ASSUMPTIONS)
            return [], 0, 0
        if exp0:
            n_levels = len(next(iter(exp0))[1])
    site = 'create_count_table' + (f':-o-{kind.replace(".", "-")}' if kind else '')
    try:
        got = _run_table(files, which, opt, contig, bed, sample_tags, extra, n_levels)
    except Exception as ex:
        out.append((f'{site}:exception:{type(ex).__name__}', {'error': repr(ex), 'bam': which}))
        if which != 'full':
            return out, 0, 0
        which = 'mapped'      # keep judging the rest of the table: same reads minus the unmapped ones
        try:
            got = _run_table(files, which, opt, contig, bed, sample_tags, extra, n_levels)
        except Exception as ex2:
            out.append((f'{site}:exception:{type(ex2).__name__}', {'error': repr(ex2), 'bam': which}))
            return out, 0, 0
    reads = files.sets[which]
    exp, amb = O.expected_table(reads, opt, R.CONTIG_NAMES, bl_idx, stags, contig=contig,
                                bed=(R.BED if bed else None))
    compared = 0
    if sample_tags == 'SM,ri':
        head = extra.get('head')
        must = None          # with -head: the reads that have to be there (None = all)
        if head is not None:
            site += ':head'
            must = set() if bed else {rd['ri'] for rd in file_order(reads, contig)[:head]}
        from oracles.c11_oracle import MODES
        key_class = ':single-tags+splitFeatures+bedfile' if (bed and opt['splitFeatures'] and not MODES[opt['features']][0]) else ''
        got_by, exp_by = collections.defaultdict(dict), collections.defaultdict(dict)
        for (sm, k), v in got.items():
            got_by[sm][(sm, k)] = v
        for (sm, k), v in exp.items():
            exp_by[sm][(sm, k)] = v
        known = set()
        for rd in reads:
            sm = (rd['SM'], rd['ri'])
            known.add(sm)
            if sm in amb:
                continue
            g = {k: v for k, v in got_by.get(sm, {}).items() if abs(v) > TOL}
            if must is not None and rd['ri'] not in must and not g:
                continue          # beyond the first N records and not counted: allowed
            compared += 1
            excl = []
            cname = R.CONTIG_NAMES[rd['contig']]
            if contig is not None and cname != contig:
                excl.append('contig-selection')
            elif bed and not any(c == cname and s <= rd['pos'] and rd['pos'] + 1 <= e for c, s, e, _ in R.BED):
                excl.append('bed-region')
            out.extend(classify(site, rd, opt, bl_idx, g, exp_by.get(sm, {}), excl, key_class))
        stray = sorted(set(got_by) - known, key=repr)
        if stray:
            out.append((f'{site}:column-of-no-read', {'columns': [list(s) for s in stray][:5]}))
    else:
        assert not amb
        merge = lambda a, b: {x + y for x in a for y in b}
        if kind and kind.endswith('+bulk'):
            # "sum the counts of all sampleTags into a single column" (named Bulkseq by the program; the name is not judged)
            tot = {}
            for (sm, k), v in exp.items():
                tot[k] = merge(tot[k], v) if k in tot else v
            exp = {(('bulk',), k): v for k, v in tot.items()}
            cols = {sm for sm, _ in got}
            if len(cols) > 1:
                out.append((f'{site}:bulk-table-has-several-columns', {'columns': sorted(map(repr, cols))[:5]}))
            got = {(('bulk',), k): v for (sm, k), v in got.items()}
        if kind and kind.startswith('csv'):
            exp = _str_cells(exp, merge)
            got = _str_cells(got, lambda a, b: a + b)
        label = 'pooled-samples' if not kind else 'written-table'
        from oracles.c11_oracle import MODES
        if bed and opt['splitFeatures'] and not MODES[opt['features']][0]:
            label += ':single-tags+splitFeatures+bedfile'
        for cell in sorted(set(got) | set(exp), key=repr):
            compared += 1
            if not _ok(got.get(cell, 0.0), exp.get(cell, {0.0})):
                out.append((f'create_count_table:{label}:cell-total-differs',
                            {'cell': [list(cell[0]), list(cell[1])], 'got': got.get(cell, 0.0),
                             'expected': sorted(exp.get(cell, {0.0}))[:6], 'extra': extra}))
                break
    seen, dedup = set(), []
    for sig, d in out:
        if sig not in seen:
            seen.add(sig)
            dedup.append((sig, d))
    return dedup, compared, len(amb)


# ------------------------------------------------------------------------------------------------ engine hooks

def _d2(tier):
    return 2 if tier == 'quick' else 3


def _extra_label(extra):
    return ','.join(f'{k}={v}' for k, v in sorted(extra.items())) or '-'


def run_shard(shard, tier, acc):
    from gen import c11_reads as R
    from oracles import c11_oracle as O
    if shard[0] == 'read':
        wide = 3
        if tier == 'quick':
            opts = R.option_sets(2, core_max_distance=3)
        else:
            opts = R.option_sets(wide, core_max_distance=len(R.DIMS))
        opts = opts[shard[1]::N_READ_SHARDS]
        hdr, reads, pys = _level1_setup()
        for opt in opts:
            args = R.make_args(opt, level1=True)
            # beyond the distance bound only the first version's space: core option values x core reads
            core_only = tier != 'quick' and R.distance(opt) > wide
            mode = opt['features'] + ('+split' if opt['splitFeatures'] else '')
            n = n_new = 0
            for i, (rd, pr) in enumerate(zip(reads, pys)):
                if core_only and not rd['core']:
                    continue
                viols, exp = check_read(rd, pr, opt, args)
                case = {'level': 'read', 'read_index': i, 'opt': opt}
                amb = exp == O.AMBIGUOUS
                acc.case(case, nontrivial=(not amb and _nontrivial(rd, opt, exp)), outcome=_outcome(exp))
                n += 1
                n_new += not rd['core']
                for sig, d in viols:
                    acc.violation(sig, case, d)
            acc.count(f'level1_cases:features={mode}', n)
            acc.count('level1_cases:read_with_audit_letter', n_new)
    elif shard[0] == 'table':
        cfgs = table_configs(_d2(tier))
        mine = [c for j, c in enumerate(cfgs) if j % N_TABLE_SHARDS == shard[1]]
        if not mine:
            return
        files = Files()
        try:
            for opt, contig, bed, stags, extra in mine:
                viols, compared, namb = check_table(files, opt, contig, bed, stags, extra)
                case = {'level': 'table', 'opt': opt, 'contig': contig, 'bed': bed, 'sampleTags': stags, 'extra': extra}
                acc.case(case, transitions=len(files.reads), nontrivial=True,
                         outcome=f'table:{stags}:contig={contig}:bed={bed}:{opt["features"]}'
                                 f'{"+split" if opt["splitFeatures"] else ""}:{_extra_label(extra)}')
                acc.count('table_reads_compared', compared)
                acc.count('table_reads_ambiguous_not_compared', namb)
                for sig, d in viols:
                    acc.violation(sig, case, d)
        finally:
            files.close()
    else:
        raise ValueError(shard)


def replay(case):
    if case['level'] == 'read':
        hdr, reads, pys = _level1_setup()
        i = case['read_index']
        return check_read(reads[i], pys[i], case['opt'])[0]
    files = Files()
    try:
        return check_table(files, case['opt'], case['contig'], case['bed'], case['sampleTags'], case.get('extra'))[0]
    finally:
        files.close()
