#!/venv/bin/python
"""Run the checks against one BEHAVIOUR-PRESERVING change and file the outcome under /verif/benign/<name>/.

usage: tools/benign_verify.py <PROP e.g. C09> <out_dir with patch.diff equiv.py expected.json notes.md> <worktree>
                              [--checks=C09,C06] [--tier=quick] [--skip-suite] [--name=...]

A behaviour-preserving change must leave every check silent (exit 0, no VIOLATION line, no harness error).
Steps (all in the scratch worktree, /repo is never touched):
  1. apply the patch; equiv.py (differential test against values recorded from the unchanged code) must exit 0
  2. repository suite with the patch: must be 81 passed
  3. every check whose anchored files are touched by the patch (plus the property's own) against the patched
     worktree (VERIF_REPO): exit code must be 0
  4. revert the worktree; write benign/<name>/{patch.diff,notes.md,meta.json}
"""
import json
import os
import re
import shutil
import subprocess
import sys
import time

VERIF = os.path.dirname(os.path.dirname(os.path.abspath(__file__)))


def sh(cmd, cwd=None, env=None, timeout=7200):
    p = subprocess.run(cmd, shell=True, cwd=cwd, env=env, capture_output=True, text=True, timeout=timeout)
    return p.returncode, p.stdout + p.stderr


def anchored():
    m = {}
    for line in open(os.path.join(VERIF, 'properties.jsonl')):
        d = json.loads(line)
        m[d['id']] = set(d['anchors']['files'])
    return m


def main():
    prop, out_dir, wt = sys.argv[1:4]
    skip_suite = '--skip-suite' in sys.argv
    tier = 'quick'
    checks = None
    name = f"{prop}-b{os.path.basename(os.path.normpath(out_dir))}"
    for a in sys.argv[4:]:
        if a.startswith('--checks='):
            checks = a.split('=', 1)[1].split(',')
        if a.startswith('--tier='):
            tier = a.split('=', 1)[1]
        if a.startswith('--name='):
            name = a.split('=', 1)[1]
    patch = os.path.join(out_dir, 'patch.diff')
    equiv = os.path.join(out_dir, 'equiv.py')
    touched = re.findall(r'^\+\+\+ b/(\S+)', open(patch).read(), re.M)
    if checks is None:
        checks = [prop] + sorted(p for p, files in anchored().items() if p != prop and files & set(touched))
    res = {'property': prop, 'name': name, 'kind': 'behaviour-preserving', 'touched': touched,
           'verified_at': time.strftime('%Y-%m-%d %H:%M:%S')}
    sh('git checkout -- . && git clean -fdq data', cwd=wt)
    rc, out = sh(f'git apply {patch}', cwd=wt)
    if rc != 0:
        print('PATCH DOES NOT APPLY', out)
        sys.exit(2)
    try:
        if os.path.exists(equiv):
            rce, oute = sh(f'/venv/bin/python {equiv}', cwd=wt)
            res['equiv_exit_with_change'] = rce
            res['equiv_output_tail'] = oute.strip().splitlines()[-2:]
        if not skip_suite:
            rcs, outs = sh('/venv/bin/python -m pytest -q -p no:cacheprovider --timeout=900 2>&1 | tail -3', cwd=wt)
            m = re.search(r'(\d+) passed', outs)
            f = re.search(r'(\d+) failed', outs)
            res['suite'] = {'passed': int(m.group(1)) if m else 0, 'failed': int(f.group(1)) if f else 0}
        res['checks'] = {}
        env = dict(os.environ, VERIF_REPO=wt, VERIF_EVIDENCE_DIR=os.path.join(wt, '_ev'))
        for c in checks:
            t = time.time()
            rcc, outc = sh(f'./check {c} --tier {tier}', cwd=VERIF, env=env)
            sigs = re.findall(r'signature=(\S+)', outc)
            r = {'exit': rcc, 'tier': tier, 'wall_s': round(time.time() - t, 1)}
            if rcc != 0:
                r['signatures'] = sigs[:12]
                r['lines'] = [l for l in outc.splitlines() if 'ERROR' in l or 'VIOLATION' in l][:6]
            res['checks'][c] = r
    finally:
        sh('git checkout -- . && git clean -fdq data; rm -rf _ev', cwd=wt)
    res['alarms'] = [c for c, r in res['checks'].items() if r['exit'] != 0]
    res['silent'] = not res['alarms']
    dst = os.path.join(VERIF, 'benign', name)
    os.makedirs(dst, exist_ok=True)
    for f in ('patch.diff', 'notes.md', 'equiv.py'):
        if os.path.exists(os.path.join(out_dir, f)):
            shutil.copy(os.path.join(out_dir, f), os.path.join(dst, f))
    json.dump(res, open(os.path.join(dst, 'meta.json'), 'w'), indent=1, sort_keys=True)
    print(json.dumps({k: res[k] for k in ('name', 'touched', 'equiv_exit_with_change', 'suite', 'alarms') if k in res}))
    for c, r in res['checks'].items():
        print(' ', c, r['exit'], r['wall_s'], r.get('lines', ''))


if __name__ == '__main__':
    main()
