"""Driving the real bamtagmultiome command-line entry point from a check."""
import contextlib
import io
import os
import sys

from . import bind
from .sched import Schedule, patched


@contextlib.contextmanager
def silenced():
    """silence python-level and C-level stdout/stderr of the code under test"""
    sys.stdout.flush()
    sys.stderr.flush()
    devnull = os.open(os.devnull, os.O_WRONLY)
    so, se = os.dup(1), os.dup(2)
    os.dup2(devnull, 1)
    os.dup2(devnull, 2)
    old_out, old_err = sys.stdout, sys.stderr
    sys.stdout = io.TextIOWrapper(os.fdopen(os.dup(devnull), 'wb'))
    sys.stderr = io.TextIOWrapper(os.fdopen(os.dup(devnull), 'wb'))
    try:
        yield
    finally:
        try:
            sys.stdout.close()
            sys.stderr.close()
        except Exception:
            pass
        sys.stdout, sys.stderr = old_out, old_err
        os.dup2(so, 1)
        os.dup2(se, 2)
        os.close(so)
        os.close(se)
        os.close(devnull)


def tagger_module():
    from singlecellmultiomics.universalBamTagger import bamtagmultiome as tm
    for name in ('sleep', 'Pool', 'run_multiome_tagging_cmd', 'tag_multiome_multi_processing', 'generate_tasks',
                 'get_contigs_with_reads', 'merge_bams', 'write_status'):
        bind.seam(tm, name)
    return tm


def run_tagger(argv, order=None, quiet=True, real_pool=False, catch_interrupt=False):
    """Run run_multiome_tagging_cmd(argv).  With --multiprocess the Pool is a ScheduledPool whose completion
    order is `order` (None = submission order) unless real_pool.  Returns (exception or None, Schedule)."""
    tm = tagger_module()
    sch = Schedule(order=order, isolate=True, pending='run')
    saved_sleep = tm.sleep
    tm.sleep = lambda *_a, **_k: None
    exc = None
    try:
        ctx = silenced() if quiet else contextlib.nullcontext()
        with ctx:
            try:
                if real_pool:
                    tm.run_multiome_tagging_cmd(list(argv))
                else:
                    with patched(tm, sch, names=('Pool',)):
                        tm.run_multiome_tagging_cmd(list(argv))
            except BaseException as e:   # SystemExit from argparse included
                if isinstance(e, KeyboardInterrupt) and not catch_interrupt:
                    raise
                exc = e
    finally:
        tm.sleep = saved_sleep
    return exc, sch


def run_tagger_subprocess(argv, timeout=600):
    """Free-running run in a fresh interpreter with the REAL multiprocessing.Pool (engine workers are daemonic
    and may not have children). Returns None on success or an error string."""
    import subprocess
    verif = os.path.dirname(os.path.dirname(os.path.abspath(__file__)))
    p = subprocess.run([sys.executable, '-m', 'mc.tagger'] + list(argv), cwd=verif, stdout=subprocess.DEVNULL,
                       stderr=subprocess.PIPE, timeout=timeout)
    if p.returncode != 0:
        return f'exit {p.returncode}: {p.stderr.decode(errors="replace")[-400:]}'
    return None


if __name__ == '__main__':
    bind.bind()
    exc, _ = run_tagger(sys.argv[1:], real_pool=True)
    if exc is not None:
        sys.stderr.write(f'{type(exc).__name__}: {exc}\n')
        sys.exit(1)
    sys.exit(0)
