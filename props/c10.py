"""C10 - binned count tables: each counted read lands in exactly the bins containing it.

Four levels, all exhaustive over their stated space, all against the real code:

arith   both copies of coordinate_to_bins / coordinate_to_sliding_bin_locations (bamToCountTable, utils.binning):
        EVERY point 0..N x bin size 1..B x increment 1..bin.
assign  bamToCountTable.assignReads on one in-memory read: every coordinate 0..L+2 (0, all multiples of b, b+-1,
        last base, beyond the end) x every (b, s<=b) x keepOverBounds x bin tag {DS, another tag, a read
        attribute} x weight {unpaired = 1, mate of a mapped pair = 0.5}; the read sits on the SECOND contig whose
        length differs from the first one.
table   create_count_table(args, return_df=True) with -bin / -sliding / --keepOverBounds on BAM files synthesised
        under /dev/shm: two contigs of different length, one read (or one pair) for EVERY coordinate 0..len+2 of each
        contig, two samples; x every (b, s<=b) x keepOverBounds x bin tag {DS, XP} x weights {unpaired, pairs
        halved, pairs not divided} x bin tag implicit / listed among the joined features.  Every BAM additionally holds a
        counted read without the DS tag, one without XP/ZS, a qc-failed and an unmapped read; unpaired reads alternate
        strand.  On top of that product: EVERY option vector that differs from the default in at most 1 (quick) / 2
        (thorough, first contig set) of the dimensions bin tag {DS, XP, reference_start, ZS string typed} x joined
        feature list {chrom | chrom,<bin> | <bin>,chrom | chrom,DA | DA,<bin>,chrom | DA} x sample tags {SM | SM,LY | LY}
        x -contig {none, each contig} x -head {none, 0, 3, half} x --noNames x --splitFeatures x -byValue x
        --doNotDivideFragments x -sliding given explicitly although equal to the bin x result {returned DataFrame,
        pickle written with -o, pickle with --bulk}; increments ABOVE the bin size (b+1, 2b); and a bin size longer than
        every contig (the table is empty unless --keepOverBounds).
        table2: two alignment files in one call whose headers disagree (lengths, an extra contig), both orders.
split   split_double_BAM.main() (the third anchored file; it takes coordinate_to_bins(DS, b, b)[0] as THE bin of a pair):
        one pair for every (cell, DS coordinate 0..len+2) on two contigs, one cell per genomic bin whose probability row
        is 1 for exactly that bin and 0 elsewhere, every bin size 1..B.
arith and assign also visit realistic magnitudes (bin sizes 7..1e6, coordinates around 2^24, 248956422 and 2^31-1).

Oracle (from the property statement, no formula shared with the code): the defining set
{[i*s, i*s+b) : i*s <= p < i*s+b} found by testing every candidate i; without sliding additionally the single bin
k = p // b.  A window is "inside the contig" when 0 <= start and end <= contig length (the --keepOverBounds help:
bins with start<0 or end > chromosome length go over the bounds).  The whole table is compared entry by entry,
which implies the total and the no-double-count clauses.  -head: the table must be the table of SOME prefix of the
reads in file order (how many reads "the first N" are is not C10's business).  Index level names, when set, must not
lie: start/end on the last two levels, a feature level named after its own tag.  split: a pair whose own bin
[k*b,(k+1)*b), k = DS // b, has probability 1 must be written to splitted_A, probability 0 to splitted_B.
Increments above the bin size are outside the property's quantifier (s <= b) but inside its wording: there a refusal
(exception) is accepted, a produced table / window list is still compared.
"""
import collections
import contextlib
import io
import itertools
import os
import shutil
import sys
import tempfile

ID = 'C10'
DESIGN_REF = 'DESIGN.md section 3, C10; section 4 lead #9'
RULE = ('arith: exhaustive product point x bin size x increment<=bin on both copies of coordinate_to_bins and '
        'coordinate_to_sliding_bin_locations, non-trivial when the point lies on a window boundary (p mod s == 0 or '
        '(p-b) mod s == 0); assign: exhaustive coordinate x (b,s) x keepOverBounds x bin tag x weight through '
        'assignReads, non-trivial when at least one containing window leaves the contig or the coordinate is on a '
        'boundary; table: one BAM per (contig lengths, pairing) holding every coordinate, x (b,s) x keepOverBounds x '
        'bin tag x fragment division x feature list through create_count_table, non-trivial when some window is over '
        'the contig bounds and the expected table has >= 2 bins; on top every option vector differing from the default in '
        '<= 1 (quick) / <= 2 (thorough, first contig set) of 11 option dimensions; arith/assign/table also with increments '
        'above the bin (refusal accepted); arith-large / assign-large: boundary clusters at realistic magnitudes; '
        'split: split_double_BAM.main() with one cell per genomic bin, non-trivial when the contig has >= 2 bins; '
        'states = distinct cases')
ASSUMPTIONS = [
    'bin size >= 1, sliding increment 1 <= s <= b (the quantifier of the property), coordinates >= 0; increments b < s <= 2b '
    'are explored too but there an exception (refusal) is accepted',
    'reads used are plain counted reads (mapped, not qc-failed, default filters); their weights are the documented '
    '1 per unpaired read, 0.5 per mate of a pair with both mates mapped, 1 per read with --doNotDivideFragments, the value '
    'of the tag with -byValue (only used with unpaired reads); a qc-failed and an unmapped read are present and never counted',
    'both mates of a pair carry the same bin-tag value (as the taggers write DS)',
    'a window is inside the contig iff start >= 0 and end <= contig length (--keepOverBounds help text)',
    'a read that lacks the bin tag has no coordinate and lands in no bin',
    'feature values contain no feature delimiter, so --splitFeatures must not change the table; --splitFeatures together '
    'with -byValue (refused by the tool) and feature lists consisting of the bin tag only are not generated',
    '-head: only "the table is that of a prefix of the reads in file order" is demanded',
    'split_double_BAM: probabilities are 0 or 1 (the random draw is then immaterial; numpy is seeded anyway), -mapq 0, no '
    'duplicates, no --interpolation; a pair whose bin row and cell column exist is written to exactly one of the two outputs',
]

COPIES = ('bamToCountTable', 'utils.binning')
ASSIGN_TAGS = ('DS', 'XP', 'reference_start')
TABLE_TAGS = ('DS', 'XP')

# option dimensions of the table level; the first value of each is the default
DIMS = (
    ('tag', ('DS', 'XP', 'reference_start', 'ZS')),
    ('feats', ('chrom', 'chrom,@', '@,chrom', 'chrom,DA', 'DA,@,chrom', 'DA')),       # @ = the bin tag
    ('samples', ('SM', 'SM,LY', 'LY')),
    ('contig', (None, 'chr1', 'chr2')),
    ('head', (None, 0, 3, 'half')),
    ('noNames', (False, True)),
    ('split', (False, True)),
    ('byValue', (None, 'XV')),
    ('dnd', (False, True)),
    ('slide', ('implicit', 'explicit')),
    ('out', ('df', 'pickle', 'pickle+bulk')),
)
DEFAULT_OPT = {k: v[0] for k, v in DIMS}
LARGE_ANCHORS = (2 ** 24, 248956422, 2 ** 31 - 1)
LARGE_BINS = (7, 30, 1000, 50000, 100000, 1000000)


def bounds(tier):
    dims = {k: [str(x) for x in v] for k, v in DIMS}
    large = {'anchors': list(LARGE_ANCHORS), 'bins': list(LARGE_BINS),
             'increments': 'b, b/2, b/4, 3b/10, b-1, 7, 2b, b+1 (those with b/s <= 200)',
             'points': 'anchor+d, (anchor//s)*s+d, (anchor//b)*b+d, d in -2..2'}
    if tier == 'quick':
        return {'arith': {'N': 120, 'B': 24, 'increment': '1..2*bin (above bin: refusal accepted)', 'copies': list(COPIES)},
                'arith-large': large,
                'assign': {'contig_lengths': [12, 13], 'coordinates': '0..L+2', 'B': 12, 'increment': '1..bin, bin+1, 2*bin',
                           'keepOverBounds': [False, True], 'bin_tags': list(ASSIGN_TAGS), 'weights': ['single', 'mate']},
                'assign-large': {'contig_length': 248956422, 'bins': [1000, 100000], 'increments': 'b, b/2, 3b/10'},
                'table': {'contig_sets': [[12, 7]], 'coordinates': '0..len+2 on every contig', 'B': 8,
                          'bin_sizes': '1..B and longest contig + 1 (empty table unless keepOverBounds)',
                          'increment': '1..bin, bin+1, 2*bin', 'keepOverBounds': [False, True], 'bin_tags': list(TABLE_TAGS),
                          'layouts': ['single', 'paired', 'paired+doNotDivideFragments'],
                          'feature_lists': ['chrom', 'chrom,<binTag>'],
                          'option_dimensions': dims, 'option_vectors': {'[12, 7]': 'all with <= 1 dimension off default'},
                          'extra_reads_per_contig': ['no DS tag', 'no XP/ZS tag', 'qcfail', 'unmapped']},
                'split': {'contig_sets': [[23, 9]], 'B': 12, 'coordinates': '0..len+2', 'cells': 'one per genomic bin'}}
    return {'arith': {'N': 600, 'B': 60, 'increment': '1..2*bin (above bin: refusal accepted)', 'copies': list(COPIES)},
            'arith-large': large,
            'assign': {'contig_lengths': [23, 24, 25], 'coordinates': '0..L+2', 'B': 24, 'increment': '1..bin, bin+1, 2*bin',
                       'keepOverBounds': [False, True], 'bin_tags': list(ASSIGN_TAGS), 'weights': ['single', 'mate']},
            'assign-large': {'contig_length': 248956422, 'bins': [1000, 100000], 'increments': 'b, b/2, 3b/10'},
            'table': {'contig_sets': [[12, 7], [24, 13], [30, 9]], 'coordinates': '0..len+2 on every contig', 'B': 16,
                      'bin_sizes': '1..B and longest contig + 1 (empty table unless keepOverBounds)',
                      'increment': '1..bin, bin+1, 2*bin', 'keepOverBounds': [False, True], 'bin_tags': list(TABLE_TAGS),
                      'layouts': ['single', 'paired', 'paired+doNotDivideFragments'],
                      'feature_lists': ['chrom', 'chrom,<binTag>'],
                      'option_dimensions': dims,
                      'option_vectors': {'[12, 7]': 'all with <= 2 dimensions off default',
                                         'other sets': 'all with <= 1 dimension off default'},
                      'extra_reads_per_contig': ['no DS tag', 'no XP/ZS tag', 'qcfail', 'unmapped']},
            'split': {'contig_sets': [[23, 9], [40, 16]], 'B': 24, 'coordinates': '0..len+2', 'cells': 'one per genomic bin'}}


def shards(tier):
    b = bounds(tier)
    out = []
    for copy in COPIES:
        for bs in range(1, b['arith']['B'] + 1):
            out.append(('arith', copy, bs, b['arith']['N']))
        out.append(('arith-large', copy))
    for L in b['assign']['contig_lengths']:
        for bs in range(1, b['assign']['B'] + 1):
            out.append(('assign', L, bs))
    out.append(('assign-large',))
    for n, lens in enumerate(b['table']['contig_sets']):
        depth = 2 if (tier != 'quick' and n == 0) else 1
        for layout in ('single', 'paired'):
            for bs in sorted(set(range(1, b['table']['B'] + 1)) | {max(lens) + 1}):   # + a bin longer than every contig
                out.append(('table', tuple(lens), layout, bs, depth))
    for lens in b['split']['contig_sets']:
        for bs in range(1, b['split']['B'] + 1):
            out.append(('split', tuple(lens), bs))
    return out


def increments(b):
    """1..b (the quantifier) and two increments above the bin size"""
    return list(range(1, b + 1)) + sorted({b + 1, 2 * b})


# ---------------------------------------------------------------------------------------------- oracle

def windows_containing(p, b, s):
    """The defining set {[i*s, i*s+b) : i*s <= p < i*s+b}, every candidate index tested directly.
    (i*s <= p < i*s+b implies (p-b)/s < i <= p/s: the candidate range below is a superset of that.)"""
    out = []
    for i in range((p - b) // s - 2, p // s + 3):
        st = i * s
        if st <= p < st + b:
            out.append((st, st + b))
    if s == b:
        k = p // b
        assert out == [(k * b, (k + 1) * b)], (p, b, s, out)     # the two clauses of the statement agree
    return out


def inside(win, length):
    return win[0] >= 0 and win[1] <= length


def mode(b, s):
    if s > b:
        return 'increment-above-bin'
    return 'nosliding' if s == b else 'sliding'


# ---------------------------------------------------------------------------------------------- arith

def _copy_module(copy):
    from mc.bind import seam
    if copy == 'bamToCountTable':
        from singlecellmultiomics.bamProcessing import bamToCountTable as m
    else:
        from singlecellmultiomics.utils import binning as m
    return seam(m, 'coordinate_to_bins'), seam(m, 'coordinate_to_sliding_bin_locations')


def check_arith(copy, p, b, s, fns=None):
    f_bins, f_loc = fns or _copy_module(copy)
    exp = windows_containing(p, b, s)
    md = mode(b, s)
    out = []
    try:
        got = [(int(x), int(y)) for x, y in f_bins(p, b, s)]
    except Exception as ex:
        if s <= b:
            out.append((f'{copy}.coordinate_to_bins:exception:{type(ex).__name__}', repr(ex)))
        got = None
    if got is not None:
        site = f'{copy}.coordinate_to_bins:{md}'
        if any(not (x <= p < y) for x, y in got):
            out.append((f'{site}:window-not-containing-coordinate', {'got': got[:6], 'expected': exp[:6]}))
        if any(w not in got for w in exp):
            out.append((f'{site}:containing-window-missing', {'got': got[:6], 'expected': exp[:6]}))
        if len(set(got)) != len(got):
            out.append((f'{site}:window-listed-twice', {'got': got[:6], 'expected': exp[:6]}))
        if any((y - x) != b or x % s for x, y in got):
            out.append((f'{site}:malformed-window', {'got': got[:6], 'expected': exp[:6]}))
    if not exp:
        return out, exp            # only with s > b: no overlapping window, "first/last overlapping window" undefined
    try:
        st, en, sid, eid = (int(v) for v in f_loc(p, b, s))
        site = f'{copy}.coordinate_to_sliding_bin_locations:{md}'
        if (st, sid) != (exp[0][0], exp[0][0] // s):
            out.append((f'{site}:first-overlapping-window-wrong', {'got': [st, en, sid, eid], 'expected_windows': exp[:6]}))
        if (en, eid) != (exp[-1][1], exp[-1][0] // s):
            out.append((f'{site}:last-overlapping-window-wrong', {'got': [st, en, sid, eid], 'expected_windows': exp[-6:]}))
    except Exception as ex:
        if s <= b:
            out.append((f'{copy}.coordinate_to_sliding_bin_locations:exception:{type(ex).__name__}', repr(ex)))
    return out, exp


def large_increments(b):
    cand = [b, b // 2, b // 4, (3 * b) // 10, b - 1, 7, 2 * b, b + 1]
    return sorted({s for s in cand if s >= 1 and b // s <= 200})


def large_points(b, s):
    pts = set()
    for a in LARGE_ANCHORS:
        for base in (a, (a // s) * s, (a // b) * b):
            for d in range(-2, 3):
                pts.add(base + d)
    return sorted(pts)


# ---------------------------------------------------------------------------------------------- assign

def _assign_read(G, hdr, p, tag, kind):
    tags = [('SM', 'A')]
    pos = 0
    if tag == 'reference_start':
        pos = p
    else:
        tags.append((tag, p))
        # a decoy under the other tag name: binning the wrong tag would be visible
        tags.append(('XP' if tag == 'DS' else 'DS', p + 1))
    return G.mk_read(hdr, 'r', contig_index=1, pos=pos, cigar='4M', tags=tags, paired=(kind == 'mate'))


def check_assign(L, p, b, s, keep, tag, kind):
    from gen import c10_counttable as G
    from singlecellmultiomics.bamProcessing import bamToCountTable as T
    other = L + b + 5          # the first contig is longer: using its length would keep windows beyond chr2
    hdr = G.header([('chr1', other), ('chr2', L)])
    read = _assign_read(G, hdr, p, tag, kind)
    args = G.default_args(bin=b, sliding=s, keepOverBounds=keep, binTag=tag, joinedFeatureTags='chrom')
    args.ref_lengths = {'chr1': other, 'chr2': L}
    w = 0.5 if kind == 'mate' else 1.0
    wins = windows_containing(p, b, s)
    exp = {}
    for win in wins:
        if keep or inside(win, L):
            exp[(('A',), ('chr2', win[0], win[1]))] = w
    ct = collections.defaultdict(collections.Counter)
    try:
        T.assignReads(read, ct, args, True, ['chrom', tag], ['SM'])
    except Exception as ex:
        if s > b:
            return [], wins, exp
        return [(f'assignReads:exception:{type(ex).__name__}', repr(ex))], wins, exp
    got = G.counter_to_dict(ct)
    return _diff('assignReads', got, exp, b, s, keep, lambda key: L if key[0] == 'chr2' else -1), wins, exp


def _diff(site, got, exp, b, s, keep, length_of):
    """Classify every differing table entry; one (signature, detail) per clause.
    length_of(key) -> length of the contig the key belongs to, -1 if unknown contig, None if the key names no contig."""
    md = mode(b, s)
    found = {}
    for k in sorted(set(got) | set(exp), key=repr):
        g, e = got.get(k, 0.0), exp.get(k, 0.0)
        if g == e:
            continue
        sample, key = k
        clause = None
        if len(key) < 3 or not all(isinstance(x, int) for x in key[-2:]):
            clause = 'malformed-table-key'
        else:
            st, en = key[-2], key[-1]
            ln = length_of(key)
            if (en - st) != b or st % s:
                clause = 'malformed-window'
            elif not keep and g > 0 and ln is not None and not inside((st, en), ln):
                clause = 'window-outside-contig-counted'
            elif g > e:
                clause = 'window-overcounted'       # a read counted in a window not containing it / twice
            else:
                clause = 'window-undercounted'      # a containing window inside the bounds did not get the read
        found.setdefault(clause, {'entry': [list(sample), list(key)], 'got': g, 'expected': e})
    tot_g, tot_e = sum(got.values()), sum(exp.values())
    out = []
    for c, d in found.items():
        d.update({'keepOverBounds': keep, 'got_total': tot_g, 'expected_total': tot_e})
        out.append((f'{site}:{md}:{c}', d))
    # entry-wise equality implies equality of the totals, so a differing total always comes with an entry clause
    assert out or tot_g == tot_e
    return out


# ---------------------------------------------------------------------------------------------- table

def option_vectors(depth, layout, b, s):
    """Every option vector (as the dict of its non-default dimensions) with <= depth dimensions off the default, plus the
    original product bin tag {DS, XP} x fragment division x bin tag listed among the features; without the combinations
    outside the domain (see ASSUMPTIONS) and without those that would repeat another vector."""
    seen, out = set(), []

    def add(ch):
        if ch.get('split') and ch.get('byValue'):
            return                      # refused by the tool
        if ch.get('byValue') and layout != 'single':
            return                      # the weight of a mate under -byValue is not documented
        if ch.get('dnd') and layout == 'single':
            return                      # no pairs: same vector as without
        if ch.get('slide') == 'explicit' and s != b:
            return                      # -sliding is always given explicitly when it differs from the bin
        key = tuple(sorted(ch.items(), key=repr))
        if key not in seen:
            seen.add(key)
            out.append(ch)

    for tag in TABLE_TAGS:
        for dnd in (False, True):
            for feats in ('chrom', 'chrom,@'):
                add({k: v for k, v in (('tag', tag), ('dnd', dnd), ('feats', feats)) if v != DEFAULT_OPT[k]})
    for n in range(0, depth + 1):
        for dims in itertools.combinations(DIMS, n):
            for vals in itertools.product(*[d[1][1:] for d in dims]):
                add({d[0]: v for d, v in zip(dims, vals)})
    return out


def _build_bam(lens, layout, tmpdir):
    from gen import c10_counttable as G
    from gen import c10_rich as R
    hdr = G.header([(f'chr{i + 1}', L) for i, L in enumerate(lens)])
    reads, truth = R.rich_reads(hdr, lens, layout)
    path = os.path.join(tmpdir, f'c10_{"_".join(map(str, lens))}_{layout}.bam')
    truth = R.write_bam_ordered(path, hdr, reads, truth)
    return path, truth


def _contributions(rec, lengths, o, b, s, keep):
    """[(table key, weight)] of one read, and the number of its containing windows that leave the contig"""
    if not rec['counted']:
        return [], 0
    c = rec['coords'][o['tag']]
    if c is None:
        return [], 0                    # no coordinate: in no bin
    if o['byValue']:
        w = float(rec[o['byValue']])
    elif rec['paired'] and not o['dnd']:
        w = 0.5
    else:
        w = 1.0
    feats = [t for t in o['feats'].replace('@', o['tag']).split(',') if t != o['tag'] and t != o['byValue']]
    key = tuple(rec['contig'] if t == 'chrom' else str(rec[t]) for t in feats)
    sample = ('<bulk>',) if o['out'].endswith('bulk') else tuple(rec[t] for t in o['samples'].split(','))
    out, over = [], 0
    for win in windows_containing(c, b, s):
        if not inside(win, lengths[rec['contig']]):
            over += 1
            if not keep:
                continue
        out.append(((sample, key + win), w))
    return out, over


def _run_table(G, args, o, tmpdir):
    import pandas as pd
    from singlecellmultiomics.bamProcessing import bamToCountTable as T
    if o['out'] == 'df':
        return G.run_table(args)
    args.o = os.path.join(tmpdir, 'out.pickle')
    args.bulk = o['out'].endswith('bulk')
    if os.path.exists(args.o):
        os.remove(args.o)
    with G.quiet():
        T.create_count_table(args, return_df=False)
    return pd.read_pickle(args.o)


def _human_names(tag):
    from singlecellmultiomics.bamProcessing import bamToCountTable as T
    names = {tag}
    try:
        if tag in T.TagDefinitions:
            names.add(T.TagDefinitions[tag].humanName)
    except Exception:
        pass
    return names


def _name_clauses(df, o):
    """index level names, when set, must not lie"""
    if o['noNames'] or len(df) == 0:
        return []
    names = list(df.index.names)
    feats = [t for t in o['feats'].replace('@', o['tag']).split(',') if t != o['tag'] and t != o['byValue']]
    nl = len(feats) + 2
    if len(names) != nl:
        return []                       # reported as malformed-table-key by the entry comparison
    bad = []
    for i, nm in enumerate(names):
        if nm is None:
            continue
        want = {'start'} if i == nl - 2 else {'end'} if i == nl - 1 else _human_names(feats[i])
        if nm not in want:
            bad.append({'level': i, 'name': nm, 'acceptable': sorted(want)})
    return bad


def check_table(path, truth, lens, layout, b, s, keep, opt=None, more=(), tmpdir=None):
    """opt: the non-default option dimensions.  more: further (path, truth, lens) files counted in the same call, each read
    judged against the contig lengths of ITS OWN file (two alignment files may give a same-named contig different lengths).
    Returns (violations, expected table, windows over the bounds, outcome label)."""
    from gen import c10_counttable as G
    o = dict(DEFAULT_OPT)
    o.update(opt or {})
    files = [(path, truth, lens)] + list(more)
    tag = o['tag']
    over_kw = {}
    if o['contig'] is not None:
        over_kw['contig'] = o['contig']
    n_reads = sum(1 for f in files for r in f[1] if o['contig'] in (None, r['contig']))
    head = o['head']
    if head == 'half':
        head = n_reads // 2
    if head is not None:
        over_kw['head'] = head
    if o['byValue']:
        over_kw['byValue'] = o['byValue']
    # -sliding is only given when it differs from the bin size ("If nothing is supplied this value equals the bin size"),
    # or, as its own option letter, explicitly although equal
    args = G.default_args(alignmentfiles=[f[0] for f in files], bin=b,
                          sliding=(None if (s == b and o['slide'] == 'implicit') else s), keepOverBounds=keep,
                          binTag=tag, joinedFeatureTags=o['feats'].replace('@', tag), sampleTags=o['samples'],
                          doNotDivideFragments=o['dnd'], noNames=o['noNames'], splitFeatures=o['split'], **over_kw)
    exp, over, prefixes = {}, 0, []
    for _p, truth_f, lens_f in files:
        lengths_f = {f'chr{i + 1}': L for i, L in enumerate(lens_f)}
        for rec in truth_f:
            if o['contig'] is not None and rec['contig'] != o['contig']:
                continue
            contribs, ov = _contributions(rec, lengths_f, o, b, s, keep)
            over += ov
            for k, w in contribs:
                exp[k] = exp.get(k, 0.0) + w
            if head is not None:
                prefixes.append(dict(exp))
    all_lengths = {}
    for f in files:
        for i, L in enumerate(f[2]):
            all_lengths[f'chr{i + 1}'] = max(all_lengths.get(f'chr{i + 1}', 0), L)
    feats = [t for t in o['feats'].replace('@', tag).split(',') if t != tag and t != o['byValue']]
    ci = feats.index('chrom') if 'chrom' in feats else None

    def length_of(key):
        if ci is None:
            return None
        return all_lengths.get(key[ci], -1) if len(key) == len(feats) + 2 else -1

    changed = '+'.join(sorted(opt)) if opt else ''
    site = 'create_count_table' + (f':{changed}' if changed else '')
    own_tmp = None
    if tmpdir is None and o['out'] != 'df':
        own_tmp = tmpdir = tempfile.mkdtemp(prefix='c10o_', dir='/dev/shm')
    try:
        try:
            df = _run_table(G, args, o, tmpdir)
            got = {k: v for k, v in G.table_to_dict(df).items() if v != 0.0}
        except Exception as ex:
            if s > b:
                return [], exp, over, 'refused'
            # one signature whatever the option vector (it is kept in the case and in the detail)
            return [(f'create_count_table:exception:{type(ex).__name__}',
                     {'exception': repr(ex), 'options_off_default': changed or 'none'})], exp, over, 'exception'
    finally:
        if own_tmp:
            shutil.rmtree(own_tmp, ignore_errors=True)
    viols = []
    if o['out'].endswith('bulk'):
        # "sum the counts of all sampleTags into a single column"; how that column is called is left open
        columns = sorted({k[0] for k in got}, key=repr)
        if len(columns) > 1:
            viols.append((f'{site}:{mode(b, s)}:bulk-table-has-several-columns', {'columns': [list(c) for c in columns[:4]]}))
        merged = {}
        for (_sample, key), v in got.items():
            merged[(('<bulk>',), key)] = merged.get((('<bulk>',), key), 0.0) + v
        got = merged
    if head is None:
        viols += _diff(site, got, exp, b, s, keep, length_of)
        label = 'full'
    else:
        # "first N reads": the table of SOME prefix of the reads in file order (the empty prefix included)
        match = [n for n, t in enumerate([{}] + prefixes) if t == got]
        if match:
            label = 'prefix' if len(got) < len(exp) or got != exp else 'prefix=all'
        else:
            label = 'no-prefix'
            d = _diff(site, got, exp, b, s, keep, length_of)
            worse = [(sg, dd) for sg, dd in d if not sg.endswith(':window-undercounted')]
            viols += worse or [(f'{site}:{mode(b, s)}:table-is-not-that-of-a-prefix-of-the-reads',
                                {'head': head, 'got_total': sum(got.values()), 'full_total': sum(exp.values())})]
    bad_names = _name_clauses(df, o)
    if bad_names:
        viols.append((f'{site}:{mode(b, s)}:index-level-name-does-not-describe-its-level', bad_names))
    return viols, exp, over, label


# ---------------------------------------------------------------------------------------------- split

def check_split(lens, b):
    import numpy as np
    import pysam
    from gen import c10_rich as R
    from mc.bind import seam
    from singlecellmultiomics.bamProcessing import split_double_BAM as S
    main = seam(S, 'main')
    tmp = tempfile.mkdtemp(prefix='c10s_', dir='/dev/shm')
    argv, stdout = sys.argv, sys.stdout
    try:
        bam, mat, outdir = os.path.join(tmp, 'in.bam'), os.path.join(tmp, 'prob.tsv'), os.path.join(tmp, 'out')
        os.mkdir(outdir)
        pairs = R.split_inputs(bam, mat, lens, b)
        sys.argv = ['split_double_BAM.py', '-inbam', bam, '-inprobmat', mat, '-outdir', outdir, '-binsize', str(b), '-q']
        np.random.seed(0)
        try:
            with contextlib.redirect_stdout(io.StringIO()):
                main()
        except (Exception, SystemExit) as ex:
            return [(f'split_double_BAM:exception:{type(ex).__name__}', repr(ex))], len(pairs)
        finally:
            sys.argv, sys.stdout = argv, stdout
        written = {}
        for which in ('A', 'B'):
            with pysam.AlignmentFile(os.path.join(outdir, f'splitted_{which}.bam')) as f:
                for r in f:
                    written.setdefault(r.query_name, set()).add(which)
        viols = {}
        for name, contig, p, cell, k0 in pairs:
            own_bin_is_the_cells = (k0 * b <= p < (k0 + 1) * b)        # the bin [k*b,(k+1)*b) containing the coordinate
            want = {'A'} if own_bin_is_the_cells else {'B'}
            got = written.get(name, set())
            if got == want:
                continue
            if not got:
                clause = 'pair-of-a-listed-bin-not-written'
            elif len(got) > 1:
                clause = 'pair-written-to-both-signals'
            else:
                clause = 'pair-assigned-with-the-probability-of-a-bin-not-containing-it'
            viols.setdefault(clause, {'pair': name, 'contig': contig, 'coordinate': p, 'bin_size': b,
                                      'bin_with_probability_1': [k0 * b, (k0 + 1) * b], 'written_to': sorted(got),
                                      'expected': sorted(want)})
        return [(f'split_double_BAM:nosliding:{c}', d) for c, d in viols.items()], len(pairs)
    finally:
        sys.argv, sys.stdout = argv, stdout
        shutil.rmtree(tmp, ignore_errors=True)


# ---------------------------------------------------------------------------------------------- engine hooks

def _second_file_lens(lens):
    """the second alignment file: every contig 7 longer, and a contig the first file does not have"""
    return tuple(L + 7 for L in lens) + (5,)


def _table2(path, truth, lens, path2, truth2, lens2, layout, b, s, order):
    first = (path, truth, lens) if order == 'short-first' else (path2, truth2, lens2)
    second = (path2, truth2, lens2) if order == 'short-first' else (path, truth, lens)
    viols = check_table(first[0], first[1], first[2], layout, b, s, False, None, more=[second])[0]
    return [(sg.replace('create_count_table', 'create_count_table:two-files-different-contig-lengths', 1), d)
            for sg, d in viols]


def run_shard(shard, tier, acc):
    kind = shard[0]
    if kind == 'arith':
        _, copy, b, N = shard
        fns = _copy_module(copy)
        for s in range(1, 2 * b + 1):
            for p in range(0, N + 1):
                viols, exp = check_arith(copy, p, b, s, fns)
                case = {'level': 'arith', 'copy': copy, 'p': p, 'b': b, 's': s}
                boundary = (p % s == 0) or ((p - b) % s == 0)
                acc.case(case, transitions=2, execs=2, nontrivial=boundary,
                         outcome=f'arith:{mode(b, s)}:windows={len(exp)}:boundary={boundary}')
                for sig, d in viols:
                    acc.violation(sig, case, d)
    elif kind == 'arith-large':
        copy = shard[1]
        fns = _copy_module(copy)
        for b in LARGE_BINS:
            for s in large_increments(b):
                for p in large_points(b, s):
                    viols, exp = check_arith(copy, p, b, s, fns)
                    case = {'level': 'arith', 'copy': copy, 'p': p, 'b': b, 's': s}
                    boundary = (p % s == 0) or ((p - b) % s == 0)
                    acc.case(case, transitions=2, execs=2, nontrivial=boundary,
                             outcome=f'arith-large:{mode(b, s)}:boundary={boundary}')
                    for sig, d in viols:
                        acc.violation(sig, case, d)
    elif kind == 'assign':
        _, L, b = shard
        for s in increments(b):
            for p in range(0, L + 3):
                for keep in (False, True):
                    for tag in ASSIGN_TAGS:
                        for rk in ('single', 'mate'):
                            viols, wins, exp = check_assign(L, p, b, s, keep, tag, rk)
                            case = {'level': 'assign', 'L': L, 'p': p, 'b': b, 's': s, 'keep': keep, 'binTag': tag,
                                    'kind': rk}
                            n_out = sum(1 for w in wins if not inside(w, L))
                            boundary = (p % s == 0) or ((p - b) % s == 0)
                            acc.case(case, transitions=1 + len(wins), nontrivial=(n_out > 0 or boundary),
                                     outcome=f'assign:{mode(b, s)}:keep={keep}:in={len(wins) - n_out}:out={n_out}')
                            for sig, d in viols:
                                acc.violation(sig, case, d)
    elif kind == 'assign-large':
        L = 248956422
        for b in (1000, 100000):
            for s in sorted({b, b // 2, (3 * b) // 10}):
                pts = set()
                for base in (0, s, b, L - b, L - s, L, (L // b) * b, (L // s) * s, 2 ** 24):
                    for d in (-1, 0, 1):
                        if base + d >= 0:
                            pts.add(base + d)
                for p in sorted(pts):
                    for keep in (False, True):
                        viols, wins, exp = check_assign(L, p, b, s, keep, 'DS', 'single')
                        case = {'level': 'assign', 'L': L, 'p': p, 'b': b, 's': s, 'keep': keep, 'binTag': 'DS',
                                'kind': 'single'}
                        n_out = sum(1 for w in wins if not inside(w, L))
                        acc.case(case, transitions=1 + len(wins), nontrivial=True,
                                 outcome=f'assign-large:{mode(b, s)}:keep={keep}:out={"some" if n_out else "none"}')
                        for sig, d in viols:
                            acc.violation(sig, case, d)
    elif kind == 'table':
        _, lens, layout, b, depth = shard
        tmp = tempfile.mkdtemp(prefix='c10_', dir='/dev/shm')
        try:
            path, truth = _build_bam(lens, layout, tmp)
            for s in increments(b):
                for keep in (False, True):
                    for opt in option_vectors(depth, layout, b, s):
                        viols, exp, over, label = check_table(path, truth, lens, layout, b, s, keep, opt, tmpdir=tmp)
                        case = {'level': 'table', 'lens': list(lens), 'layout': layout, 'b': b, 's': s,
                                'keep': keep, 'opt': opt}
                        off = '+'.join(sorted(opt)) or 'default'
                        if not exp:
                            label += ':empty-table'
                        acc.case(case, transitions=len(truth), nontrivial=(over > 0 and len(exp) >= 2),
                                 outcome=f'table:{mode(b, s)}:keep={keep}:{layout}:{off}:{label}')
                        acc.count('table_entries_compared', len(exp))
                        for sig, d in viols:
                            acc.violation(sig, case, d)
            # two alignment files in one call whose headers disagree (lengths of the shared contigs, one contig only in
            # the second file), in both orders
            lens2 = _second_file_lens(lens)
            path2, truth2 = _build_bam(lens2, layout, tmp)
            for s in sorted({1, b, max(1, b // 2)}):
                for order in ('short-first', 'long-first'):
                    viols = _table2(path, truth, lens, path2, truth2, lens2, layout, b, s, order)
                    case = {'level': 'table2', 'lens': list(lens), 'layout': layout, 'b': b, 's': s, 'order': order}
                    acc.case(case, transitions=len(truth) + len(truth2), nontrivial=True, outcome=f'table2:{mode(b, s)}:{order}')
                    for sig, d in viols:
                        acc.violation(sig, case, d)
        finally:
            shutil.rmtree(tmp, ignore_errors=True)
    elif kind == 'split':
        _, lens, b = shard
        viols, n = check_split(lens, b)
        case = {'level': 'split', 'lens': list(lens), 'b': b}
        acc.case(case, transitions=n, nontrivial=(max(lens) >= 2 * b),
                 outcome=f'split:bins_on_longest_contig={min(3, (max(lens) + 2) // b + 1)}{"+" if (max(lens) + 2) // b + 1 > 3 else ""}')
        acc.count('split_pairs_judged', n)
        for sig, d in viols:
            acc.violation(sig, case, d)
    else:
        raise ValueError(shard)


def _case_opt(case):
    if 'opt' in case:
        return dict(case['opt'])
    # replay files written before the option dimensions existed
    opt = {}
    if case.get('binTag', 'DS') != 'DS':
        opt['tag'] = case['binTag']
    if case.get('dnd'):
        opt['dnd'] = True
    if case.get('explicit'):
        opt['feats'] = 'chrom,@'
    return opt


def replay(case):
    lv = case['level']
    if lv == 'arith':
        return check_arith(case['copy'], case['p'], case['b'], case['s'])[0]
    if lv == 'assign':
        return check_assign(case['L'], case['p'], case['b'], case['s'], case['keep'], case['binTag'], case['kind'])[0]
    if lv == 'split':
        return check_split(tuple(case['lens']), case['b'])[0]
    if lv == 'table':
        tmp = tempfile.mkdtemp(prefix='c10_', dir='/dev/shm')
        try:
            path, truth = _build_bam(tuple(case['lens']), case['layout'], tmp)
            return check_table(path, truth, tuple(case['lens']), case['layout'], case['b'], case['s'], case['keep'],
                               _case_opt(case), tmpdir=tmp)[0]
        finally:
            shutil.rmtree(tmp, ignore_errors=True)
    if lv == 'table2':
        tmp = tempfile.mkdtemp(prefix='c10_', dir='/dev/shm')
        try:
            lens = tuple(case['lens'])
            lens2 = _second_file_lens(lens)
            path, truth = _build_bam(lens, case['layout'], tmp)
            path2, truth2 = _build_bam(lens2, case['layout'], tmp)
            return _table2(path, truth, lens, path2, truth2, lens2, case['layout'], case['b'], case['s'], case['order'])
        finally:
            shutil.rmtree(tmp, ignore_errors=True)
    raise ValueError(lv)
