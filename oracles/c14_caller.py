"""Independent TAPS methylation caller for C14.

Written from
  * the Bismark call alphabet: z/Z = C in CpG context (C followed by G), x/X = C in CHG context (C, then
    H = A, C or T, then G), h/H = C in CHH context; read 5'->3' on the strand that carries the C, i.e. for a
    reference G the context is the reverse complement of the reference bases p-2..p; upper case = methylated;
  * TAPS chemistry: a methylated C is READ AS T (so a reference C shows C>T, and a C on the opposite strand
    shows up as G>A on the reference); an unconverted base means unmethylated;
  * the property statement (C14): calls sit on a reference C (G for the opposite strand) covered by the
    molecule's consensus, never outside the mate-overlap-safe span.

It works on plain python strings and integer intervals only; it does not import the package under test.
"""
COMP = {'A': 'T', 'C': 'G', 'G': 'C', 'T': 'A'}
CALL_LETTERS = 'zZxXhH'


def expected_reference_base(strand, taps_strand):
    """Which reference base carries the calls.  taps_strand 'F': a molecule whose R1 maps to the forward strand
    is converted on the reference C, a reverse-strand molecule on the reference G; 'R' is the opposite
    convention."""
    return 'C' if ((strand == '+') == (taps_strand == 'F')) else 'G'


def context_triplet(refseq, p, base):
    """[C, next, next-but-one] on the strand of the C; None for positions beyond the contig / non-ACGT letters"""
    def at(i):
        if 0 <= i < len(refseq) and refseq[i].upper() in 'ACGT':
            return refseq[i].upper()
        return None
    if base == 'C':
        return [at(p), at(p + 1), at(p + 2)]
    return [COMP.get(at(p)), COMP.get(at(p - 1)), COMP.get(at(p - 2))]


def classify(trip):
    """-> (letter or None, complete).  complete: all three bases known, so that a caller MUST be able to tell.
    'CG' + unknown third base is still a CpG by definition (call permitted, not required)."""
    c, n1, n2 = trip
    if c != 'C' or n1 is None:
        return None, False
    if n1 == 'G':
        return 'z', n2 is not None
    if n2 is None:
        return None, False
    return ('x' if n2 == 'G' else 'h'), True


def safe_span(strand, r1, r2, dove=(0, 0)):
    """[lo, hi) between the 5' ends of the two mates (r = (ref_start, ref_end)); whatever a mate reads beyond
    the 5' end of the other one (dove tail) is outside.  dove = (dove_R1_distance, dove_R2_distance), documented as
    "Do not call methylation N bases from the end of R1" / "... of R2" (tapsTabulator): the span is shortened by that many
    bases at the fragment end where R1 / R2 starts."""
    d1, d2 = dove
    if strand == '+':
        return r1[0] + d1, r2[1] - d2
    return r2[0] + d2, r1[1] - d1


def molecule_consensus(fragments, strand, unsafe, min_phred=None, oriented=True, dove=(0, 0)):
    """The consensus of a molecule made of several fragments, from the package's definition of it (property C13):
    every fragment contributes ONE call per position - the base of the higher-quality mate where both mates cover the
    position; mates of equal quality which disagree, or an N, are no call - and the consensus base is the one called
    by strictly more fragments than any other base; a tie leaves the position without consensus.
    With min_phred (option min_phred_score, documented as "do not call methylation for bases with a phred score lower
    than min_phred_score") bases below that quality are not observations at all.
    fragments : [(obs1, obs2, span1, span2)], obs = {pos: (base, phred)}, span = (ref_start, ref_end) or None for R2
    -> {pos: base} (only positions which have a consensus)"""
    votes = {}
    for obs1, obs2, r1, r2 in fragments:
        if r2 is not None and not unsafe and oriented:
            lo, hi = safe_span(strand, r1, r2, dove)
        else:
            lo, hi = None, None
        for p in set(obs1) | set(obs2 or {}):
            if lo is not None and not (lo <= p < hi):
                continue
            cands = [o[p] for o in (obs1, obs2 or {}) if p in o and (min_phred is None or o[p][1] >= min_phred)]
            if not cands:
                continue
            best = max(q for _, q in cands)
            bases = {b for b, q in cands if q == best}
            if len(bases) != 1:
                continue
            b = bases.pop()
            if b not in COMP:
                continue
            votes.setdefault(p, {}).setdefault(b, 0)
            votes[p][b] += 1
    out = {}
    for p, v in votes.items():
        top = max(v.values())
        winners = [b for b, n in v.items() if n == top]
        if len(winners) == 1:
            out[p] = winners[0]
    return out


def expectations(refseq, strand, taps_strand, unsafe, r1, r2, covered, observed, oriented=True, dove=(0, 0)):
    """
    r1, r2   : (ref_start, ref_end) of the mates (r2 None for a single-end fragment)
    oriented : the mates map to opposite strands (False: an improper same-strand pair)
    covered  : set of reference positions aligned to a base of any mate
    observed : {pos: base the molecule shows there}
    -> {pos: verdict} for every covered position; verdict is one of
         ('absent', reason)                 no call may be present
         ('call', letter, required)         that letter; if not required '.' is acceptable as well
         ('lower-or-none', letter)          substitution which is not the conversion: anything but upper case
    """
    base = expected_reference_base(strand, taps_strand)
    conv = 'T' if base == 'C' else 'A'
    demand = None                   # positions where a call can be demanded (None: everywhere in the region)
    if r2 is not None and not oriented:
        # mates on the same strand: "between the 5' ends of the mates" is not defined, so neither the never-outside
        # clause nor completeness can be judged; whatever IS called still has to be a correct call
        region = set(covered)
        may_require = False
    elif r2 is not None and not unsafe:
        lo, hi = safe_span(strand, r1, r2, dove)
        region = {p for p in covered if lo <= p < hi}
        may_require = True
    elif r2 is not None:
        # a pair with allow_unsafe_base_calls=True: calls outside the safe span are ALLOWED (never demanded)
        lo, hi = safe_span(strand, r1, r2)
        region = set(covered)
        demand = {p for p in covered if lo <= p < hi}
        may_require = True
    else:
        region = set(covered)
        may_require = unsafe        # single-end + safe mode: no mate, hence nothing can be demanded
    out = {}
    for p in covered:
        if p not in region:
            out[p] = ('absent', 'call-outside-safe-span')
            continue
        if refseq[p].upper() != base:
            out[p] = ('absent', 'call-not-on-expected-reference-base')
            continue
        obs = observed.get(p)
        if obs not in ('A', 'C', 'G', 'T'):
            out[p] = ('absent', 'call-without-consensus-base')
            continue
        letter, complete = classify(context_triplet(refseq, p, base))
        if letter is None:
            out[p] = ('absent', 'call-with-undetermined-context')
            continue
        required = complete and may_require and (demand is None or p in demand)
        if obs == conv:
            out[p] = ('call', letter.upper(), required)
        elif obs == base:
            out[p] = ('call', letter, required)
        else:
            out[p] = ('lower-or-none', letter)
    return out


def judge(expect, calls, positions=None):
    """calls: {pos: letter in zZxXhH}; positions: restrict the completeness check to these (a read's own bases).
    -> list of (clause, pos, detail)"""
    out = []
    for p, letter in sorted(calls.items()):
        e = expect.get(p)
        if e is None:
            out.append(('call-on-uncovered-position', p, letter))
        elif e[0] == 'absent':
            out.append((e[1], p, letter))
        else:
            want = e[1]
            if letter.lower() != want.lower():
                out.append(('wrong-context-letter', p, f'{letter} for {want}'))
            elif e[0] == 'call' and letter != want:
                out.append(('wrong-case', p, f'{letter} for {want}'))
            elif e[0] == 'lower-or-none' and letter.isupper():
                out.append(('wrong-case', p, f'{letter} on a base that is not the conversion'))
    for p, e in sorted(expect.items()):
        if e[0] == 'call' and e[2] and p not in calls and (positions is None or p in positions):
            out.append(('missing-call', p, e[1]))
    return out


def tally(calls):
    """the totals the reads have to carry, from the calls themselves"""
    c = {k: 0 for k in CALL_LETTERS}
    for letter in calls.values():
        c[letter] += 1
    return {'MC': c['Z'] + c['X'] + c['H'], 'uC': c['z'] + c['x'] + c['h'],
            'sZ': c['Z'], 'sz': c['z'], 'sX': c['X'], 'sx': c['x'], 'sH': c['H'], 'sh': c['h']}
