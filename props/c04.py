"""C04 - read-name encoding round-trips: FASTQ header -> BAM tags restores every field.

Seam: strategy.demultiplex -> TaggedRecord.asFastq() header -> pysam.AlignedSegment named with it ->
QueryNameFlagger().digest([R1, R2]) -> tags; plus the two pure codec functions.
Space: every registered strategy x every phred character 33..126 at every quality-carrying header
position (UMI, ligation, RBSN barcode/enzyme qualities) x header shapes x index kinds x library names
over the header-safe alphabet, with every library length that moves the name across 240..260 chars.
Oracle: the inputs themselves (header fields, library, original qualities saturated at phred 51).
Further dimensions (audit wave): five configurations (default index alias / no alias / two other shipped index
aliases with 8-nt indices and non-numeric identifiers / Hamming-1 barcode expansion with a planted barcode carrying one
substitution so that raw barcode != corrected barcode), header shapes with 10 fields and no trailing "::", the
already-demultiplexed k:v header (with the library of its first pass), filter flag Y / control number 18, every
way the tagger hands a pair to the flagger ([R1,R2], [R1,None], [None,R2]), a refusal is only legitimate when the
name would really exceed 254 characters, "Single Cell Discoveries" read names (decode only).
Input generation (strategy objects per configuration, planted barcodes) is in gen/c04_inputs.py; the position-coded
reads and the layout table come from oracles/c02_layout.py.
"""
import traceback

from mc import bind
from oracles import c02_layout as L
from oracles import c04_header as H
from gen import c04_inputs as G

ID = 'C04'
DESIGN_REF = 'DESIGN.md section 3, C04'
RULE = ('per registered strategy (accepted pair with a whitelisted barcode planted, reads of 60 nt): every phred char '
        '33..126 at every header-carried quality position; header shapes S1 (index sequence / integer index / '
        '1-mismatch index), S2, S3, 3-DEC x two coordinate sets x index-alias on/off x 5 library names; library '
        'lengths moving the name across the tier window around 254; a custom whitelist with string cell indices; '
        'pure codec: all 94 characters and all 94x94 pairs. Configurations A (default index alias), B (no alias), '
        'C/D (other shipped index aliases), H (barcode Hamming expansion 1, planted barcode with one substitution); '
        'shapes additionally S2b (10 fields), SCMO (already demultiplexed k:v header carrying a library); mates handed to the '
        'flagger as [R1,R2], [R1,None], [None,R2]; Single Cell Discoveries names (decode only). '
        'A case is non-trivial when the name was decoded (or refused); states = distinct inputs')
ASSUMPTIONS = [
    'library names and cell indices over [A-Za-z0-9_-]; Illumina fields over the same alphabet',
    'the aligner keeps the read name (FASTQ header without "@") unchanged; a BAM stores at most 254 name characters',
    'the molecular identifier is only demanded when the encoder produced a corrected index (aA); without an index alias '
    'the tagger marks the read as bulk (BK) and no MI exists',
    'CHROMC16U12 accepts nothing in this snapshot (emptied 10x whitelist): vacuous, see counters',
    'a refusal is legitimate only for a name longer than 254 characters: the length of the refused name is bounded from '
    'above by the k:v serialisation of ALL tags of the record and otherwise extrapolated from the names the same input '
    'gets with 1- and 2-character libraries',
    'a header that already is a demultiplexed k:v header may keep the library it carries: then the library (and sample) '
    'demanded is the one written in the produced name, which has to be the previous or the new library',
    'Single Cell Discoveries names are not produced by the demultiplexer: only coordinates, the attributes as written '
    'and phred attributes as phred characters are demanded',
]

_USER = {}
_FN = {}
READ = 60


def setup():
    if _USER:
        return
    G.setup()
    from singlecellmultiomics.barcodeFileParser.barcodeFileParser import BarcodeParser
    from singlecellmultiomics.modularDemultiplexer import baseDemultiplexMethods as B
    from singlecellmultiomics.universalBamTagger.universalBamTagger import QueryNameFlagger
    for cfg, (alias, _) in G.CONFIGS.items():
        if H.ALIAS[cfg] != alias:
            raise bind.HarnessError(f'configuration {cfg}: oracle and generator disagree about the index alias')
    # a whitelist whose cell indices are strings / integers, on the plain "3bp UMI + 8bp barcode" layout
    ub = BarcodeParser(barcodeDirectory='/nonexistent-c04', hammingDistanceExpansion=0)
    for bc, idx in USER_BARCODES:
        ub.addBarcode('user_str', barcode=bc, index=idx)
    _USER['s'] = B.UmiBarcodeDemuxMethod(umiRead=0, umiStart=0, umiLength=3, barcodeRead=0, barcodeStart=3,
                                         barcodeLength=8, barcodeFileParser=ub, barcodeFileAlias='user_str',
                                         indexFileParser=G.PARSERS['index'], indexFileAlias='illumina_merged_ThruPlex48S_RP')
    _FN['enc'] = bind.seam(B, 'phredToFastqHeaderSafeQualities')
    _FN['dec'] = bind.seam(B, 'fastqHeaderSafeQualitiesToPhred')
    _FN['flagger'] = QueryNameFlagger
    _FN['NM'] = B.NonMultiplexable


USER_BARCODES = [('ACACACTA', 'A1'), ('GTGTGAGT', 'well-2_b'), ('TTGGCCAA', '007'), ('CAGTCAGT', 12), ('GGAACCTT', 0)]
USER = '_USERSTR'


# ---------------------------------------------------------------------------------------------- space
def _strategies():
    return [s for s in L.ALL_SHORT]


def _inputs(short, cfg='A'):
    """[(label, plant, single_end)] accepted inputs of the strategy: one per barcode source x 3 barcodes;
    configuration H: the same barcodes with one substitution each (raw barcode != corrected barcode)"""
    if cfg == 'H':
        if short == USER:
            return []
        out = []
        se = G.se_mode(short) == 'only'
        for label, alias, sg in G.sources(short):
            for j, bc in enumerate(G.pick3(alias)):
                raw = G.sub1(alias, bc)
                if raw is not None:
                    out.append((f'{label}{j}~', G.base_plant(short) + G.plant_bc(raw, sg), se))
        return out
    if short == USER:
        return [(f'user{j}', [[0, 3, bc]], False) for j, (bc, _) in enumerate(USER_BARCODES)]
    out = []
    se = G.se_mode(short) == 'only'
    src = G.sources(short)
    if not src:
        return [('bulk', [], False)]
    for label, alias, sg in src:
        for j, bc in enumerate(G.pick3(alias)):
            out.append((f'{label}{j}', G.base_plant(short) + G.plant_bc(bc, sg), se))
    return out


def _qual_positions(short):
    """(mate, position) of every base whose quality is written into the read name"""
    rows = {USER: ['MSPJIC8U3'], 'TCHIC': ['scCHIC384C8U3l'], 'CHICTV': ['scCHIC384C8U3l'],
            'DamAndT': ['DamID2', 'CS2C8U6'], 'DamID2andT_3u4b3u4b': ['_SCA_TX'], 'DamID2andT_3u4b3u6b': ['_SCA_TX'],
            'ILLU': []}.get(short, [short])
    pos = set()
    for r in rows:
        row = L.ROWS[r]
        sg = row['umi'] + row['lig']
        if r == 'RBSN':
            sg = sg + row['bc'] + row['extra']['ES']
        for m, s, e in sg:
            pos.update((m, i) for i in range(s, e))
    return sorted(pos)


def bounds(tier):
    return {'strategies': len(L.ALL_SHORT) + 1, 'phred_chars': '33..126', 'read_length': READ,
            'header_shapes': ['S1/index', 'S1/int-index', 'S1/1-mismatch-index', 'S2', 'S2b', 'S3', '3-DEC', 'SCMO'],
            'configurations': {c: {'index_alias': H.ALIAS[c], 'barcode_hamming_expansion': 1 if c == 'H' else 0}
                               for c in sorted(H.ALIAS)},
            'mates_handed_to_the_flagger': list(PRESENT), 'flagger_options': ['none', 'the keyword set of the tagger'],
            'scd_names': ['scd', 'scd+LY'], 'user_cell_indices': [i for _, i in USER_BARCODES],
            'coordinate_sets': {k: list(v) for k, v in sorted(H.VALUES.items())},
            'name_length_window': [240, 260] if tier == 'quick' else [225, 280],
            'barcodes_per_source_phred_sweep': 1 if tier == 'quick' else 3,
            'codec': 'all 94 characters, all 8836 pairs'}


def shards(tier):
    out = [('codec', a) for a in range(0, 94, 6)]
    for short in _strategies() + [USER]:
        out.append(('phred', short))
        out.append(('shapes', short))
        out.append(('liblen', short))
    out.append(('session', 'forward'))
    out.append(('session', 'reverse'))
    out.append(('session', 'interleaved'))
    out.append(('session', 'forward+options'))
    out.append(('scd', 'all'))
    return out


LIBS = ['L', 'lib-1_A', H.library(64), 'Z9_-', '0012']      # the last one: digits only, zero-padded
SHAPES = [('A', 'S1', 'ATCACG'), ('A', 'S1', '3'), ('A', 'S1', 'ATCACC'), ('A', 'S2', None), ('A', 'S3', None), ('A', 'DEC', None),
          ('B', 'S1', 'ATCACG'), ('B', 'S1', '3'), ('B', 'S2', None), ('B', 'S3', None), ('B', 'DEC', None),
          ('A', 'S2b', None), ('A', 'SCMO', 'ATCACG'), ('B', 'S2b', None), ('B', 'SCMO', 'ATCACG'),
          ('H', 'S1', 'ATCACG'), ('H', 'S1', 'ATCACC'), ('H', 'SCMO', 'ATCACG'),
          ('C', 'S1', 'ATCACGAT'), ('C', 'S1', 'ATCACGAA'), ('C', 'S1', '7'),
          ('D', 'S1', 'ATCACGTT'), ('D', 'S1', 'ATCACGTA')]
PRESENT = ('pair', 'r1', 'r2')      # digest([R1, R2]) / digest([R1, None]) / digest([None, R2])
FLAGGER_OPTIONS = {'reference': None, 'alleleResolver': None, 'moleculeRadius': 0, 'verbose': False,
                   'exon_gtf': None, 'intron_gtf': None}       # what universalBamTagger passes to every flagger


def _case(short, label, plant, se, cfg='A', shape='S1', index='ATCACG', vals='v1', lib='LIB', qmut=(), present='pair'):
    c = {'s': short, 'in': label, 'plant': plant, 'se': se, 'cfg': cfg, 'shape': shape, 'index': index,
         'vals': vals, 'lib': lib, 'qmut': [list(x) for x in qmut]}
    if present != 'pair':
        c['present'] = present
    return c


def _cases(shard, tier):
    kind, short = shard
    inputs = _inputs(short) if kind != 'codec' else []
    inputs_h = _inputs(short, 'H') if kind == 'shapes' else []
    if kind == 'phred':
        use = inputs if tier == 'thorough' else [x for x in inputs if x[0].endswith('0')]
        for label, plant, se in use:
            for (m, p) in _qual_positions(short):
                for q in range(33, 127):
                    yield _case(short, label, plant, se, qmut=[(m, p, q)])
            if tier == 'thorough':
                # two saturating characters at once, first and last quality position
                qp = _qual_positions(short)
                if len(qp) >= 2:
                    for q1 in (33, 84, 85, 126):
                        for q2 in (33, 84, 85, 126):
                            yield _case(short, label, plant, se, qmut=[(qp[0][0], qp[0][1], q1), (qp[-1][0], qp[-1][1], q2)])
    elif kind == 'shapes':
        use = inputs if tier == 'thorough' else inputs[:1] + inputs[-1:]
        use_h = inputs_h if tier == 'thorough' else inputs_h[:1] + inputs_h[-1:]
        for cfg, shape, index in SHAPES:
            if short == USER and cfg != 'A':
                continue
            seen = set()
            for label, plant, se in (use_h if cfg == 'H' else use):
                if label in seen:
                    continue
                seen.add(label)
                for vals in sorted(H.VALUES):
                    for lib in LIBS:
                        for present in PRESENT:
                            if se and present == 'r2':
                                continue
                            yield _case(short, label, plant, se, cfg=cfg, shape=shape, index=index, vals=vals, lib=lib,
                                        present=present)
    elif kind == 'liblen':
        lo, hi = (240, 260) if tier == 'quick' else (225, 280)
        for label, plant, se in inputs[:1] + (inputs[-1:] if len(inputs) > 1 else []):
            for cfg, index in (('A', 'ATCACG'), ('B', 'ATCACG'), ('C', 'ATCACGAA')):
                if short == USER and cfg != 'A':
                    continue
                probe = _case(short, label, plant, se, cfg=cfg, index=index, lib='L')
                n1 = _name_length(probe)
                if n1 is None:
                    continue
                for target in range(lo, hi + 1):
                    n = target - n1 + 1
                    if n >= 1:
                        c = _case(short, label, plant, se, cfg=cfg, index=index, lib=H.library(n, offset=target))
                        yield c
                        # the same name through the serialiser called directly (the default route is str(record),
                        # which is what the writers use)
                        yield dict(c, route='asFastq')


# ---------------------------------------------------------------------------------------------- execution
def _site(tb):
    fr = traceback.extract_tb(tb)
    return fr[-1].name if fr else '?'


def _encode(case):
    """-> ('rejected'|'exception'|'ok', payload) ; payload for ok: (raw reads, records, [first FASTQ line or exception])"""
    from singlecellmultiomics.fastqProcessing.fastqIterator import FastqRecord
    short = case['s']
    cfg = case['cfg']
    strat = _USER['s'] if short == USER else G.ST[cfg][short]
    raw = L.build_reads(case['plant'], READ, READ)
    if case['se']:
        raw = raw[:1]
    raw = [list(r) for r in raw]
    for m, p, q in case['qmut']:
        if m < len(raw):
            s = raw[m][3]
            raw[m][3] = s[:p] + chr(q) + s[p + 1:]
    hexp = None
    for m in range(len(raw)):
        raw[m][0], hexp = H.header(case['shape'], H.VALUES[case['vals']], m + 1, case['index'])
    raw = [tuple(r) for r in raw]
    recs = [FastqRecord(*r) for r in raw]
    try:
        res = strat.demultiplex(recs, library=case['lib'])
    except _FN['NM']:
        return 'rejected', None
    except Exception as ex:      # noqa
        import sys
        site = _site(sys.exc_info()[2])
        # raised while the record is serialised (asFastq or any helper it calls), not necessarily in asFastq's own frame
        if isinstance(ex, ValueError) and {'asFastq', '__str__', '__repr__'} & {f.name for f in traceback.extract_tb(sys.exc_info()[2])}:
            return 'refused', None       # the bulk strategy serialises inside demultiplex: a loud refusal
        return 'exception', (f'encode:{site}:exception:{type(ex).__name__}', repr(ex))
    lines = []
    for r in res:
        if isinstance(r, str):
            lines.append(r.split('\n')[0])
        else:
            try:
                # 'str': what the FASTQ writers put in the file (FastqHandle.write writes str(record)); 'asFastq': the
                # documented serialiser called directly. Both must refuse or round-trip.
                text = str(r) if case.get('route', 'str') == 'str' else r.asFastq()
                lines.append(text.split('\n')[0])
            except ValueError as ex:
                lines.append(ex)
            except Exception as ex:      # noqa
                import sys
                return 'exception', (f'encode:{_site(sys.exc_info()[2])}:exception:{type(ex).__name__}', repr(ex))
    return 'ok', (raw, res, lines, hexp)


def _name_length(case):
    st, payload = _encode(case)
    if st != 'ok':
        return None
    line = payload[2][0]
    return len(line) - 1 if isinstance(line, str) else None


def _quality_expectations(short, raw, hd=0):
    """[tag -> original phred characters (before saturation)], one dict per admissible layout (C02 layout oracle;
    with Hamming expansion a composite strategy may resolve either of its sub-layouts)"""
    if short == 'ILLU':
        return [{}]
    if short == USER:
        exp = [L.expect_row(L.ROWS['MSPJIC8U3'], raw)]
    else:
        exp = L.expected(short, raw, G.wl, hd)
    if not exp:
        return [{}]
    out = []
    for e in exp:
        q = dict(e['qtags'])
        if short == 'RBSN':
            q['QT'] = L.cut(raw, L.ROWS['RBSN']['bc'], 3)
            q['eq'] = L.cut(raw, L.ROWS['RBSN']['extra']['ES'], 3)
        if q not in out:
            out.append(q)
    return out


COPIED = ('BC', 'bc', 'bi', 'RX', 'MX', 'aA', 'aI', 'rS', 'lh', 'ES', 'IS', 'dt', 'tu', 'rx', 'RR')
_PROBE = {}


def _predicted_length(case):
    """length the name of this case has to have, extrapolated from the names the SAME input gets with a 1- and a
    2-character library (None when those cannot be produced)"""
    key = repr(sorted((k, v) for k, v in case.items() if k not in ('lib', 'present')))
    if key not in _PROBE:
        n1 = _name_length(dict(case, lib='L'))
        n2 = _name_length(dict(case, lib='LL'))
        _PROBE[key] = None if n1 is None or n2 is None or n2 - n1 not in (0, 1) else (n1, n2 - n1)
    if _PROBE[key] is None:
        return None
    n1, slope = _PROBE[key]
    return n1 + slope * (len(case['lib']) - 1)


def _refusal_justified(case, res):
    """[] when refusing this name is legitimate (it would exceed what a BAM stores) or cannot be judged"""
    ub = None
    if res is not None:
        try:
            # k:v;k:v over ALL tags is an upper bound of the name (some tags are not written)
            ub = max(len(';'.join(f'{k}:{v}' for k, v in r.tags.items())) for r in res if not isinstance(r, str))
        except ValueError:
            ub = None
    if ub is not None and ub <= H.MAX_QNAME:
        return [('asFastq:storable-name-refused', {'upper_bound_of_name_length': ub, 'library_length': len(case['lib'])})]
    plen = _predicted_length(case)
    if plen is not None and plen <= H.MAX_QNAME:
        return [('asFastq:storable-name-refused', {'predicted_name_length': plen, 'library_length': len(case['lib'])})]
    return []


def _parse_name(name):
    """the documented serialisation: k:v;k:v -> [(k, v)] (None when the name is not of that form)"""
    out = []
    for kv in name.split(';'):
        if kv.count(':') != 1:
            return None
        out.append(tuple(kv.split(':')))
    return out


def _hand_over(segs, present):
    """the list the tagger passes to digest for this pair"""
    if present == 'pair' or len(segs) == 1 and present != 'r1':
        return list(segs)
    if present == 'r1':
        return [segs[0], None]
    return [None, segs[1]]


def _run(case):
    """-> (status, [(signature, detail)])"""
    import pysam
    st, payload = _encode(case)
    if st == 'rejected':
        return st, []
    if st == 'refused':
        return st, _refusal_justified(case, None)
    if st == 'exception':
        return 'encode-exception', [payload]
    raw, res, lines, hexp = payload
    short, cfg, present = case['s'], case['cfg'], case.get('present', 'pair')
    viols = []
    refused = [x for x in lines if not isinstance(x, str)]
    if refused:
        if len(refused) != len(lines):
            viols.append(('asFastq:only-one-mate-refused', [str(x)[:80] for x in lines]))
        return 'refused', viols + _refusal_justified(case, res)
    segs = []
    for i, line in enumerate(lines):
        name = line[1:]
        if not line.startswith('@') or any(c.isspace() for c in name) or name == '':
            return 'bad-name', [('asFastq:name-not-a-single-token', line)]
        if len(name) > H.MAX_QNAME:
            return 'unstorable', [('asFastq:name-longer-than-a-bam-can-store-not-refused', {'length': len(name), 'name': name})]
        a = pysam.AlignedSegment()
        a.query_name = name
        a.flag = (77 if i == 0 else 141) if len(lines) == 2 else 4
        segs.append(a)
    handed = _hand_over(segs, present)
    try:
        _FN['flagger']().digest(handed)
    except Exception as ex:      # noqa
        import sys
        return 'decode-exception', [(f'decode:{_site(sys.exc_info()[2])}:exception:{type(ex).__name__}', repr(ex))]
    qexps = _quality_expectations(short, raw, 1 if cfg == 'H' else 0)
    for i, a in enumerate(segs):
        if not any(a is h for h in handed):
            continue                     # this mate was not handed to the flagger (the other one is the observed read)
        got = dict(a.get_tags())
        enc = dict(res[i].tags) if not isinstance(res[i], str) else {}
        named = _parse_name(lines[i][1:])
        if named is None:
            viols.append(('asFastq:name-not-a-k:v;k:v-list', lines[i][:200]))
            named = []
        named = dict(named)
        want = {}
        for tag, val in hexp.items():
            if tag != 'name':
                want[tag] = val
        lib = case['lib']
        if case['shape'] == 'SCMO':
            # the header brought a library of its own: whichever of the two the name carries has to come back
            lib = named.get('LY')
            if lib not in (case['lib'], H.PREVIOUS_LIBRARY):
                viols.append(('asFastq:library-in-name-is-neither-the-previous-nor-the-new-one', {'name': lines[i][:200]}))
                lib = case['lib']
        want['LY'] = lib
        for tag in COPIED:
            if tag in enc and enc[tag] is not None:
                want[tag] = str(enc[tag])
        if 'aa' in enc and 'aa' not in want:
            want['aa'] = str(enc['aa'])
        if 'bi' in enc:
            want['SM'] = f"{lib}_{enc['bi']}"
        if enc.get('aA') is not None and 'BC' in enc:
            want['MI'] = str(enc['BC']) + str(enc.get('RX', '')) + str(enc['aA'])
        # everything else the name carries (k:v) has to come back as written, phred tags as phred characters
        qtags = set().union(*[set(q) for q in qexps])
        for tag, val in named.items():
            if tag in want or tag in qtags or tag in H.DERIVED or tag in H.FIELDS or tag in ('Fi', 'CN'):
                continue
            if tag in H.PHRED_TAGS:
                if all(c in H.LETTERS for c in val):
                    want[tag] = H.unletters(val)
            else:
                want[tag] = val
        best = None
        for qexp in qexps:
            w = dict(want)
            for tag, orig in qexp.items():
                if tag in enc or orig != '':
                    w[tag] = H.saturate(orig)
            v = []
            for tag, val in w.items():
                if tag not in got:
                    if val == '':
                        continue
                    v.append((f'roundtrip:{tag}-lost', {'strategy': short, 'mate': i + 1, 'want': val, 'cfg': cfg,
                                                         'handed': present}))
                elif str(got[tag]) != val:
                    v.append((f'roundtrip:{tag}-changed', {'strategy': short, 'mate': i + 1, 'got': got[tag], 'want': val,
                                                            'name': lines[i][:200]}))
            if best is None or len(v) < len(best):
                best = v
        viols.extend(best or [])
        if 'name' in hexp and a.query_name != hexp['name']:
            viols.append(('roundtrip:illumina-read-name-changed', {'got': a.query_name, 'want': hexp['name']}))
    seen, out = set(), []
    for s, d in viols:
        if s not in seen:
            seen.add(s)
            out.append((s, d))
    differs = any(not isinstance(r, str) and r.tags.get('bc') is not None and r.tags.get('bc') != r.tags.get('BC') for r in res)
    return 'decoded' + (':raw-barcode-differs' if differs else ''), out


def _scd(case):
    """decode-only: a Single Cell Discoveries read name through the flagger"""
    import pysam
    name, exp = H.scd_name(H.VALUES[case['vals']], case['variant'])
    segs = []
    for i in range(1 if case['present'] == 'single' else 2):
        a = pysam.AlignedSegment()
        a.query_name = name
        a.flag = 4 if case['present'] == 'single' else (77 if i == 0 else 141)
        segs.append(a)
    handed = segs if case['present'] in ('single', 'pair') else _hand_over(segs, case['present'])
    try:
        _FN['flagger']().digest(handed)
    except Exception as ex:      # noqa
        import sys
        return [(f'decode:scd:{_site(sys.exc_info()[2])}:exception:{type(ex).__name__}', repr(ex))]
    out = {}
    for i, a in enumerate(segs):
        if not any(a is h for h in handed):
            continue
        got = dict(a.get_tags())
        for tag, val in exp.items():
            if tag == 'name':
                if a.query_name != val:
                    out.setdefault('scd:illumina-read-name-changed', {'got': a.query_name, 'want': val})
            elif tag not in got:
                out.setdefault(f'scd:{tag}-lost', {'mate': i + 1, 'want': val, 'name': name})
            elif str(got[tag]) != val:
                out.setdefault(f'scd:{tag}-changed', {'mate': i + 1, 'got': got[tag], 'want': val, 'name': name})
    return list(out.items())


def _codec(case):
    enc, dec = _FN['enc'], _FN['dec']
    chars = ''.join(chr(c) for c in case['q'])
    try:
        e = enc(chars, method=3)
    except Exception as ex:      # noqa
        return [(f'encode:phredToFastqHeaderSafeQualities:exception:{type(ex).__name__}', repr(ex))]
    out = []
    if len(e) != len(chars) or any(c not in H.LETTERS for c in e):
        out.append(('codec:encoding-not-one-header-safe-letter-per-quality', e))
        return out
    if len(chars) == 2:
        try:
            parts = enc(chars[0]) + enc(chars[1])
        except Exception as ex:      # noqa
            return [(f'encode:phredToFastqHeaderSafeQualities:exception:{type(ex).__name__}', repr(ex))]
        if parts != e:
            out.append(('codec:encoding-not-per-character', [e, parts]))
    try:
        d = dec(e, method=3)
    except Exception as ex:      # noqa
        return [(f'decode:fastqHeaderSafeQualitiesToPhred:exception:{type(ex).__name__}', repr(ex))]
    if d != H.saturate(chars):
        out.append(('codec:decode-of-encode-differs-from-saturated-original', {'got': d, 'want': H.saturate(chars)}))
    return out


def _session_names():
    """one demultiplexed read name (pair) per strategy: a heterogeneous sequence as a merged BAM would hold"""
    out = []
    for short in _strategies() + [USER]:
        inputs = _inputs(short)
        if not inputs:
            continue
        label, plant, se = inputs[0]
        case = _case(short, label, plant, se)
        st, payload = _encode(case)
        if st != 'ok':
            continue
        lines = payload[2]
        if any(not isinstance(x, str) for x in lines):
            continue
        out.append((short, [l[1:] for l in lines]))
    return out


def _digest(flagger, names):
    import pysam
    segs = []
    for i, name in enumerate(names):
        a = pysam.AlignedSegment()
        a.query_name = name
        a.flag = (77 if i == 0 else 141) if len(names) == 2 else 4
        segs.append(a)
    flagger.digest(segs)
    return [(a.query_name, dict(a.get_tags())) for a in segs]


def run_session(order):
    """ONE QueryNameFlagger instance decodes reads of all strategies in sequence (as the tagger does on a merged BAM);
    every read must come out exactly as from a fresh flagger"""
    seq = _session_names()
    make = _FN['flagger']
    if order == 'forward+options':
        def make():
            return _FN['flagger'](**FLAGGER_OPTIONS)
    if order == 'reverse':
        seq = seq[::-1]
    elif order == 'interleaved':
        seq = seq[0::2] + seq[1::2]
    viols = {}
    try:
        shared = make()
        for short, names in seq:
            fresh = _digest(_FN['flagger'](), names)
            got = _digest(shared, names)
            if got != fresh:
                diff = {}
                for (n1, t1), (n2, t2) in zip(fresh, got):
                    for k in sorted(set(t1) | set(t2)):
                        if t1.get(k) != t2.get(k):
                            diff[k] = (t1.get(k), t2.get(k))
                    if n1 != n2:
                        diff['query_name'] = (n1, n2)
                viols.setdefault('decode:one-flagger-many-reads:tags-differ-from-a-fresh-flagger',
                                 {'strategy': short, 'fresh_vs_shared': diff, 'order': order})
    except Exception as ex:      # noqa
        viols.setdefault(f'decode:one-flagger-many-reads:exception:{type(ex).__name__}', repr(ex))
    return [(s, d) for s, d in viols.items()], len(seq)


def run_shard(shard, tier, acc):
    if shard[0] == 'session':
        case = {'fn': 'session', 'order': shard[1]}
        viols, n = run_session(shard[1])
        acc.case(case, transitions=n, nontrivial=True, outcome=f'session:{shard[1]}:reads={n}')
        for sig, d in viols:
            acc.violation(sig, case, d)
        return
    setup()
    if shard[0] == 'scd':
        for vals in sorted(H.VALUES):
            for variant in ('scd', 'scd+LY'):
                for present in ('single',) + PRESENT:
                    case = {'fn': 'scd', 'vals': vals, 'variant': variant, 'present': present}
                    v = _scd(case)
                    acc.case(case, transitions=1, nontrivial=True, outcome=f'scd:{variant}:{present}')
                    for sig, d in v:
                        acc.violation(sig, case, d)
        return
    if shard[0] == 'codec':
        a = shard[1]
        c1s = range(33 + a, min(33 + a + 6, 127))
        for c1, c2 in [(c, None) for c in c1s] + [(c, d) for c in c1s for d in range(33, 127)]:
            case = {'fn': 'codec', 'q': [c1] if c2 is None else [c1, c2]}
            v = _codec(case)
            acc.case(case, transitions=2, nontrivial=True,
                     outcome='codec:' + ('saturating' if max(case['q']) > 33 + 51 else 'plain'))
            for sig, d in v:
                acc.violation(sig, case, d)
        return
    short = shard[1]
    n = 0
    for case in _cases(shard, tier):
        status, viols = _run(case)
        n += 1
        hi = any(q > 33 + 51 for _, _, q in case['qmut'])
        acc.case(case, transitions=3, nontrivial=status.split(':')[0] in ('decoded', 'refused'),
                 outcome=f"{shard[0]}:{case['cfg']}/{case['shape']}:{case.get('present', 'pair')}:{status}"
                         f"{':saturating' if hi else ''}")
        acc.count(f"{status.split(':')[0]}:{short}")
        for sig, d in viols:
            acc.violation(sig, case, d)
    if n == 0 and shard[0] == 'phred':
        acc.count(f'vacuous:{short}:no accepted input or no quality in the name')


def replay(case):
    if case.get('fn') == 'session':
        setup()
        return run_session(case['order'])[0]
    setup()
    if case.get('fn') == 'codec':
        return _codec(case)
    if case.get('fn') == 'scd':
        return _scd(case)
    return _run(case)[1]
