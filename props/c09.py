"""C09 - cut-site coordinates are correct and strand-symmetric.

Every fragment geometry of the alphabet is built on a known reference with a known cut coordinate,
once on the forward strand and once as its exact mirror image on the reverse-complemented
reference.  Oracle: simulator truth (site, strand, validity) + the mirror relation.
"""
import itertools

from gen.reads import header, make_read, revcomp, debruijn_like

ID = 'C09'
RULE = ('full product of strand x single/paired x soft-clip 0..6 x motif variant (exact, every single-base substitution '
        'incl. N, one-cycle shift, motif on the wrong end, two decoys) x allow_cycle_shift x check_motif x invert_strand x '
        'no_umi_cigar_processing for NlaIII; trimmed/untrimmed x strand x clip x R2 arrangement x invert_strand for CHIC; '
        'non-trivial = clipped or non-exact motif or unusual R2 arrangement (every case is executed on both strands); states = distinct (geometry, options) cases')
ASSUMPTIONS = [
    'reads are given in BAM orientation (reverse-strand reads reverse-complemented), as produced by an aligner',
    'check_motif=False is only combined with full-length motif geometries (nothing is "recognised" otherwise)',
    'no_umi_cigar_processing=True is only combined with unclipped reads (the option disables the clip correction by design)',
    'no_overhang mode (motif outside the read, needs a reference handle) is not covered',
]

L = 120
SITE = 50            # default forward-reference coordinate of the C of CATG (NlaIII) / of the cut base (CHIC); also 0
RLEN = 20
FRAG = 56
BG = debruijn_like(400, avoid=('CATG', 'ATG', 'CAT'))


def bounds(tier):
    return {'clips': list(range(0, 7)), 'read_length': RLEN, 'contig_length': L,
            'nla_variants': 'exact + 16 substitutions + shift + wrongend + decoy_TCAT + decoy_GCAT',
            'chic': 'trimmed/untrimmed x R2 in {none, proper, same-strand, unmapped}',
            'tiers': 'quick == thorough (the space is small and fully enumerated)'}


def nla_variants():
    v = [('exact', 'CATG')]
    for i in range(4):
        for b in 'ACGTN':
            if b != 'CATG'[i]:
                v.append((f'subst{i}{b}', 'CATG'[:i] + b + 'CATG'[i + 1:]))
    v.append(('shift', 'ATG'))
    v.append(('wrongend', None))
    v.append(('decoy_TCAT', 'TCAT'))
    v.append(('decoy_GCAT', 'GCAT'))
    return v


def mirror_read(spec):
    """spec: dict(seq, qual, pos, cigar(list of (op,len)), reverse, unmapped) -> mirrored on the revcomp reference"""
    if spec is None:
        return None
    m = dict(spec)
    if spec['unmapped']:
        m['seq'] = spec['seq']
        return m
    ref_len = sum(l for op, l in spec['cigar'] if op == 'M')
    m['seq'] = revcomp(spec['seq'])
    m['qual'] = spec['qual'][::-1]
    m['pos'] = L - (spec['pos'] + ref_len)
    m['cigar'] = spec['cigar'][::-1]
    m['reverse'] = not spec['reverse']
    return m


def cigar_str(c):
    return ''.join(f'{l}{op}' for op, l in c)


def build_pair(specs, tags_r1):
    hdr = header([('chr1', L)])
    s1, s2 = specs
    reads = []
    for i, s in enumerate((s1, s2)):
        if s is None:
            reads.append(None)
            continue
        other = specs[1 - i]
        mate = None
        if other is not None:
            mate = ('chr1', other['pos'], other['reverse'], other['unmapped'])
        tags = {'SM': 'LIB_1', 'RX': 'ACG', 'BC': 'AAAA', 'bi': 1, 'MQ': 60}
        tags.update(tags_r1)
        r = make_read(hdr, 'frag', s['seq'], 'chr1', s['pos'], cigar_str(s['cigar']), reverse=s['reverse'],
                      read1=(i == 0), paired=(other is not None), mate=mate, qual=s['qual'], tags=tags,
                      unmapped=s['unmapped'], proper=(other is not None and s['reverse'] != other['reverse']))
        reads.append(r)
    return reads


# ---------------------------------------------------------------- NlaIII
def nla_forward_specs(variant, motif, clip, r2mode, SITE=50):
    """Fragment on the forward strand whose restriction site C is at SITE."""
    if variant == 'shift':
        start = SITE + 1                      # first base of the motif was lost
        seq = 'ATG' + BG[10:10 + RLEN - 3]
    elif variant == 'wrongend':
        start = SITE
        seq = BG[10:10 + RLEN - 4] + 'CATG'
    else:
        start = SITE
        seq = motif + BG[10:10 + RLEN - 4]
    qual = ''.join(chr(40 + i) for i in range(RLEN))
    cig = [('M', RLEN)] if clip == 0 else [('S', clip), ('M', RLEN - clip)]
    s1 = {'seq': seq, 'qual': qual, 'pos': start + clip, 'cigar': cig, 'reverse': False, 'unmapped': False}
    if r2mode == 'none':
        s2 = None
    else:
        s2 = {'seq': BG[100:100 + RLEN], 'qual': qual, 'pos': SITE + FRAG - RLEN, 'cigar': [('M', RLEN)],
              'reverse': True, 'unmapped': False}
    return s1, s2


def nla_cases():
    for (variant, motif), clip, r2mode, acs, cm, inv, nocig in itertools.product(
            nla_variants(), range(0, 7), ('none', 'proper'), (False, True), (True, False), (False, True), (False, True)):
        if not cm and variant in ('shift',):
            continue
        if nocig and clip > 0:
            continue
        for site in (50, 0):       # 0: the motif sits on the very first bases of the contig (its mirror: on the very last)
            if site == 0 and (inv or nocig or not cm):
                continue
            yield {'kind': 'nla', 'variant': variant, 'motif': motif, 'clip': clip, 'r2': r2mode, 'allow_cycle_shift': acs,
                   'check_motif': cm, 'invert_strand': inv, 'no_umi_cigar_processing': nocig, 'site': site}


def nla_expect(case):
    v = case['variant']
    if not case['check_motif']:
        return True      # every full-length geometry is accepted, site = read start
    if v == 'exact':
        return True
    if v == 'shift':
        return bool(case['allow_cycle_shift'])
    return False


def observe(frag):
    r1 = frag.reads[0]
    try:
        valid = bool(frag.is_valid())
    except Exception as ex:
        return {'exception': f'is_valid:{type(ex).__name__}'}
    o = {'valid': valid,
         'DS': r1.get_tag('DS') if r1.has_tag('DS') else None,
         'RS': r1.get_tag('RS') if r1.has_tag('RS') else None,
         'RZ': r1.get_tag('RZ') if r1.has_tag('RZ') else None}
    try:
        frag.write_tags()
    except Exception as ex:
        o['exception'] = f'write_tags:{type(ex).__name__}'
    o['qcfail'] = bool(r1.is_qcfail)
    o['DS_after'] = r1.get_tag('DS') if r1.has_tag('DS') else None
    return o


def run_nla(case):
    from singlecellmultiomics.fragment import NlaIIIFragment
    out = []
    SITE = case.get('site', 50)
    fwd = nla_forward_specs(case['variant'], case['motif'], case['clip'], case['r2'], SITE)
    obs = {}
    for strand, specs in (('forward', fwd), ('reverse', tuple(mirror_read(s) for s in fwd))):
        reads = build_pair(specs, {})
        try:
            frag = NlaIIIFragment(reads, allow_cycle_shift=case['allow_cycle_shift'], check_motif=case['check_motif'],
                                  invert_strand=case['invert_strand'],
                                  no_umi_cigar_processing=case['no_umi_cigar_processing'])
            o = observe(frag)
        except Exception as ex:
            o = {'exception': f'constructor:{type(ex).__name__}:{ex}'}
        obs[strand] = o
        cls = 'clipped' if case['clip'] else 'unclipped'
        vclass = case['variant'] if case['variant'] in ('exact', 'shift', 'wrongend') else (
            'substitution' if case['variant'].startswith('subst') else 'decoy')
        pre = f'nla:{strand}:{vclass}:{cls}'
        if 'exception' in o:
            out.append((f'{pre}:exception:{o["exception"].split(":")[0]}:{o["exception"].split(":")[1]}', o))
            continue
        want_valid = nla_expect(case)
        want_site = SITE if strand == 'forward' else L - 4 - SITE
        want_rs = (strand == 'reverse') != case['invert_strand']
        if want_valid:
            if not o['valid']:
                out.append((f'{pre}:fragment-with-motif-rejected', o))
            else:
                if o['DS'] != want_site:
                    out.append((f'{pre}:wrong-site-coordinate', {'obs': o, 'want_DS': want_site}))
                if o['RS'] is None or bool(o['RS']) != want_rs:
                    out.append((f'{pre}:wrong-strand-tag', {'obs': o, 'want_RS': want_rs}))
                if case['variant'] == 'exact' and case['check_motif'] and o['RZ'] != 'CATG':
                    out.append((f'{pre}:wrong-recognised-sequence', o))
                if o['qcfail']:
                    out.append((f'{pre}:valid-fragment-flagged-qcfail', o))
        else:
            if o['valid']:
                out.append((f'{pre}:fragment-without-motif-accepted', o))
            if o['DS'] is not None or o['DS_after'] is not None:
                out.append((f'{pre}:rejected-fragment-assigned-a-site', o))
            if not o['qcfail']:
                out.append((f'{pre}:rejected-fragment-not-flagged-qcfail', o))
    # mirror relation (independent of the truth table)
    f, r = obs['forward'], obs['reverse']
    if 'exception' not in f and 'exception' not in r:
        if f['valid'] != r['valid']:
            out.append((f'nla:mirror:validity-differs-between-strands', obs))
        elif f['valid'] and f['DS'] is not None and r['DS'] is not None and r['DS'] != L - 4 - f['DS']:
            out.append((f'nla:mirror:site-not-mirrored', obs))
    return out, obs


# ---------------------------------------------------------------- CHIC
def chic_forward_specs(trimmed, clip, r2mode, SITE=50):
    """MNase fragment on the forward strand; the ligated overhang base sits at SITE+1, so the site
    (the base adjacent to it, outside the fragment) is SITE."""
    overhang = SITE + 1
    start = overhang + 1 if trimmed else overhang
    seq = BG[20:20 + RLEN] if trimmed else 'T' + BG[20:20 + RLEN - 1]
    qual = ''.join(chr(40 + i) for i in range(RLEN))
    cig = [('M', RLEN)] if clip == 0 else [('S', clip), ('M', RLEN - clip)]
    s1 = {'seq': seq, 'qual': qual, 'pos': start + clip, 'cigar': cig, 'reverse': False, 'unmapped': False}
    if r2mode == 'none':
        s2 = None
    elif r2mode == 'proper':
        s2 = {'seq': BG[100:100 + RLEN], 'qual': qual, 'pos': SITE + FRAG - RLEN, 'cigar': [('M', RLEN)],
              'reverse': True, 'unmapped': False}
    elif r2mode == 'same-strand':
        s2 = {'seq': BG[100:100 + RLEN], 'qual': qual, 'pos': SITE + FRAG - RLEN, 'cigar': [('M', RLEN)],
              'reverse': False, 'unmapped': False}
    elif r2mode == 'unmapped':
        s2 = {'seq': BG[100:100 + RLEN], 'qual': qual, 'pos': start + clip, 'cigar': [], 'reverse': False,
              'unmapped': True}
    return s1, s2


def chic_cases():
    for trimmed, clip, r2mode, inv, nocig in itertools.product((True, False), range(0, 7),
                                                               ('none', 'proper', 'same-strand', 'unmapped'),
                                                               (False, True), (False, True)):
        if nocig and clip > 0:
            continue
        for mx in (('scCHIC384C8U3', 'scCHIC384C8U3l', 'scCHIC384C8U3se') if trimmed else (None, 'CS2C8U6', 'NLAIII384C8U3')):
            for site in (50, 0):
                if site == 0 and (inv or nocig):
                    continue
                yield {'kind': 'chic', 'trimmed': trimmed, 'MX': mx, 'clip': clip, 'r2': r2mode, 'invert_strand': inv,
                       'no_umi_cigar_processing': nocig, 'site': site}


def mirror_chic(spec):
    m = mirror_read(spec)
    return m


def run_chic(case):
    from singlecellmultiomics.fragment import CHICFragment
    out = []
    SITE = case.get('site', 50)
    fwd = chic_forward_specs(case['trimmed'], case['clip'], case['r2'], SITE)
    obs = {}
    tags = {'lh': 'TA'}
    if case['MX'] is not None:
        tags['MX'] = case['MX']
    for strand, specs in (('forward', fwd), ('reverse', tuple(mirror_read(s) for s in fwd))):
        reads = build_pair(specs, tags)
        try:
            frag = CHICFragment(reads, invert_strand=case['invert_strand'],
                                no_umi_cigar_processing=case['no_umi_cigar_processing'])
            o = observe(frag)
        except Exception as ex:
            o = {'exception': f'constructor:{type(ex).__name__}:{ex}'}
        obs[strand] = o
        cls = 'clipped' if case['clip'] else 'unclipped'
        pre = f"chic:{strand}:{'trimmed' if case['trimmed'] else 'untrimmed'}:{cls}"
        if 'exception' in o:
            out.append((f'{pre}:exception:{o["exception"].split(":")[0]}:{o["exception"].split(":")[1]}', o))
            continue
        if case['r2'] == 'same-strand':
            continue     # validity of mis-oriented pairs is only compared between strands (mirror relation)
        want_site = SITE if strand == 'forward' else L - 1 - SITE
        want_rs = (strand == 'reverse') != case['invert_strand']
        if not o['valid']:
            out.append((f'{pre}:fragment-rejected', o))
        else:
            if o['DS'] != want_site:
                out.append((f'{pre}:wrong-site-coordinate', {'obs': o, 'want_DS': want_site}))
            if o['RS'] is None or bool(o['RS']) != want_rs:
                out.append((f'{pre}:wrong-strand-tag', {'obs': o, 'want_RS': want_rs}))
    f, r = obs['forward'], obs['reverse']
    if 'exception' not in f and 'exception' not in r:
        if f['valid'] != r['valid']:
            out.append(('chic:mirror:validity-differs-between-strands', obs))
        elif f['valid'] and f['DS'] is not None and r['DS'] is not None and r['DS'] != L - 1 - f['DS']:
            out.append(('chic:mirror:site-not-mirrored', obs))
    return out, obs


# ---------------------------------------------------------------- engine interface
def shards(tier):
    return [('nla', i, 16) for i in range(16)] + [('chic', i, 4) for i in range(4)]


def run_shard(shard, tier, acc):
    kind, i, n = shard
    gen = nla_cases() if kind == 'nla' else chic_cases()
    for j, case in enumerate(gen):
        if j % n != i:
            continue
        viols, obs = (run_nla if kind == 'nla' else run_chic)(case)
        nontriv = case['clip'] > 0 or case.get('variant', 'exact') != 'exact' or case.get('r2') in ('same-strand', 'unmapped')
        lab = f"{kind}:{case.get('variant', case.get('trimmed'))}:fv={obs['forward'].get('valid')}:rv={obs['reverse'].get('valid')}"
        acc.case(case, transitions=2, execs=2, nontrivial=nontriv, outcome=lab)
        for sig, d in viols:
            acc.violation(sig, case, d)


def replay(case):
    return (run_nla if case['kind'] == 'nla' else run_chic)(case)[0]
