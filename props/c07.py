"""C07 - the molecule partition is independent of the buffer-ejection schedule.

Schedules x inputs: for every coordinate-sorted multiset-word of fragment letters (sites placed around
the half-cache margin, short and long fragments, duplicates, two cells, two UMIs, both strands, a second
contig) the real MoleculeIterator is run for EVERY check_eject_every in {None,0..n}, both pooling
methods, two cache sizes, NlaIII and CHIC classes.  Oracle: partition == partition of the never-eject run,
every fragment emitted exactly once, pooling methods agree for exact UMIs.

Audit extension (kinds 'opt', 'bam', 'unsorted'): the same schedule quantifier under every iterator option that sits
between the input and the buffer (yield_invalid, every_fragment_as_molecule, skip_contigs, min_mapping_qual, a fragment cap
with yield_overflow on/off, max_buffer_size, perform_qflag + progress callback, the default interval), every documented
input shape (lists, tuples, 1-tuples, bare segments, an indexed BAM file with and without fetch arguments, ReadIterator),
a complete iteration followed by a second one, and - for check_eject_every=None only, where the documentation waives
sortedness - every unsorted delivery order.
"""
import itertools

from gen.frags import nla_reads, chic_reads, delivery_coordinate, partition_of

ID = 'C07'
RULE = ('all multisets of <=n fragment letters, delivered in coordinate order (all orders among equal coordinates), x '
        'check_eject_every in {None,0..n} x pooling {0,1} x cache size {100,1000} x class {NlaIII, CHIC r=0, CHIC r=15}; the same for the plain Fragment/Molecule '
        'classes over single-end reads that share starts or ends (a molecule can grow at its end); '
        'non-trivial = a run in which a molecule was ejected mid-stream while an older molecule stayed in the buffer '
        '(non-prefix pop); states = distinct (word, configuration) pairs, transitions = fragments pushed. '
        'kind opt: all multisets of <=m option letters (ok / QC-fail / mapping quality 5 and 10 / unmapped mate; two contigs) in every '
        'sorted order x every option of OPTIONS x check_eject_every in {None,0..n,default} x pooling {0,1}; max_buffer_size additionally '
        'x every limit 1..n; input shapes tuple / 1-tuple / bare segment for the options that look at the reads before a fragment '
        'exists; non-trivial = the option took effect in a run that also ejected mid-stream. '
        'kind bam: every multiset of <=k site letters written as a coordinate-sorted indexed BAM x fetch arguments {none, contig, '
        'contig+start+end} x MatePairIterator / ReadIterator x the same schedules. '
        'kind unsorted: every permutation of every multiset of <=k site letters with check_eject_every=None, site-exact classes')
ASSUMPTIONS = [
    'input is sorted by the coordinate at which a sorted BAM reader has seen all mates of a fragment',
    'every fragment spans less than half the cache size (48 < 50)',
    'UMIs are compared exactly (umi_hamming_distance=0)',
    'pooling methods are only compared with each other for site-exact classes (NlaIII, CHIC radius 0)',
    'plain-class input is sorted by fragment start; a re-used iterator object must behave like a fresh one after an abandoned iteration',
    'options: a fragment the option excludes by its documentation (invalid without yield_invalid, on a skipped contig, a read below '
    'min_mapping_qual, overflow without yield_overflow) is never emitted, every other fragment exactly once; the partition of the emitted '
    'fragments equals the never-eject partition under the same option',
    'max_buffer_size: MemoryError is demanded only when the number of buffered FRAGMENTS exceeds the limit and forbidden only when the '
    'number of buffered READS stays within it (the documentation says reads, the counter counts fragments; in between is left open); '
    'the buffer occupancy is observed from outside (fragments consumed minus fragments emitted) in the unlimited run of the same schedule',
    'fetch arguments never cut a fragment (whole contigs or a window containing all reads)',
    'unsorted input only with check_eject_every=None (documented), only site-exact classes (their grouping is an equivalence relation)',
    'perform_allele_clustering is left out: it changes the partition by design and needs an allele resolver (C18)',
]

CACHE = 100
S = {0: ('chr1', 1000), 1: ('chr1', 1010), 2: ('chr1', 1060), 3: ('chr1', 1200), 4: ('chr2', 500)}
SHORT, LONG = 20, 48
# letter = (site, length, cell, umi, reverse)
LETTERS = [
    (0, SHORT, 1, 'AAA', False), (0, LONG, 1, 'AAA', False), (0, SHORT, 1, 'CCC', False), (0, SHORT, 2, 'AAA', False),
    (1, SHORT, 1, 'AAA', False), (1, LONG, 1, 'AAA', False), (1, LONG, 1, 'AAA', True),
    (2, SHORT, 1, 'AAA', False), (2, LONG, 1, 'AAA', False),
    (3, SHORT, 1, 'AAA', False), (3, LONG, 1, 'AAA', False),
    (4, SHORT, 1, 'AAA', False),
]


# plain Fragment/Molecule (the iterator's default classes): single-end reads matched by equal start OR equal end,
# so a molecule can grow at its end and a later-starting fragment can still join it through its end coordinate
PLAIN_LETTERS = [
    ('chr1', 0, 10, 1), ('chr1', 0, 41, 1), ('chr1', 0, 49, 1), ('chr1', 10, 49, 1), ('chr1', 41, 49, 1), ('chr1', 45, 49, 1),
    ('chr1', 62, 100, 1), ('chr1', 5, 10, 1), ('chr1', 5, 15, 2), ('chr1', 41, 62, 2), ('chr1', 41, 80, 2),
    # a fragment ((5,10)) can fit two molecules of the same cell that share no coordinate ((0,10) by its end, (5,15) by its
    # start): which one it joins depends on the ORDER of the buffer, which ejecting an older, far-away molecule must not change
    ('chr1', 5, 15, 1), ('chr1', -70, -60, 2),
    ('chr2', 0, 10, 1), ('chr2', 10, 49, 1),      # same coordinates as chr1 letters, on another contig
    # a read pair whose mates map to the SAME strand (forward/forward): its span ends at the start of the right mate
    # (45), its last aligned base lies 20 further (65)
    ('chr1', 1, 11, 2, 45, 65),
]
PLAIN_BASE = 1000


# ---------------------------------------------------------------- audit extension: options, input shapes, BAM, unsorted
from gen.c07_opts import OPT_LETTERS, MIN_MQ, SITES as OPT_SITES   # noqa: E402

CORE = [0, 1, 2, 6, 8]            # ok letters: site 0 short / long / other cell, far site, second contig
# option -> iterator kwargs, molecule kwargs, letters, shapes to try in addition to lists
OPTIONS = {
    # no option: the unmapped-mate fragment and a site with the coordinate of site 0 on the second contig
    'no_option': {'letters': [0, 1, 2, 5, 6, 12], 'shapes': True},
    'drop_invalid': {'letters': [0, 1, 2, 3, 6, 9, 8], 'shapes': True},
    'yield_invalid': {'kw': {'yield_invalid': True}, 'letters': [0, 1, 2, 3, 6, 9, 8]},
    'every_fragment': {'kw': {'every_fragment_as_molecule': True}, 'letters': [0, 1, 3, 6, 8]},
    'every_fragment+yield_invalid': {'kw': {'every_fragment_as_molecule': True, 'yield_invalid': True}, 'letters': [0, 1, 3, 6, 8],
                                     'thorough': True},
    'skip_chr2': {'kw': {'skip_contigs': {'chr2'}}, 'letters': [0, 1, 2, 5, 6, 8], 'shapes': True},
    'skip_chr1': {'kw': {'skip_contigs': {'chr1'}}, 'letters': [0, 6, 8, 11]},
    'min_mq': {'kw': {'min_mapping_qual': MIN_MQ}, 'letters': [0, 1, 4, 6, 7, 8, 10], 'shapes': True},
    'cap2': {'margs': {'max_associated_fragments': 2}, 'letters': CORE},
    'cap2_drop': {'margs': {'max_associated_fragments': 2}, 'kw': {'yield_overflow': False}, 'letters': CORE},
    'cap1': {'margs': {'max_associated_fragments': 1}, 'letters': CORE, 'thorough': True},
    'max_buffer': {'letters': CORE},
    # single-end fragments only (reads == fragments: the clause is exact), one more fragment: a molecule of two is ejected, then the
    # buffer has to grow back to the limit without passing it
    'max_buffer_deep': {'letters': [0, 6, 8], 'extra_fragments': 1},
    'qflag_callback': {'kw': {'perform_qflag': True, 'progress_callback_function': 'CALLBACK'}, 'letters': [0, 1, 2, 5, 6, 8],
                       'shapes': True},
    'twice': {'letters': CORE},
}
OPT_CLASSES = {'quick': ['nla'], 'thorough': ['nla', 'chic15', 'plain']}
BAM_CLASSES = {'quick': ['nla'], 'thorough': ['nla', 'chic15']}
UNSORTED_CLASSES = {'quick': ['nla'], 'thorough': ['nla', 'chic0']}
BAM_FETCH = [{}, {'contig': 'chr1'}, {'contig': 'chr2'}, {'contig': 'chr1', 'start': 0, 'end': 5000}]
# quick: one cell, one UMI (site 0 short/long, site 1 short/long/long reverse, long at sites 2 and 3, second contig)
BAM_LETTERS = {'quick': [0, 1, 4, 5, 6, 8, 10, 11], 'thorough': list(range(12))}


def classes_of(cls):
    from singlecellmultiomics.molecule import NlaIIIMolecule, CHICMolecule, Molecule
    from singlecellmultiomics.fragment import NlaIIIFragment, CHICFragment, Fragment
    if cls == 'plain':
        return Molecule, Fragment, {'umi_hamming_distance': 0}
    if cls == 'nla':
        return NlaIIIMolecule, NlaIIIFragment, {'umi_hamming_distance': 0}
    return CHICMolecule, CHICFragment, {'umi_hamming_distance': 0, 'assignment_radius': 0 if cls == 'chic0' else 15}


def opt_expected(letter, optname):
    """does the documentation of the option let this fragment out? (True / False)"""
    site, length, cell, umi, variant = letter
    kw = OPTIONS[optname].get('kw', {})
    if variant == 'qcfail' and not kw.get('yield_invalid'):
        return False
    if OPT_SITES[site][0] in kw.get('skip_contigs', ()):
        return False
    if 'min_mapping_qual' in kw and variant == 'mq5':
        return False
    return True


def opt_orders(multiset):
    from gen.c07_opts import opt_delivery
    groups = {}
    for li in multiset:
        groups.setdefault(opt_delivery(li), []).append(li)
    per = [sorted(set(itertools.permutations(groups[k]))) for k in sorted(groups)]
    for combo in itertools.product(*per):
        yield tuple(x for g in combo for x in g)


def run_opt(word, cls, e, pooling, optname, shape='list', maxbuf=None, twice=False):
    """one run of the real iterator; returns (molecules, fragments consumed at each yield, raised MemoryError?)"""
    from singlecellmultiomics.molecule import MoleculeIterator
    from gen.c07_opts import opt_reads, as_form
    mc, fc, fargs = classes_of(cls)
    opt = OPTIONS[optname]
    kw = dict(opt.get('kw', {}))
    kw.setdefault('perform_qflag', False)
    calls = []
    if kw.get('progress_callback_function') == 'CALLBACK':
        # a callback that looks at the iterator the way a progress bar does
        kw['progress_callback_function'] = lambda i, it, reads: calls.append((i, repr(it), it.get_molecule_cache_size()))
    if 'skip_contigs' in kw:
        kw['skip_contigs'] = set(kw['skip_contigs'])
    if e != 'default':
        kw['check_eject_every'] = e
    if maxbuf is not None:
        kw['max_buffer_size'] = maxbuf
    margs = dict(opt.get('margs', {}), cache_size=CACHE)
    counter = {'n': 0}

    def feed():
        items = as_form([opt_reads(f'f{i}', OPT_LETTERS[li], cls) for i, li in enumerate(word)], shape)
        counter['n'] = 0
        for r in items:
            counter['n'] += 1
            yield r
    it = MoleculeIterator(feed(), molecule_class=mc, fragment_class=fc, pooling_method=pooling, molecule_class_args=margs,
                          fragment_class_args=fargs, **kw)
    if twice:
        # history on the SAME iterator object: an earlier iteration, complete ('all') or abandoned after its k-th molecule
        g = iter(it)
        for k, _ in enumerate(g, 1):
            if k == twice:
                break
        del g
        it.alignments = feed()
    mols, consumed = [], []
    try:
        for m in it:
            mols.append(m)
            consumed.append(counter['n'])
    except MemoryError:
        if maxbuf is None:
            raise
        return mols, consumed, True
    return mols, consumed, False


def names_of(mols):
    return [tuple(sorted({r.query_name for r in m.iter_reads()})) for m in mols]


def check_opt_word(word, optname, tier):
    from gen.c07_opts import n_reads
    viol = {}
    n = len(word)
    nruns = 0
    flags = {'ejected': False, 'effect': False, 'memerr': False}
    expected = sorted(f'f{i}' for i, li in enumerate(word) if opt_expected(OPT_LETTERS[li], optname))
    copies = {}
    for li in word:
        if OPT_LETTERS[li][4] != 'qcfail':
            copies[OPT_LETTERS[li][:1] + OPT_LETTERS[li][2:3]] = copies.get(OPT_LETTERS[li][:1] + OPT_LETTERS[li][2:3], 0) + 1
    most = max(copies.values()) if copies else 0          # copies of one (site, cell): they would share a molecule
    # did the option do anything on this word?
    if optname in ('drop_invalid', 'yield_invalid', 'every_fragment+yield_invalid'):
        flags['effect'] = any(OPT_LETTERS[li][4] == 'qcfail' for li in word)
    elif optname == 'every_fragment':
        flags['effect'] = most > 1
    elif optname.startswith('cap'):
        flags['effect'] = most > OPTIONS[optname]['margs']['max_associated_fragments']
    elif optname in ('qflag_callback', 'twice', 'no_option'):
        flags['effect'] = True
    else:
        flags['effect'] = len(expected) < n
    single_end = all(n_reads(OPT_LETTERS[li]) == 1 for li in word)
    for cls in OPT_CLASSES[tier]:
        for pooling in (0, 1):
            base = None
            pre = f'{cls}:pooling{pooling}:opt:{optname}'
            for e in [None] + list(range(n + 1)) + ['default']:
                try:
                    mols, consumed, _ = run_opt(word, cls, e, pooling, optname)
                except Exception as ex:
                    viol.setdefault(f'{pre}:exception:{type(ex).__name__}', {'e': e, 'ex': repr(ex)})
                    continue
                nruns += 1
                part = sorted(names_of(mols))
                names = sorted(x for g in part for x in g)
                if any(c < n for c in consumed) and not optname.startswith('every_fragment'):
                    flags['ejected'] = True
                if len(names) != len(set(names)):
                    viol.setdefault(f'{pre}:fragment-emitted-twice', {'e': e, 'partition': part})
                elif optname == 'cap2_drop':
                    # which copies overflow is decided by arrival order (compared with the never-eject run below); how many is
                    # documented: the copies of one (site, cell) beyond the cap are not yielded
                    keep = sum(min(c, 2) for c in copies.values())
                    if len(names) != keep:
                        viol.setdefault(f'{pre}:' + ('fragment-lost' if len(names) < keep else 'overflow-fragment-emitted'),
                                        {'e': e, 'partition': part, 'expected_number_of_fragments': keep})
                elif names != expected:
                    what = 'fragment-lost' if set(expected) - set(names) else 'excluded-fragment-emitted'
                    viol.setdefault(f'{pre}:{what}', {'e': e, 'partition': part, 'expected_fragments': expected})
                if optname.startswith('every_fragment') and any(len(g) > 1 for g in part):
                    viol.setdefault(f'{pre}:fragments-grouped', {'e': e, 'partition': part})
                if base is None:
                    base = part
                elif part != base:
                    viol.setdefault(f'{pre}:partition-depends-on-ejection-schedule', {'e': e, 'got': part, 'never_eject': base})
                # ---- histories and shapes on the two extreme schedules
                if e in (None, 0):
                    variants = []
                    if optname == 'twice':
                        variants.append(('second-complete-iteration', {'twice': 'all'}))
                        variants += [(f'iteration-after-one-abandoned-at-molecule-{k}', {'twice': k}) for k in (1, 2) if k < len(part)]
                    if OPTIONS[optname].get('shapes'):
                        variants.append(('shape-tuple', {'shape': 'tuple'}))
                        if single_end:
                            variants += [('shape-single', {'shape': 'single'}), ('shape-bare', {'shape': 'bare'})]
                    for vname, vkw in variants:
                        try:
                            mols2, _, _ = run_opt(word, cls, e, pooling, optname, **vkw)
                            nruns += 1
                            part2 = sorted(names_of(mols2))
                            if part2 != part:
                                viol.setdefault(f'{pre}:{vname}:partition-differs', {'e': e, 'got': part2, 'list_input_fresh_iterator': part})
                        except Exception as ex:
                            # the shape is handled before any fragment / buffer exists: one signature per option, not per class
                            viol.setdefault(f'opt:{optname}:{vname}:exception:{type(ex).__name__}',
                                            {'e': e, 'class': cls, 'pooling': pooling, 'ex': repr(ex)})
                # ---- max_buffer_size: occupancy observed from outside in this (unlimited) run
                if optname.startswith('max_buffer'):
                    sizes = [len(g) for g in names_of(mols)]
                    reads_of = {f'f{i}': n_reads(OPT_LETTERS[li]) for i, li in enumerate(word)}
                    rsizes = [sum(reads_of[x] for x in g) for g in names_of(mols)]
                    occ_f, occ_r = [], []
                    for c in range(1, n + 1):      # occupancy when fragment c has just been stored
                        gone_f = sum(sz for sz, at in zip(sizes, consumed) if at < c)
                        gone_r = sum(sz for sz, at in zip(rsizes, consumed) if at < c)
                        occ_f.append(c - gone_f)
                        occ_r.append(sum(n_reads(OPT_LETTERS[li]) for li in word[:c]) - gone_r)
                    for k in range(1, n + 1):
                        try:
                            mols3, _, err = run_opt(word, cls, e, pooling, optname, maxbuf=k)
                        except Exception as ex:
                            viol.setdefault(f'{pre}:limited:exception:{type(ex).__name__}', {'e': e, 'limit': k, 'ex': repr(ex)})
                            continue
                        nruns += 1
                        if err:
                            flags['memerr'] = True
                            if max(occ_f) <= k and max(occ_r) <= k:
                                viol.setdefault(f'{pre}:MemoryError-although-buffer-within-limit',
                                                {'e': e, 'limit': k, 'buffered_fragments_after_each_push': occ_f, 'buffered_reads': occ_r})
                        else:
                            if max(occ_f) > k:
                                viol.setdefault(f'{pre}:limit-exceeded-without-MemoryError',
                                                {'e': e, 'limit': k, 'buffered_fragments_after_each_push': occ_f})
                            elif sorted(names_of(mols3)) != part:
                                viol.setdefault(f'{pre}:limited:partition-differs', {'e': e, 'limit': k, 'got': sorted(names_of(mols3))})
                            if max(occ_f) < n:
                                flags['effect'] = True      # the limit was survived only because molecules were ejected in time
    return [(s_, d) for s_, d in viol.items()], nruns, flags


# ---- kind bam: the iterator reads an indexed coordinate-sorted BAM file itself
def read_partition(mols):
    return sorted(tuple(sorted((r.query_name, 1 if r.is_read1 else 2) for r in m.iter_reads())) for m in mols)


def check_bam_word(ms, tier):
    import os
    import shutil
    import tempfile
    import pysam
    from singlecellmultiomics.molecule import MoleculeIterator
    from singlecellmultiomics.molecule.iterator import ReadIterator
    from gen.c07_opts import write_sorted_bam
    word = next(orders(ms))
    n = len(word)
    viol = {}
    nruns = 0
    flags = {'ejected': False, 'restricted': False}
    d = tempfile.mkdtemp(dir='/dev/shm', prefix='c07bam_')
    try:
        for cls in BAM_CLASSES[tier]:
            mc, fc, fargs = classes_of(cls)
            path = write_sorted_bam(os.path.join(d, f'{cls}.bam'), build(word, cls))
            for fetch in BAM_FETCH:
                want = sorted(f'f{i}' for i, li in enumerate(word) if 'contig' not in fetch or S[LETTERS[li][0]][0] == fetch['contig'])
                for icls in ('mate', 'read'):
                    if icls == 'read' and fetch:
                        continue
                    ikw = {'iterator_class': ReadIterator} if icls == 'read' else {}
                    for pooling in (0, 1):
                        base = None
                        pre = f'{cls}:pooling{pooling}:bam:{icls}-iterator:' + ('fetch-' + '+'.join(sorted(fetch)) if fetch else 'whole-file')
                        for e in [None] + list(range(n + 1)):
                            try:
                                with pysam.AlignmentFile(path) as f:
                                    it = MoleculeIterator(f, molecule_class=mc, fragment_class=fc, check_eject_every=e,
                                                          pooling_method=pooling, molecule_class_args={'cache_size': CACHE},
                                                          fragment_class_args=fargs, perform_qflag=False, **ikw, **fetch)
                                    mols, tells = [], []
                                    for m in it:
                                        mols.append(m)
                                        tells.append(f.tell())
                                    end = f.tell()
                            except Exception as ex:
                                viol.setdefault(f'{pre}:exception:{type(ex).__name__}', {'e': e, 'ex': repr(ex)})
                                continue
                            nruns += 1
                            part = read_partition(mols)
                            ids = [x for g in part for x in g]
                            if len(ids) != len(set(ids)):
                                viol.setdefault(f'{pre}:read-emitted-twice', {'e': e, 'partition': part})
                            if icls == 'mate':
                                # every read of every fragment on the fetched contig comes out (all pairs are proper, same contig)
                                got = sorted({x[0] for x in ids})
                                if got != want:
                                    what = 'fragment-lost' if set(want) - set(got) else 'fragment-outside-fetch-emitted'
                                    viol.setdefault(f'{pre}:{what}', {'e': e, 'partition': part, 'expected_fragments': want})
                                if len(want) < n:
                                    flags['restricted'] = True
                            if base is None:
                                base = part
                            elif part != base:
                                viol.setdefault(f'{pre}:partition-depends-on-ejection-schedule', {'e': e, 'got': part, 'never_eject': base})
                            if any(t < end for t in tells):
                                flags['ejected'] = True      # a molecule came out before the file had been read to its end
    finally:
        shutil.rmtree(d, ignore_errors=True)
    return [(s_, d_) for s_, d_ in viol.items()], nruns, flags


# ---- kind unsorted: check_eject_every=None makes sorted input unnecessary (class docstring)
def check_unsorted_ms(ms, tier):
    from singlecellmultiomics.molecule import MoleculeIterator
    viol = {}
    nruns = 0
    # identity of a fragment = (letter, k-th copy): comparable between delivery orders
    ident = []
    seen = {}
    for li in ms:
        seen[li] = seen.get(li, 0) + 1
        ident.append((li, seen[li]))
    nperm = 0
    first = tuple(sorted(range(len(ms)), key=lambda i: (deliv(ms[i]), ms[i])))
    for cls in UNSORTED_CLASSES[tier]:
        mc, fc, fargs = classes_of(cls)
        ref = None
        done = set()
        for perm in [first] + sorted(itertools.permutations(range(len(ms)))):
            # permutations that only exchange copies of the same letter are the same input
            key = tuple(ms[i] for i in perm)
            if key in done:
                continue
            done.add(key)
            nperm += 1
            for pooling in (0, 1):
                reads = []
                cnt = {}
                for i in perm:
                    li = ms[i]
                    cnt[li] = cnt.get(li, 0) + 1
                    site, length, cell, umi, rev = LETTERS[li]
                    contig, pos = S[site]
                    fn = nla_reads if cls == 'nla' else chic_reads
                    reads.append(fn(f'L{li}c{cnt[li]}', contig, pos, length, cell, umi, reverse=rev))
                try:
                    it = MoleculeIterator(reads, molecule_class=mc, fragment_class=fc, check_eject_every=None, pooling_method=pooling,
                                          molecule_class_args={'cache_size': CACHE}, fragment_class_args=fargs, perform_qflag=False)
                    part = partition_of(list(it))
                except Exception as ex:
                    viol.setdefault(f'{cls}:pooling{pooling}:unsorted:exception:{type(ex).__name__}', {'order': list(key), 'ex': repr(ex)})
                    continue
                nruns += 1
                names = [x for g in part for x in g]
                if sorted(names) != sorted(f'L{li}c{k}' for li, k in ident):
                    what = 'fragment-emitted-twice' if len(names) != len(set(names)) else 'fragment-lost'
                    viol.setdefault(f'{cls}:pooling{pooling}:unsorted:{what}', {'order': list(key), 'partition': part})
                if ref is None:
                    ref = part      # the coordinate-sorted order, pooling 0
                elif part != ref:
                    viol.setdefault(f'{cls}:pooling{pooling}:unsorted:partition-depends-on-delivery-order-without-ejection',
                                    {'order': list(key), 'got': part, 'sorted_order': ref})
    return [(s_, d) for s_, d in viol.items()], nruns, nperm


def bounds(tier):
    return {'max_fragments': 5 if tier == 'quick' else 6, 'letters': LETTERS, 'sites': S, 'cache_sizes': [100, 1000],
            'classes': ['nla', 'chic0', 'chic15'] if tier == 'thorough' else ['nla', 'chic15'],
            'eject_every': 'None,0..n', 'pooling': [0, 1], 'plain_letters(contig,start,end,cell)': PLAIN_LETTERS,
            'plain_max_fragments': 4 if tier == 'quick' else 5,
            'opt_letters(site,length,cell,umi,variant)': OPT_LETTERS, 'opt_max_fragments': 4 if tier == 'quick' else 5,
            'opt_classes': OPT_CLASSES[tier], 'options': {k: {'letters': v['letters'], 'kw': repr(v.get('kw', {})),
                                                               'molecule_args': v.get('margs', {}),
                                                               'extra_fragments': v.get('extra_fragments', 0)}
                                                           for k, v in OPTIONS.items() if tier == 'thorough' or not v.get('thorough')},
            'opt_eject_every': 'None,0..n,default(10000)', 'max_buffer_size': '1..n', 'input_shapes': ['list', 'tuple', 'single', 'bare'],
            'bam_max_fragments': 3 if tier == 'quick' else 4, 'bam_classes': BAM_CLASSES[tier], 'bam_letters': BAM_LETTERS[tier],
            'bam_fetch': [repr(f) for f in BAM_FETCH], 'bam_iterator_classes': ['MatePairIterator', 'ReadIterator'],
            'unsorted_max_fragments': 3 if tier == 'quick' else 4, 'unsorted_classes': UNSORTED_CLASSES[tier],
            'lockstep_max_fragments': (2, 1) if tier == 'quick' else (2, 2), 'lockstep': 'all ordered pairs of multisets (sizes: A, B; thorough also A of 3 with B of 1), two iterator '
            'objects advanced alternately (A first / B first; B constructed before A starts / after A\'s first molecule), '
            'eject_every None/0/1, pooling 0/1, classes nla and plain'}


def build_plain(word):
    from gen.frags import HDR
    from gen.reads import make_read
    out = []
    for i, li in enumerate(word):
        letter = PLAIN_LETTERS[li]
        contig, s, e, cell = letter[:4]
        n = e - s
        tags = {'SM': f'LIB_{cell}', 'RX': 'AAA', 'BC': 'ACGTACGT', 'bi': cell}
        if len(letter) == 4:
            r = make_read(HDR, f'f{i}', 'A' * n, contig, PLAIN_BASE + s, f'{n}M', paired=False, tags=tags)
            out.append([r, None])
        else:
            s2, e2 = letter[4:]
            n2 = e2 - s2
            r1 = make_read(HDR, f'f{i}', 'A' * n, contig, PLAIN_BASE + s, f'{n}M', reverse=False, read1=True, paired=True,
                           mate=(contig, PLAIN_BASE + s2, False, False), tags=tags, proper=False)
            r2 = make_read(HDR, f'f{i}', 'C' * n2, contig, PLAIN_BASE + s2, f'{n2}M', reverse=False, read1=False, paired=True,
                           mate=(contig, PLAIN_BASE + s, False, False), tags=tags, proper=False)
            out.append([r1, r2])
    return out


def build(word, cls):
    """word: tuple of letter indices in delivery order -> list of [R1,R2] (fresh reads)"""
    if cls == 'plain':
        return build_plain(word)
    out = []
    for i, li in enumerate(word):
        site, length, cell, umi, rev = LETTERS[li]
        contig, pos = S[site]
        fn = nla_reads if cls == 'nla' else chic_reads
        out.append(fn(f'f{i}', contig, pos, length, cell, umi, reverse=rev))
    return out


_DELIV = {}


def deliv(li):
    if li not in _DELIV:
        site, length, cell, umi, rev = LETTERS[li]
        contig, pos = S[site]
        r = nla_reads('x', contig, pos, length, cell, umi, reverse=rev)
        _DELIV[li] = (contig, delivery_coordinate(r))
    return _DELIV[li]


def orders(multiset, kind='site'):
    """all delivery orders of the multiset: sorted by (contig, delivery coordinate); every order among ties"""
    groups = {}
    for li in multiset:
        key = deliv(li) if kind == 'site' else (PLAIN_LETTERS[li][0], PLAIN_LETTERS[li][1])
        groups.setdefault(key, []).append(li)
    keys = sorted(groups)
    per = [sorted(set(itertools.permutations(groups[k]))) for k in keys]
    for combo in itertools.product(*per):
        yield tuple(x for g in combo for x in g)


def run_iter(word, cls, e, pooling, cache, abandon_first=False):
    from singlecellmultiomics.molecule import MoleculeIterator, NlaIIIMolecule, CHICMolecule
    from singlecellmultiomics.fragment import NlaIIIFragment, CHICFragment
    reads = build(word, cls)
    if cls == 'plain':
        from singlecellmultiomics.molecule import Molecule
        from singlecellmultiomics.fragment import Fragment
        mc, fc, fargs = Molecule, Fragment, {'umi_hamming_distance': 0}
    elif cls == 'nla':
        mc, fc, fargs = NlaIIIMolecule, NlaIIIFragment, {'umi_hamming_distance': 0}
    else:
        mc, fc = CHICMolecule, CHICFragment
        fargs = {'umi_hamming_distance': 0, 'assignment_radius': 0 if cls == 'chic0' else 15}
    it = MoleculeIterator(reads, molecule_class=mc, fragment_class=fc, check_eject_every=e, pooling_method=pooling,
                          molecule_class_args={'cache_size': cache}, fragment_class_args=fargs, perform_qflag=False)
    mols = []
    consumed_at_yield = []
    # feed through a counting generator so that we know how much input was consumed at each yield
    counter = {'n': 0}

    def feed():
        for r in reads:
            counter['n'] += 1
            yield r
    it.alignments = feed()
    if abandon_first:
        # history: an iteration of the SAME iterator object that is abandoned after its first molecule, then a complete one
        g = iter(it)
        try:
            next(g)
        except StopIteration:
            pass
        del g
        reads2 = build(word, cls)
        counter['n'] = 0

        def feed2():
            for r in reads2:
                counter['n'] += 1
                yield r
        it.alignments = feed2()
    for m in it:
        mols.append(m)
        consumed_at_yield.append(counter['n'])
    return mols, consumed_at_yield


def check_word(word, tier, kind='site'):
    viol = {}
    n = len(word)
    nruns = 0
    nonprefix = False
    ejected = False
    ref_parts = {}
    for cls in (bounds(tier)['classes'] if kind == 'site' else ['plain']):
        for pooling in (0, 1):
            base = None
            for cache in (100, 1000):
                for e in [None] + list(range(0, n + 1)):
                    try:
                        mols, consumed = run_iter(word, cls, e, pooling, cache)
                    except Exception as ex:
                        viol.setdefault(f'{cls}:pooling{pooling}:exception:{type(ex).__name__}', {'e': e, 'cache': cache, 'ex': repr(ex)})
                        continue
                    nruns += 1
                    part = partition_of(mols)
                    names = [x for g in part for x in g]
                    if sorted(names) != sorted(f'f{i}' for i in range(n)):
                        dup = len(names) != len(set(names))
                        viol.setdefault(f'{cls}:pooling{pooling}:fragment-' + ('emitted-twice' if dup else 'lost'),
                                        {'e': e, 'cache': cache, 'partition': part})
                    if base is None:
                        base = part        # e=None, cache=100: the never-eject reference
                        ref_parts[(cls, pooling)] = part
                    elif part != base:
                        viol.setdefault(f'{cls}:pooling{pooling}:partition-depends-on-ejection-schedule',
                                        {'e': e, 'cache': cache, 'got': part, 'never_eject': base})
                    if cache == 100 and e in (None, 0) and base is not None:
                        try:
                            mols2, _ = run_iter(word, cls, e, pooling, cache, abandon_first=True)
                            nruns += 1
                            part2 = partition_of(mols2)
                            if part2 != base:
                                names2 = [x for g in part2 for x in g]
                                what = ('fragment-emitted-twice' if len(names2) != len(set(names2)) else 'partition-differs')
                                viol.setdefault(f'{cls}:pooling{pooling}:re-iteration-after-abandoned-iteration:{what}',
                                                {'e': e, 'got': part2, 'fresh': base})
                        except Exception as ex:
                            viol.setdefault(f'{cls}:pooling{pooling}:re-iteration:exception:{type(ex).__name__}', {'e': e, 'ex': repr(ex)})
                    # non-trivial: mid-stream ejection of a molecule while an older molecule is emitted later
                    first = [min(int(r.query_name[1:]) for r in m.iter_reads()) for m in mols]
                    for i, c in enumerate(consumed):
                        if c < n:
                            ejected = True
                            if any(first[j] < first[i] for j in range(i + 1, len(mols))):
                                nonprefix = True
        if cls in ('nla', 'chic0') and (cls, 0) in ref_parts and (cls, 1) in ref_parts and ref_parts[(cls, 0)] != ref_parts[(cls, 1)]:
            viol.setdefault(f'{cls}:pooling-methods-disagree-with-exact-umis', {'p0': ref_parts[(cls, 0)], 'p1': ref_parts[(cls, 1)]})
    return [(s, d) for s, d in viol.items()], nruns, nonprefix, ejected


def _make_iter(word, cls, e, pooling, cache):
    from singlecellmultiomics.molecule import MoleculeIterator, NlaIIIMolecule, CHICMolecule, Molecule
    from singlecellmultiomics.fragment import NlaIIIFragment, CHICFragment, Fragment
    reads = build(word, cls)
    if cls == 'plain':
        mc, fc, fargs = Molecule, Fragment, {'umi_hamming_distance': 0}
    elif cls == 'nla':
        mc, fc, fargs = NlaIIIMolecule, NlaIIIFragment, {'umi_hamming_distance': 0}
    else:
        mc, fc = CHICMolecule, CHICFragment
        fargs = {'umi_hamming_distance': 0, 'assignment_radius': 0 if cls == 'chic0' else 15}
    return MoleculeIterator(reads, molecule_class=mc, fragment_class=fc, check_eject_every=e, pooling_method=pooling,
                            molecule_class_args={'cache_size': cache}, fragment_class_args=fargs, perform_qflag=False)


LOCKSTEP_CLASSES = ['nla', 'plain']


def check_lockstep(wa, wb, tier):
    """Two iterator objects alive in one process (two libraries read side by side), advanced alternately - A first or B first,
    B constructed before A starts or after A has produced its first molecule. Nothing a MoleculeIterator buffers belongs to
    another iterator: each must emit every one of its fragments exactly once and produce the partition it produces alone."""
    viol = {}
    nruns = 0
    interleaved = False
    for cls in LOCKSTEP_CLASSES:
        for pooling in (0, 1):
            for e in (None, 0, 1):
                try:
                    alone = [partition_of(list(_make_iter(w, cls, e, pooling, 100))) for w in (wa, wb)]
                except Exception as ex:
                    viol.setdefault(f'lockstep:{cls}:pooling{pooling}:alone:exception:{type(ex).__name__}', {'e': e, 'ex': repr(ex)})
                    continue
                for first in (0, 1):
                    for late_b in (False, True):
                        nruns += 1
                        outs = [[], []]
                        try:
                            its = [_make_iter(wa, cls, e, pooling, 100), None]
                            gens = [iter(its[0]), None]
                            if late_b:
                                try:
                                    outs[0].append(next(gens[0]))
                                except StopIteration:
                                    pass
                            its[1] = _make_iter(wb, cls, e, pooling, 100)
                            gens[1] = iter(its[1])
                            alive = [True, True]
                            while any(alive):
                                for idx in ((0, 1) if first == 0 else (1, 0)):
                                    if alive[idx]:
                                        try:
                                            outs[idx].append(next(gens[idx]))
                                        except StopIteration:
                                            alive[idx] = False
                        except Exception as ex:
                            viol.setdefault(f'lockstep:{cls}:pooling{pooling}:exception:{type(ex).__name__}',
                                            {'e': e, 'first': 'AB'[first], 'b_constructed_late': late_b, 'ex': repr(ex)})
                            continue
                        if outs[0] and outs[1] and len(outs[0]) + len(outs[1]) > 2:
                            interleaved = True
                        for idx in (0, 1):
                            part = partition_of(outs[idx])
                            if part != alone[idx]:
                                names = [x for g in part for x in g]
                                want = [x for g in alone[idx] for x in g]
                                what = ('fragment-emitted-twice' if len(names) != len(set(names)) else
                                        'fragment-lost-or-foreign' if sorted(names) != sorted(want) else 'partition-differs-from-running-alone')
                                viol.setdefault(f'lockstep:{cls}:pooling{pooling}:{what}',
                                                {'e': e, 'iterator': 'AB'[idx], 'first': 'AB'[first], 'b_constructed_late': late_b,
                                                 'got': part, 'alone': alone[idx]})
    return [(s_, d) for s_, d in viol.items()], nruns, interleaved


def multisets(letters, kmax):
    out = []
    for k in range(1, kmax + 1):
        out.extend(itertools.combinations_with_replacement(letters, k))
    return out


def shards(tier):
    b = bounds(tier)
    ms = multisets(range(len(LETTERS)), b['max_fragments'])
    G = 16 if tier == 'quick' else 24
    out = [('site', ms[i:i + G]) for i in range(0, len(ms), G)]
    pm = multisets(range(len(PLAIN_LETTERS)), b['plain_max_fragments'])
    out += [('plain', pm[i:i + 3 * G]) for i in range(0, len(pm), 3 * G)]
    for optname, opt in OPTIONS.items():
        if opt.get('thorough') and tier != 'thorough':
            continue
        om = multisets(opt['letters'], b['opt_max_fragments'] + opt.get('extra_fragments', 0))
        H = 48 if not optname.startswith('max_buffer') else 16
        out += [('opt', optname, om[i:i + H]) for i in range(0, len(om), H)]
    bm = multisets(BAM_LETTERS[tier], b['bam_max_fragments'])
    out += [('bam', bm[i:i + 12]) for i in range(0, len(bm), 12)]
    um = multisets(range(len(LETTERS)), b['unsorted_max_fragments'])
    out += [('unsorted', um[i:i + 48]) for i in range(0, len(um), 48)]
    la, lb = b['lockstep_max_fragments']
    pairs = [(a, c) for a in multisets(range(len(LETTERS)), la) for c in multisets(range(len(LETTERS)), lb)]
    if tier == 'thorough':
        l3 = multisets(range(len(LETTERS)), 3)
        pairs += [(a, c) for a in l3 if len(a) == 3 for c in multisets(range(len(LETTERS)), 1)]
    out += [('lockstep', pairs[i:i + 160]) for i in range(0, len(pairs), 160)]
    return out


def run_shard(shard, tier, acc):
    kind = shard[0]
    if kind == 'opt':
        _, optname, mss = shard
        for ms in mss:
            for word in opt_orders(ms):
                viols, nruns, fl = check_opt_word(word, optname, tier)
                case = {'word': list(word), 'kind': 'opt', 'option': optname}
                nt = fl['effect'] and (fl['ejected'] or optname.startswith('every_fragment'))
                acc.case(case, transitions=nruns * len(word), execs=nruns, nontrivial=nt, states=nruns,
                         outcome=f'opt:{optname}:effect={fl["effect"]},ejected={fl["ejected"]}' + (f',MemoryError={fl["memerr"]}' if optname.startswith('max_buffer') else ''))
                for sig, d in viols:
                    acc.violation(sig, case, d)
        return
    if kind == 'bam':
        for ms in shard[1]:
            viols, nruns, fl = check_bam_word(ms, tier)
            case = {'word': list(ms), 'kind': 'bam'}
            acc.case(case, transitions=nruns * len(ms), execs=nruns, nontrivial=fl['ejected'], states=nruns,
                     outcome=f'bam:n={len(ms)},ejected={fl["ejected"]},fetch_restricts={fl["restricted"]}')
            for sig, d in viols:
                acc.violation(sig, case, d)
        return
    if kind == 'unsorted':
        for ms in shard[1]:
            viols, nruns, nperm = check_unsorted_ms(ms, tier)
            case = {'word': list(ms), 'kind': 'unsorted'}
            acc.case(case, transitions=nruns * len(ms), execs=nruns, nontrivial=nperm > len(UNSORTED_CLASSES[tier]), states=nruns,
                     outcome=f'unsorted:n={len(ms)},orders>1={nperm > len(UNSORTED_CLASSES[tier])}')
            for sig, d in viols:
                acc.violation(sig, case, d)
        return
    if kind == 'lockstep':
        for a, c in shard[1]:
            wa, wb = next(iter(orders(a))), next(iter(orders(c)))
            viols, nruns, inter = check_lockstep(wa, wb, tier)
            case = {'word': list(wa), 'word_b': list(wb), 'kind': 'lockstep'}
            acc.case(case, transitions=nruns * (len(wa) + len(wb)), execs=nruns, nontrivial=inter, states=nruns,
                     outcome=f'lockstep:interleaved={inter}')
            for sig, d in viols:
                acc.violation(sig, case, d)
        return
    kind, mss = shard
    for ms in mss:
        for word in orders(ms, kind):
            viols, nruns, nonprefix, ejected = check_word(word, tier, kind)
            case = {'word': list(word), 'kind': kind}
            acc.case(case, transitions=nruns * len(word), execs=nruns, nontrivial=nonprefix, states=nruns,
                     outcome=f'n={len(word)},ejected={ejected},nonprefix={nonprefix}')
            for sig, d in viols:
                acc.violation(sig, case, d)


def replay(case):
    # the tier only selects the classes; replay with the widest set
    kind = case.get('kind', 'site')
    if kind == 'opt':
        return check_opt_word(tuple(case['word']), case['option'], 'thorough')[0]
    if kind == 'bam':
        return check_bam_word(tuple(case['word']), 'thorough')[0]
    if kind == 'unsorted':
        return check_unsorted_ms(tuple(case['word']), 'thorough')[0]
    if kind == 'lockstep':
        return check_lockstep(tuple(case['word']), tuple(case['word_b']), 'thorough')[0]
    return check_word(tuple(case['word']), 'thorough', kind)[0]
