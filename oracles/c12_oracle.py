"""C12 oracle, written from the property statement only:

  "The per-cell, per-bin matrix of unique molecules counts each non-duplicate, non-rejected read-1 record
   passing the mapping-quality threshold (and not marked as non-uniquely mappable) exactly once, in the bin
   that contains its site coordinate ... Its total equals the number of such records in the BAM."

The BAM is read back record by record with pysam (until_eof, no index, no fetch windows); nothing of the
package under test is used.  A matrix is canonically  {(key tag values..., contig, bin_start): {cell: n}}.
"""
import pysam


def qualifies(read, min_mq):
    if not read.is_read1:
        return False
    if read.is_duplicate:
        return False
    if read.is_qcfail:                       # rejected molecules are written with the QC-fail flag
        return False
    if min_mq is not None and read.mapping_quality < min_mq:     # "Minimum mapping quality"
        return False
    if read.has_tag('mp') and read.get_tag('mp') != 'unique':
        return False
    return True


def expected(path, bin_size, min_mq, key_tags=None, in_contig_only=True, weight=None):
    """-> (matrix, n_qualifying_records, n_outside_contig)

    weight: None, or (query_name, qualifies) -> multiplicity; only used to EXPLAIN a discrepancy
    (what-if matrices such as "records of kind K counted twice"), never to decide one."""
    matrix = {}
    total = 0
    outside = 0
    with pysam.AlignmentFile(path) as f:
        lengths = dict(zip(f.references, f.lengths))
        for read in f.fetch(until_eof=True):
            w = 1 if qualifies(read, min_mq) else 0
            if weight is not None:
                w = weight(read.query_name, bool(w))
            if not w:
                continue
            site = int(read.get_tag('DS'))
            contig = read.reference_name
            if not (0 <= site < lengths[contig]):
                outside += 1
                if in_contig_only:
                    continue
            total += w
            cell = read.get_tag('SM')
            key = (contig, (site // bin_size) * bin_size)
            if key_tags:
                key = tuple(read.get_tag(t) if read.has_tag(t) else None for t in key_tags) + key
            row = matrix.setdefault(key, {})
            row[cell] = row.get(cell, 0) + w
    return matrix, total, outside


def tiling_ok(contig, start, end, bin_size, lengths):
    """is (contig, start, end) a bin of the tiling of the contig (last bin clipped or not, both accepted:
    the property only needs the bin to be identifiable and to contain the site)"""
    if contig not in lengths:
        return False
    if start % bin_size != 0 or not (0 <= start < lengths[contig]):
        return False
    return end in (start + bin_size, min(start + bin_size, lengths[contig]))


def diff(got, want):
    """-> (under, over) lists of (key, cell, got, want) with got<want / got>want"""
    under, over = [], []
    for key in sorted(set(got) | set(want), key=repr):
        g, w = got.get(key, {}), want.get(key, {})
        for cell in sorted(set(g) | set(w)):
            a, b = g.get(cell, 0), w.get(cell, 0)
            if a < b:
                under.append((key, cell, a, b))
            elif a > b:
                over.append((key, cell, a, b))
    return under, over


def total(matrix):
    return sum(n for row in matrix.values() for n in row.values())


# ---------------------------------------------------------------------------------------------------------------
# general form (audit extension): several input files, the options that select records, records without SM / DS
# ---------------------------------------------------------------------------------------------------------------
NOSM = '<no SM tag>'        # the column of records without a cell name; the property does not name it


def classify(read, min_mq=50, dedup=True, ignore_mp=False, default_filter=False):
    """-> 'count' | 'skip' | 'open' for one BAM record, from the property text and the meaning of the options:

    read 1 only; QC-fail (rejected) never; duplicates never unless duplicate removal is switched off (dedup=False);
    MAPQ >= min_mq (None: no threshold); mp present and != 'unique' never unless ignore_mp.
    default_filter: the run was not given a threshold / a filter (get_binned_counts without filter_function). Read 1,
    duplicate and QC-fail are still decided by the property; whether a record with a low MAPQ or an mp mark counts
    there is left OPEN (nothing configures it), such a record may be counted once or not at all."""
    if not read.is_read1:
        return 'skip'
    if read.is_qcfail:
        return 'skip'
    if dedup and read.is_duplicate:
        return 'skip'
    marked = read.has_tag('mp') and read.get_tag('mp') != 'unique'
    if default_filter:
        if marked or read.mapping_quality < 60:
            return 'open'
        return 'count'
    if min_mq is not None and read.mapping_quality < min_mq:
        return 'skip'
    if marked and not ignore_mp:
        return 'skip'
    return 'count'


def expected_general(paths, bin_size, min_mq=50, dedup=True, ignore_mp=False, key_tags=None, skip_contigs=None,
                     default_filter=False, aliases=None, contigs=None):
    """-> {'exact': {key: {cell: n}}, 'open': {key: {cell: n}}, 'floating': {(tag values.., contig, cell): n},
           'n_exact', 'n_open', 'n_floating', 'cells': set of cell names seen in SM tags}

    exact     records that must be counted once, in bin (site // bin_size) * bin_size of their contig
    open      records that may be counted once or not at all (see classify), by bin
    floating  countable records WITHOUT a DS tag: counted once, for their cell, on their contig; the bin is not stated
    Sites outside the contig are not generated for this function.  skip_contigs / contigs: contigs excluded from / the
    only contigs included in the run.  aliases: one name per path, the cell becomes 'alias|cell' (prefixed entry point)."""
    exact, opn, floating = {}, {}, {}
    n = {'exact': 0, 'open': 0, 'floating': 0}
    cells = set()
    skip = set(skip_contigs or ())
    for i, path in enumerate(paths):
        with pysam.AlignmentFile(path) as f:
            lengths = dict(zip(f.references, f.lengths))
            for read in f.fetch(until_eof=True):
                if read.is_unmapped:
                    continue
                contig = read.reference_name
                if contig in skip or (contigs is not None and contig not in contigs):
                    continue
                c = classify(read, min_mq, dedup, ignore_mp, default_filter)
                if c == 'skip':
                    continue
                cell = read.get_tag('SM') if read.has_tag('SM') else NOSM
                if read.has_tag('SM'):
                    cells.add(cell)
                if aliases is not None:
                    cell = f'{aliases[i]}|{cell}'
                tagv = tuple(read.get_tag(t) if read.has_tag(t) else None for t in (key_tags or ()))
                if not read.has_tag('DS'):
                    if c != 'count':
                        raise ValueError('generator: open records without DS are not supported')
                    k = tagv + (contig, cell)
                    floating[k] = floating.get(k, 0) + 1
                    n['floating'] += 1
                    continue
                site = int(read.get_tag('DS'))
                if not (0 <= site < lengths[contig]):
                    raise ValueError('generator: site outside the contig')
                key = tagv + (contig, (site // bin_size) * bin_size)
                tgt = exact if c == 'count' else opn
                row = tgt.setdefault(key, {})
                row[cell] = row.get(cell, 0) + 1
                n['exact' if c == 'count' else 'open'] += 1
    return {'exact': exact, 'open': opn, 'floating': floating, 'n_exact': n['exact'], 'n_open': n['open'],
            'n_floating': n['floating'], 'cells': cells}


def judge_general(got, want, n_tags):
    """got: {key without bin end: {cell: n}} with the columns of unnamed records already mapped to NOSM.
    -> (under, over): lists of (key, cell, got, allowed_min, allowed_max) / for floating records
    (('floating', tag values.., contig), cell, got_residual, want, want)"""
    under, over = [], []
    exact, opn, floating = want['exact'], want['open'], want['floating']
    if opn and floating:
        raise ValueError('open and floating records in one run are not supported')
    residual = {}
    for key in sorted(set(got) | set(exact), key=repr):
        g, w, o = got.get(key, {}), exact.get(key, {}), opn.get(key, {})
        for cell in sorted(set(g) | set(w)):
            a, lo = g.get(cell, 0), w.get(cell, 0)
            hi = lo + o.get(cell, 0)
            if a < lo:
                under.append((key, cell, a, lo, hi))
            elif a > hi:
                if floating:
                    fk = tuple(key[:n_tags]) + (key[n_tags], cell)
                    residual[fk] = residual.get(fk, 0) + (a - hi)
                else:
                    over.append((key, cell, a, lo, hi))
    for fk in sorted(set(residual) | set(floating), key=repr):
        a, b = residual.get(fk, 0), floating.get(fk, 0)
        if a < b:
            under.append((('records-without-DS',) + fk[:-1], fk[-1], a, b, b))
        elif a > b:
            over.append((('records-without-DS',) + fk[:-1], fk[-1], a, b, b))
    return under, over
