"""Read construction of the C15 check: gen.c13_reads.build_read / build_reads (shared with C13, not edited) copied and
extended by the CONTIG a read lies on, for a header of four contigs:

    chr1, chr2   the reference with 16 bases of flank on either side of the two cut sites (molecules in the interior)
    chr3, chr4   the same reference cut down to [first CATG .. last CATG]: a forward molecule starts on coordinate 0 of its
                 contig, a reverse molecule ends on the LAST base of its contig

Read descriptions, `aligned_pairs` and `md_tag` are those of gen.c13_reads.
"""
import pysam

from gen import c13_reads as G

CONTIGS = ('chr1', 'chr2', 'chr3', 'chr4')
_HEADER_CACHE = {}


def header(length, edge_length):
    key = (length, edge_length)
    h = _HEADER_CACHE.get(key)
    if h is None:
        h = pysam.AlignmentHeader.from_references(list(CONTIGS), [length, length, edge_length, edge_length])
        _HEADER_CACHE[key] = h
    return h


def build_read(hdr, contig, ref, rd, name, is_read1, paired, tags, mapq=60):
    """`ref` is the sequence of `contig`"""
    read = pysam.AlignedSegment(hdr)
    read.query_name = name
    read.reference_name = contig
    read.reference_start = rd['start']
    read.query_sequence = rd['seq']
    read.query_qualities = pysam.qualitystring_to_array(''.join(chr(33 + q) for q in rd['quals']))
    read.cigartuples = G.norm_cigar(rd)
    read.mapping_quality = mapq
    read.is_reverse = bool(rd['reverse'])
    read.is_read1 = bool(is_read1)
    read.is_read2 = not is_read1
    if paired:
        read.is_paired = True
        read.is_proper_pair = True
    for k, v in tags.items():
        read.set_tag(k, v)
    read.set_tag('MD', G.md_tag(ref, rd))
    return read


def build_unmapped_read(hdr, contig, rd, name, is_read1, tags):
    """an unmapped mate: placed at the coordinate of its mapped mate, without CIGAR (SAM convention)"""
    read = pysam.AlignedSegment(hdr)
    read.query_name = name
    read.query_sequence = rd['seq']
    read.query_qualities = pysam.qualitystring_to_array(''.join(chr(33 + q) for q in rd['quals']))
    read.is_unmapped = True
    read.is_paired = True
    read.is_read1 = bool(is_read1)
    read.is_read2 = not is_read1
    read.mapping_quality = 0
    read.reference_name = contig
    read.reference_start = rd['start']
    for k, v in tags.items():
        read.set_tag(k, v)
    return read


def build_reads(hdr, contig, ref, frag, name, tags, mapq=60):
    """frag = {'r1': read description, 'r2': read description or None}, both mapped -> [R1, R2]; a single-end fragment is
    [R1, None] (what the mate-pair iterators of the package produce)"""
    r1, r2 = frag['r1'], frag.get('r2')
    paired = r2 is not None
    reads = [build_read(hdr, contig, ref, r1, name, True, paired, tags, mapq)]
    if paired:
        reads.append(build_read(hdr, contig, ref, r2, name, False, True, tags, mapq))
    else:
        reads.append(None)
    return reads
