"""C03 - barcode correction assigns the unique nearest whitelisted barcode or nothing.

Space (all complete below the bound):
 * in-memory whitelists over ACGTN: every whitelist (as a set) of the stated sizes for length L, every
   expansion k in 0..2, EVERY query string of length L;
 * file level: every column layout x plain/gz x eager/lazy alias loading for a 3-barcode file;
 * shipped whitelists (real barcodes/ and indices/ directories, loaded by the real constructor):
   every query string over ACGTN of the whitelist length.
Oracle: brute-force nearest neighbour (numpy), written from the property statement.
"""
import gzip
import itertools
import os
import shutil
import tempfile

import numpy as np

ID = 'C03'
RULE = ('every whitelist (set of barcodes over ACGTN) up to the size bound x k in 0..2 x every query of that length, '
        'through BarcodeParser.addBarcode/expand/getIndexCorrectedBarcodeAndHammingDistance; file-level layouts x loading mode x accessor used before the first lookup; '
        'shipped whitelists against all 5^L queries. A case (whitelist,k) is non-trivial when at least one query is a '
        'tie that must be refused and at least one is corrected at distance >=1; states = (whitelist,k) pairs, '
        'transitions = lookups')
ASSUMPTIONS = [
    'a whitelist is a set of equal-length barcodes over ACGTN (duplicate lines with different indices are not generated)',
    'cell indices in files are integers or names containing a character outside ACGTNX (as all shipped files)',
]
ALPHA = 'ACGTN'


def bounds(tier):
    if tier == 'quick':
        return {'in_memory': [{'L': 3, 'sizes': [1, 2, 3], 'reduction': 'none'},
                              {'L': 4, 'sizes': [1], 'reduction': 'none'}],
                'k': [0, 1, 2], 'file_level': 'all layouts', 'shipped': ['illumina_RP_indices (6 nt, 15625 queries)',
                                                                        'DamID2_8bp k<=1 (390625 queries)']}
    return {'in_memory': [{'L': 3, 'sizes': [1, 2, 3], 'reduction': 'none'},
                          {'L': 4, 'sizes': [1, 2], 'reduction': 'none'},
                          {'L': 5, 'sizes': [1], 'reduction': 'none'}],
            'k': [0, 1, 2], 'file_level': 'all layouts',
            'shipped': 'every shipped barcodes/ and indices/ list over ACGTN of length <= 8 (k<=1; k=2 for lists <=96), all 5^L queries; DamID2 (10 nt) k<=1 all 5^10 queries'}


_CACHE = {}


def all_strings(L):
    if L not in _CACHE:
        arr = np.array(list(itertools.product(range(5), repeat=L)), dtype=np.uint8)
        strs = [''.join(ALPHA[i] for i in row) for row in arr]
        _CACHE[L] = (arr, strs)
    return _CACHE[L]


def encode(strs):
    lut = {c: i for i, c in enumerate(ALPHA)}
    return np.array([[lut[c] for c in s] for s in strs], dtype=np.uint8)


def oracle(wl_arr, q_arr, k):
    """for every query: (assigned?, index of nearest whitelist row, distance)"""
    n = q_arr.shape[0]
    best = np.zeros(n, dtype=np.int64)
    dist = np.zeros(n, dtype=np.int64)
    ties = np.zeros(n, dtype=bool)
    step = max(1, 4_000_000 // max(1, wl_arr.shape[0] * wl_arr.shape[1]))
    for s in range(0, n, step):
        d = (q_arr[s:s + step, None, :] != wl_arr[None, :, :]).sum(-1)
        mn = d.min(1)
        best[s:s + step] = d.argmin(1)
        dist[s:s + step] = mn
        ties[s:s + step] = (d == mn[:, None]).sum(1) > 1
    assigned = (dist <= k) & ~ties
    return assigned, best, dist, ties


_PARSER = None
_EMPTY = None


def _parser():
    global _PARSER, _EMPTY
    if _PARSER is None:
        from singlecellmultiomics.barcodeFileParser.barcodeFileParser import BarcodeParser
        _EMPTY = tempfile.mkdtemp(prefix='c03_empty_', dir='/dev/shm')
        _PARSER = BarcodeParser(barcodeDirectory=_EMPTY)
        try:
            os.rmdir(_EMPTY)
        except OSError:
            pass
    return _PARSER


def check_whitelist(wl, k, indices=None, q=None):
    """wl: tuple of barcode strings. Returns (violations, stats)."""
    bp = _parser()
    alias = 'w'
    bp.barcodes.clear()
    bp.extendedBarcodes.clear()
    if indices is None:
        indices = list(range(1, len(wl) + 1))
    try:
        for b, ix in zip(wl, indices):
            bp.addBarcode(alias, barcode=b, index=ix)
        if k > 0:
            bp.expand(k, alias=alias)
    except Exception as ex:
        return [(f'expand:exception:{type(ex).__name__}', repr(ex))], (0, 0, 0)
    L = len(wl[0])
    q_arr, q_strs = all_strings(L)
    return compare(lambda s: bp.getIndexCorrectedBarcodeAndHammingDistance(s, alias), wl, indices, k, q_arr, q_strs)


def compare(lookup, wl, indices, k, q_arr, q_strs, site='lookup'):
    wl_arr = encode(wl)
    assigned, best, dist, ties = oracle(wl_arr, q_arr, k)
    viols = {}
    n_corr = 0
    n_tie = 0
    for i, s in enumerate(q_strs):
        try:
            got = lookup(s)
        except Exception as ex:
            viols.setdefault(f'{site}:exception:{type(ex).__name__}', (s, repr(ex)))
            continue
        if assigned[i]:
            b = best[i]
            want = (indices[b], wl[b], int(dist[i]))
            if dist[i] > 0:
                n_corr += 1
            if got is None or tuple(got) != want:
                if got is None or got[0] is None:
                    sig = f'{site}:unique-nearest-within-k-not-assigned'
                elif dist[i] == 0:
                    sig = f'{site}:exact-member-not-mapped-to-itself'
                elif got[1] != want[1]:
                    sig = f'{site}:assigned-to-a-barcode-that-is-not-the-nearest'
                else:
                    sig = f'{site}:wrong-index-or-distance-reported'
                viols.setdefault(sig, (s, {'got': got, 'want': want}))
        else:
            if ties[i] and dist[i] <= k:
                n_tie += 1
            if got is not None and tuple(got) != (None, None, None):
                sig = (f'{site}:tie-between-two-whitelist-entries-was-assigned' if (ties[i] and dist[i] <= k)
                       else f'{site}:assigned-beyond-distance-k')
                viols.setdefault(sig, (s, {'got': got, 'nearest_distance': int(dist[i]), 'tie': bool(ties[i])}))
    out = [(sig, {'query': q, 'info': d}) for sig, (q, d) in viols.items()]
    return out, (len(q_strs), n_corr, n_tie)


# ------------------------------------------------------------------ file level
LAYOUTS = ['bc_tab_idx', 'idx_tab_bc', 'idx_space_bc', 'onecol', 'name_tab_bc']


def file_cases():
    for layout in LAYOUTS:
        for gz in (False, True):
            for lazy in ('eager', 'lazy_star', 'lazy_alias'):
                for k in (0, 1, 2):
                    for wl in (('ACG', 'ACT', 'GGN'), ('AAA', 'CCC', 'TTT'), ('NAC', 'AAC', 'GTA')):
                        # histories: other public accessors of the alias used before the first lookup
                        for pre in ('none', 'getitem', 'getitem-other-alias', 'targetcount'):
                            yield {'kind': 'file', 'layout': layout, 'gz': gz, 'load': lazy, 'k': k, 'wl': list(wl), 'pre': pre}


def check_file(case):
    from singlecellmultiomics.barcodeFileParser.barcodeFileParser import BarcodeParser
    wl = tuple(case['wl'])
    layout = case['layout']
    d = tempfile.mkdtemp(prefix='c03_', dir='/dev/shm')
    try:
        idx = [7, 3, 12]
        lines = []
        for b, i in zip(wl, idx):
            if layout == 'bc_tab_idx':
                lines.append(f'{b}\t{i}')
            elif layout == 'idx_tab_bc':
                lines.append(f'{i}\t{b}')
            elif layout == 'idx_space_bc':
                lines.append(f'{i} {b}')
            elif layout == 'name_tab_bc':
                lines.append(f'cell_{i}\t{b}')
            else:
                lines.append(b)
        if layout == 'onecol':
            want_idx = [1, 2, 3]
        elif layout == 'name_tab_bc':
            want_idx = [f'cell_{i}' for i in idx]
        else:
            want_idx = idx
        name = 'mylist.bc' + ('.gz' if case['gz'] else '')
        p = os.path.join(d, name)
        data = '\n'.join(lines) + '\n'
        if case['gz']:
            with gzip.open(p, 'wt') as f:
                f.write(data)
        else:
            with open(p, 'w') as f:
                f.write(data)
        # a second, unrelated alias in the same directory: answers must not leak between aliases
        with open(os.path.join(d, 'other.bc'), 'w') as f:
            f.write('1\tTTT\n2\tGGG\n')
        # a third alias with the SAME barcode set, other cell indices, other order: nothing may be shared between aliases
        twin_idx = [f'well{j}' for j in range(len(wl))]
        with open(os.path.join(d, 'aaa_twin.bc'), 'w') as f:
            for b, ix in zip(reversed(wl), twin_idx):
                f.write(f'{ix}\t{b}\n')
        twin_wl = tuple(reversed(wl))
        lazy = {'eager': None, 'lazy_star': '*', 'lazy_alias': ['mylist']}[case['load']]
        try:
            bp = BarcodeParser(barcodeDirectory=d, hammingDistanceExpansion=case['k'], lazyLoad=lazy)
        except Exception as ex:
            return [(f'file:{layout}:constructor-exception:{type(ex).__name__}', repr(ex))], (0, 0, 0)
        pre = case.get('pre', 'none')
        try:
            if pre == 'getitem':
                mapping = bp['mylist']
                if mapping is None or dict(mapping) != dict(zip(wl, want_idx)):
                    return [(f'file:{layout}:getitem-mapping-differs-from-file', {'got': None if mapping is None else dict(mapping)})], (0, 0, 0)
            elif pre == 'getitem-other-alias':
                bp['other']
            elif pre == 'targetcount':
                bp.getTargetCount('mylist')
        except Exception as ex:
            return [(f'file:{layout}:accessor-exception:{type(ex).__name__}', repr(ex))], (0, 0, 0)
        q_arr, q_strs = all_strings(3)
        site = f'file:{layout}' + ('' if pre == 'none' else f':after-{pre}')
        v1, st1 = compare(lambda s: bp.getIndexCorrectedBarcodeAndHammingDistance(s, 'mylist'), wl, want_idx, case['k'],
                          q_arr, q_strs, site=site)
        v2, st2 = compare(lambda s: bp.getIndexCorrectedBarcodeAndHammingDistance(s, 'aaa_twin'), twin_wl, twin_idx, case['k'],
                          q_arr, q_strs, site=f'file:{layout}:twin-alias-with-same-barcodes')
        v3, _ = compare(lambda s: bp.getIndexCorrectedBarcodeAndHammingDistance(s, 'mylist'), wl, want_idx, case['k'],
                        q_arr, q_strs, site=site + ':after-twin-lookups')
        return v1 + v2 + v3, (st1[0] + st2[0], st1[1], st1[2])
    finally:
        shutil.rmtree(d, ignore_errors=True)


# ------------------------------------------------------------------ shipped lists
def shipped_lists():
    """(directory, alias, path, barcodes, indices) for shipped lists over ACGTN, parsed independently."""
    import singlecellmultiomics.modularDemultiplexer as md
    base = os.path.dirname(md.__file__)
    out = []
    for sub in ('barcodes', 'indices'):
        for fn in sorted(os.listdir(os.path.join(base, sub))):
            p = os.path.join(base, sub, fn)
            op = gzip.open if fn.endswith('.gz') else open
            rows = []
            with op(p, 'rt') as f:
                for i, line in enumerate(f):
                    parts = line.split()
                    if not parts:
                        continue
                    if len(parts) == 1:
                        rows.append((parts[0], i + 1))
                    elif len(parts) == 2:
                        a, b = parts
                        if set(a) <= set('ACGTN') and not set(b) <= set('ACGTN'):
                            bc, ix = a, b
                        else:
                            ix, bc = a, b
                        rows.append((bc, int(ix) if ix.isdigit() else ix))
            if not rows:
                continue
            if not all(set(bc) <= set(ALPHA) for bc, _ in rows):
                continue
            if len({len(bc) for bc, _ in rows}) != 1 or len({bc for bc, _ in rows}) != len(rows):
                continue
            alias = fn.replace('.gz', '').replace('.bc', '')
            alias = os.path.splitext(os.path.basename(p))[0].replace('.gz', '').replace('.bc', '')
            out.append((sub, alias, [bc for bc, _ in rows], [ix for _, ix in rows]))
    return out


_SHIPPED_PARSERS = {}


def check_shipped(case):
    from singlecellmultiomics.barcodeFileParser.barcodeFileParser import BarcodeParser
    sub, alias, k, lo, hi = case['dir'], case['alias'], case['k'], case['lo'], case['hi']
    key = (sub, alias, k) if not case.get('eager_dir') else (sub, '*eager*', k)
    if key not in _SHIPPED_PARSERS and case.get('eager_dir'):
        _SHIPPED_PARSERS.clear()
        import singlecellmultiomics.modularDemultiplexer as md
        # the way demux.py builds its index parser: EVERY list of the directory loaded and expanded in one parser
        _SHIPPED_PARSERS[key] = BarcodeParser(barcodeDirectory=os.path.join(os.path.dirname(md.__file__), sub),
                                              hammingDistanceExpansion=k)
    if key not in _SHIPPED_PARSERS:
        _SHIPPED_PARSERS.clear()
        # the real constructor on the real directory; every other alias stays pending (lazy)
        import singlecellmultiomics.modularDemultiplexer as md
        _SHIPPED_PARSERS[key] = BarcodeParser(barcodeDirectory=os.path.join(os.path.dirname(md.__file__), sub),
                                              hammingDistanceExpansion=k, lazyLoad='*')
    bp = _SHIPPED_PARSERS[key]
    entry = [e for e in shipped_lists() if e[0] == sub and e[1] == alias]
    if not entry:
        from mc.bind import HarnessError
        raise HarnessError(f'shipped list {sub}/{alias} not found')
    _, _, wl, idx = entry[0]
    L = len(wl[0])
    # queries lo..hi in base-5 order
    n = hi - lo
    nums = np.arange(lo, hi, dtype=np.int64)
    q_arr = np.zeros((n, L), dtype=np.uint8)
    for p in range(L - 1, -1, -1):
        q_arr[:, p] = nums % 5
        nums //= 5
    lut = np.array(list(ALPHA))
    q_strs = [''.join(r) for r in lut[q_arr]]
    return compare(lambda s: bp.getIndexCorrectedBarcodeAndHammingDistance(s, alias), tuple(wl), idx, k, q_arr, q_strs,
                   site='shipped' + (':whole-directory-parser' if case.get('eager_dir') else ''))


# ------------------------------------------------------------------ engine interface
def _sorted_strings(L):
    _, strs = all_strings(L)
    return [s for s in strs if list(s) == sorted(s, key=ALPHA.index)]


def shards(tier):
    out = []
    b = bounds(tier)
    for spec in b['in_memory']:
        L = spec['L']
        n = 5 ** L
        for size in spec['sizes']:
            if size == 1:
                out.append(('mem', L, 1, None, False))
            else:
                for first in range(n - size + 1):
                    out.append(('mem', L, size, first, False))
    for li in range(len(LAYOUTS)):
        for gz in (False, True):
            out.append(('file', li, gz))
    # one parser holding the whole indices/ directory (k=1, as the command line default): one shard, aliases in sequence
    out.append(('shipped-eager', 'indices', 1))
    if tier == 'quick':
        out.append(('shipped', 'barcodes', 'illumina_RP_indices', 0, 0, 5 ** 6))
        out.append(('shipped', 'barcodes', 'illumina_RP_indices', 1, 0, 5 ** 6))
        out.append(('shipped', 'barcodes', 'illumina_RP_indices', 2, 0, 5 ** 6))
        for k in (0, 1):
            for lo in range(0, 5 ** 8, 5 ** 7):
                out.append(('shipped', 'barcodes', 'DamID2_8bp', k, lo, lo + 5 ** 7))
    else:
        for sub, alias, wl, idx in shipped_lists():
            L = len(wl[0])
            if L > 8 and alias != 'DamID2':
                continue
            ks = [0, 1] + ([2] if len(wl) <= 96 and L <= 8 else [])
            chunk = 5 ** min(L, 7)
            for k in ks:
                for lo in range(0, 5 ** L, chunk):
                    out.append(('shipped', sub, alias, k, lo, min(5 ** L, lo + chunk)))
    return out


def run_shard(shard, tier, acc):
    kind = shard[0]
    if kind == 'mem':
        _, L, size, first, reduced = shard
        _, strs = all_strings(L)
        if size == 1:
            wls = [(s,) for s in strs]
        else:
            wls = [(strs[first],) + c for c in itertools.combinations(strs[first + 1:], size - 1)]
        for wl in wls:
            for k in (0, 1, 2):
                viols, (nq, ncorr, ntie) = check_whitelist(wl, k)
                case = {'kind': 'mem', 'wl': list(wl), 'k': k}
                acc.case(case, transitions=nq, nontrivial=(ncorr > 0 and ntie > 0),
                         outcome=f'k={k},corrected={min(ncorr, 3)},ties={min(ntie, 3)}')
                for sig, d in viols:
                    acc.violation(sig, case, d)
        if not wls:
            acc.count('empty_shards')
    elif kind == 'file':
        for case in file_cases():
            if case['layout'] != LAYOUTS[shard[1]] or case['gz'] != shard[2]:
                continue
            viols, (nq, ncorr, ntie) = check_file(case)
            acc.case(case, transitions=nq, nontrivial=(ncorr > 0), outcome=f"file:{case['layout']}:{case['pre']}")
            for sig, d in viols:
                acc.violation(sig, case, d)
    elif kind == 'shipped-eager':
        _, sub, k = shard
        # as demux.py: first a parser over the whole barcodes/ directory, then one over indices/, in ONE process; the two
        # directories ship a same-named list (illumina_RP_indices) with different content
        plan = [(s_, a, w, i) for s_, a, w, i in shipped_lists() if s_ == 'barcodes' and len(w[0]) <= 6]
        plan += [(s_, a, w, i) for s_, a, w, i in shipped_lists() if s_ == sub and len(w[0]) <= 8]
        for sub_, alias, wl, idx in plan:
            sub = sub_
            L = len(wl[0])
            case = {'kind': 'shipped', 'dir': sub, 'alias': alias, 'k': k, 'lo': 0, 'hi': 5 ** L, 'eager_dir': True}
            viols, (nq, ncorr, ntie) = check_shipped(case)
            acc.case(case, transitions=nq, nontrivial=(ncorr > 0), outcome=f'shipped-eager:{alias}:k={k}')
            acc.count('shipped_queries', nq)
            for sig, d in viols:
                acc.violation(sig, case, d)
    elif kind == 'shipped':
        _, sub, alias, k, lo, hi = shard
        case = {'kind': 'shipped', 'dir': sub, 'alias': alias, 'k': k, 'lo': lo, 'hi': hi}
        viols, (nq, ncorr, ntie) = check_shipped(case)
        acc.case(case, transitions=nq, nontrivial=(ncorr > 0), outcome=f'shipped:{alias}:k={k}')
        acc.count('shipped_queries', nq)
        for sig, d in viols:
            acc.violation(sig, case, d)


def replay(case):
    kind = case['kind']
    if kind == 'mem':
        return check_whitelist(tuple(case['wl']), case['k'])[0]
    if kind == 'file':
        return check_file(case)[0]
    if kind == 'shipped':
        return check_shipped(case)[0]
    raise ValueError(kind)
