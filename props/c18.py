"""C18 - allele lookups agree with the VCF in every loading mode.

Explicit-state breadth-first search over HISTORIES of runs that share one cache directory.

  run      = (mode in eager / lazy / cache / cache+eager, select_samples, ignore_conversions, phased,
              first operation in has_location / getAllelesAt) + a contig access sequence over
              {c1, c2, c3_random (never cached), zz (not in the VCF)};  every run builds a FRESH
              AlleleResolver, so the only thing that crosses a run boundary is the cache directory.
  state    = exact content of <vcf>_allele_cache: absent / {file name -> decompressed text}.
  search   = from every state reachable in < depth runs ALL runs are executed on the real code, in a
             private copy of the VCF directory restored to exactly that state (access sequences up to
             the length bounds() states for that history level).  The reachable states are discovered
             with a small generating set of runs before the workers fork; while exploring, every
             successor is checked against the discovered set and a state the discovery missed is
             explored on the spot (counter undiscovered_successor_states), so the bound stays complete.
  at every access every (position 0..last+1, base ACGT) lookup and every has_location answer of the
  contig is compared with
    (i)  the eager, cache-free resolver of the SAME configuration (answers identical in every mode, for
         every access order, for every earlier history), and
    (ii) gen-independent expectations computed from the VCF text for the unambiguous core
         (oracles/c18_expected.py).
  One extra shard drives Molecule.allele (the DA tag value) through every mode for every configuration.
"""
import atexit
import gzip
import itertools
import os
import shutil
import sys
import tempfile

from gen import c18_vcf as G
from oracles import c18_expected as O
from mc.bind import HarnessError

ID = 'C18'
DESIGN_REF = 'DESIGN.md section 3, C18; section 4 lead 13'
RULE = ('breadth-first search over histories of runs sharing one allele-cache directory; search state = exact '
        'content of the cache directory ({file -> decompressed text}, or no directory); from every state reached '
        'in < depth runs EVERY run (mode x select_samples x ignore_conversions x phased x first-operation x access '
        'sequence) is executed on a fresh real AlleleResolver and all lookups / has_location answers of every '
        'accessed contig are compared with the eager cache-free resolver of the same configuration and with the '
        'VCF-text oracle; states = distinct (cache state, run) cases, counter cache_states = distinct cache '
        'states expanded; a case is non-trivial when the run finds a cache file written by an EARLIER run for a '
        'contig it accesses, or returns to a contig that was evicted by loading another one; plus one shard of '
        'Molecule.allele conformance cases (6 resolver runs each)')
ASSUMPTIONS = [
    'lookup positions are >= 0 (the loader plants a sentinel at position -1)',
    'the VCF is bgzipped, tabix-indexed and readable by pysam; each site occurs once',
    'the independent VCF-text oracle only speaks about sites whose REF/ALT are single nucleotides and whose selected '
    'samples have no missing allele, with phased=True; all other sites and phased=False are covered by the '
    'all-modes-agree comparison only',
    'an empty set counts as "nothing"',
    'has_location: must agree between modes / calls, be False where the VCF has no record and True where a lookup '
    'has an answer; its value at recorded but uninformative sites is not prescribed',
    'runs of one history are sequential (no two processes write the cache concurrently)',
]

MODES = ('eager', 'lazy', 'cache', 'cache+eager')
MODE_KW = {
    'eager': {'lazyLoad': False, 'use_cache': False},
    'lazy': {'lazyLoad': True, 'use_cache': False},
    'cache': {'lazyLoad': True, 'use_cache': True},
    'cache+eager': {'lazyLoad': False, 'use_cache': True},
}
CACHE_MODES = ('cache', 'cache+eager')
SELECTS = (None, (G.S1, G.S2), (G.S1,), (G.S1, G.S3))
IGNORES = (None, (('C', 'T'), ('G', 'A')))
PHASED = (True, False)
FIRSTS = ('g', 'h')          # g: getAllelesAt touches the contig first, h: has_location does
SYMBOLS = G.CACHED_CONTIGS + ('c3_random', G.ABSENT)
NODIR = ('<no cache directory>',)


def bounds(tier):
    b = {'modes': list(MODES), 'select_samples': [None, ['S1', 'S2'], ['S1'], ['S1', 'S3']], 'sample_names': 'about 70 characters each; S2 and S3 share their first 57',
         'ignore_conversions': [None, [['C', 'T'], ['G', 'A']]], 'phased': [True, False],
         'first_operation': ['getAllelesAt', 'has_location'], 'access_symbols': list(SYMBOLS),
         'vcf': {'samples': 3, 'contigs_with_records': 3, 'site_classes_per_contig': len(G.TEMPLATE)},
         'probe_positions': [0, G.MAX_POS0 + 1], 'probe_bases': list(G.PROBE_BASES)}
    # entry k = longest access sequence of a run that starts in a cache state reached by k earlier runs
    b['max_access_sequence_length_by_history_level'] = [3, 2] if tier == 'quick' else [3, 3, 2]
    b['history_depth'] = len(b['max_access_sequence_length_by_history_level'])
    return b


# ------------------------------------------------------------------------------------------------ alphabet

def access_sequences(max_len=3):
    out = []
    for n in range(0, max_len + 1):
        out.extend(itertools.product(SYMBOLS, repeat=n))
    return out


def chunk_runs(mode, phased, max_len):
    """All runs of one (mode, phased) chunk, simplest first."""
    for acc in access_sequences(max_len):
        for si in range(len(SELECTS)):
            for ii in range(len(IGNORES)):
                for first in FIRSTS:
                    yield (mode, si, ii, phased, first, acc)


CHUNKS = [(m, p) for p in PHASED for m in MODES]


def all_runs(max_len):
    for m, p in CHUNKS:
        yield from chunk_runs(m, p, max_len)


def generating_runs():
    """Runs used to DISCOVER the reachable cache states before the workers start (completeness of the
    discovery is verified while exploring: an undiscovered successor is explored on the spot)."""
    for acc in ((), (G.ABSENT,), ('c1',), ('c2',), ('c1', 'c2')):
        for si in range(len(SELECTS)):
            for ii in range(len(IGNORES)):
                for p in PHASED:
                    for m in CACHE_MODES:
                        yield (m, si, ii, p, 'g', acc)


def run_to_json(run):
    m, si, ii, p, first, acc = run
    return {'mode': m, 'select_samples': list(SELECTS[si]) if SELECTS[si] else None,
            'ignore_conversions': [list(x) for x in IGNORES[ii]] if IGNORES[ii] else None,
            'phased': p, 'first': 'has_location' if first == 'h' else 'getAllelesAt', 'access': list(acc)}


def run_from_json(j):
    sel = tuple(j['select_samples']) if j['select_samples'] else None
    ign = tuple(tuple(x) for x in j['ignore_conversions']) if j['ignore_conversions'] else None
    return (j['mode'], SELECTS.index(sel), IGNORES.index(ign), bool(j['phased']),
            'h' if j['first'] == 'has_location' else 'g', tuple(j['access']))


# ------------------------------------------------------------------------------------------------ files

_ROOT = None
_OWNER = None
_MASTER = None
_WORK = {}          # pid -> (directory, vcf path)
_ON_DISK = {}       # pid -> state key currently materialised in the work dir


def _cleanup():
    if _ROOT and _OWNER == os.getpid():
        shutil.rmtree(_ROOT, ignore_errors=True)


class _Null:
    def write(self, *_a):
        return 0

    def flush(self):
        pass


class _quiet:
    """AlleleResolver reports failed loads with print(); keep the check's output clean."""

    def __enter__(self):
        self._o = sys.stdout
        sys.stdout = _Null()

    def __exit__(self, *a):
        sys.stdout = self._o


def _workdir():
    pid = os.getpid()
    if pid not in _WORK:
        d = tempfile.mkdtemp(prefix=f'w{pid}_', dir=_ROOT)
        _WORK.clear()
        _WORK[pid] = (d, G.clone(_MASTER, d))
        _ON_DISK.clear()
        _ON_DISK[pid] = NODIR
    return _WORK[pid]


def _cache_dir(vcf_path):
    return vcf_path + '_allele_cache'


def cached_for(contig, state):
    """Did an earlier run leave a cache file for this contig (whatever its configuration)?  Only the
    documented prefix <contig> of the file name is relied upon."""
    return any(n == contig or n.startswith(contig + '.') or n.startswith(contig + '_') for n in state.text)


class State:
    __slots__ = ('key', 'raw', 'text', 'history', 'level')

    def __init__(self, key, raw, text, history, level):
        self.key, self.raw, self.text, self.history, self.level = key, raw, text, history, level


EMPTY = State(NODIR, {}, {}, (), 0)


def _restore(vcf_path, state):
    pid = os.getpid()
    if _ON_DISK.get(pid) == state.key:
        return
    cd = _cache_dir(vcf_path)
    if os.path.lexists(cd):
        shutil.rmtree(cd)
    if state.key != NODIR:
        os.mkdir(cd)
        for name, raw in state.raw.items():
            with open(os.path.join(cd, name), 'wb') as f:
                f.write(raw)
    _ON_DISK[pid] = state.key


def _snapshot(vcf_path, before):
    """-> (key, raw, text) of the cache directory now; `before` is the state that was restored."""
    cd = _cache_dir(vcf_path)
    if not os.path.isdir(cd):
        return NODIR, {}, {}
    raw, text = {}, {}
    for name in sorted(os.listdir(cd)):
        p = os.path.join(cd, name)
        if not os.path.isfile(p):
            raise HarnessError(f'unexpected non-file {p} in the cache directory')
        with open(p, 'rb') as f:
            r = f.read()
        raw[name] = r
        if before.raw.get(name) == r:
            text[name] = before.text[name]
        else:
            try:
                text[name] = gzip.decompress(r).decode('latin-1')
            except Exception:
                text[name] = 'RAW:' + r.decode('latin-1')
    key = tuple(sorted(text.items()))
    return key, raw, text


# ------------------------------------------------------------------------------------------------ real code

def _resolver(vcf_path, run):
    from singlecellmultiomics.alleleTools import AlleleResolver
    mode, si, ii, phased = run[0], run[1], run[2], run[3]
    return AlleleResolver(vcf_path,
                          select_samples=list(SELECTS[si]) if SELECTS[si] else None,
                          ignore_conversions=set(IGNORES[ii]) if IGNORES[ii] else None,
                          phased=phased, **MODE_KW[mode])


_ALT_READS = {}


def _alt_read(contig):
    """a read over the whole probed stretch of `contig` that spells the first ALT allele at every single-nucleotide record
    (so that it hits several informative sites that belong to different samples)"""
    if contig not in G.CONTIGS:
        return None
    if contig not in _ALT_READS:
        import pysam
        hdr = pysam.AlignmentHeader.from_references(list(G.CONTIGS), [G.CONTIG_LENGTH] * len(G.CONTIGS))
        n = G.MAX_POS0 + 2
        seq = ['A'] * n
        for c, pos1, ref, alt, gts, cls in G.records():
            a = alt.split(',')[0]
            if c == contig and len(ref) == 1 and len(a) == 1 and a in 'ACGT' and pos1 - 1 < n:
                seq[pos1 - 1] = a
        r = pysam.AlignedSegment(hdr)
        r.query_name = 'altread'
        r.query_sequence = ''.join(seq)
        r.flag = 0
        r.reference_id = hdr.get_tid(contig)
        r.reference_start = 0
        r.cigarstring = f'{n}M'
        r.mapping_quality = 60
        _ALT_READS[contig] = r
    return _ALT_READS[contig]


def _observe(ar, contig, first, with_reads=False):
    h0 = None
    if first == 'h':
        h0 = tuple(p for p in G.PROBE_POSITIONS if ar.has_location(contig, p))
    if with_reads:
        # the read-level entry point the tagger uses; asking it must not change what the lookups answer afterwards
        rd = _alt_read(contig)
        if rd is not None:
            ar.getAllele([rd])
    lk = []
    for p in G.PROBE_POSITIONS:
        for b in G.PROBE_BASES:
            r = ar.getAllelesAt(contig, p, b)
            if r is not None and len(r) > 0:
                lk.append((p, b, tuple(sorted(r))))
    h1 = tuple(p for p in G.PROBE_POSITIONS if ar.has_location(contig, p))
    return h0, tuple(lk), h1


def _execute(vcf_path, run):
    """One run on the real code. -> ([(h0, lookups, h1) per access], exception or None)"""
    obs = []
    try:
        ar = _resolver(vcf_path, run)
        for contig in run[5]:
            obs.append(_observe(ar, contig, run[4], with_reads=(run[4] == 'g')))
    except Exception as e:       # the code under test failed: a violation, reported by the caller
        return obs, e
    return obs, None


# ------------------------------------------------------------------------------------------------ oracles

REF = {}        # (si, ii, phased) -> {contig: (lookups, has_location positions)}   eager, cache-free, real code
EXP = {}        # (si, ii, phased) -> {contig: (lookups on known positions, has positions, unknown positions)}
EXP_RAW = {}    # (si, ii, phased) -> oracle dict
_VCF_TEXT = None


def setup():
    global _ROOT, _OWNER, _MASTER, _VCF_TEXT
    if _ROOT is not None:
        return
    base = '/dev/shm' if os.path.isdir('/dev/shm') else None
    _ROOT = tempfile.mkdtemp(prefix='c18_', dir=base)
    _OWNER = os.getpid()
    atexit.register(_cleanup)
    _MASTER = os.path.join(_ROOT, 'master')
    os.mkdir(_MASTER)
    G.build(_MASTER)
    with open(os.path.join(_MASTER, 'alleles.vcf')) as f:
        _VCF_TEXT = f.read()
    for si in range(len(SELECTS)):
        for ii in range(len(IGNORES)):
            for phased in PHASED:
                key = (si, ii, phased)
                # (i) reference: eager + cache-free, in a directory nobody else uses
                d = tempfile.mkdtemp(prefix='ref_', dir=_ROOT)
                vcf = G.clone(_MASTER, d)
                with _quiet():
                    ar = _resolver(vcf, ('eager', si, ii, phased))
                    REF[key] = {}
                    for c in SYMBOLS:
                        _h0, lk, h1 = _observe(ar, c, 'g')
                        REF[key][c] = (lk, h1)
                shutil.rmtree(d)
                # (ii) VCF-text oracle
                e = O.expected(_VCF_TEXT, select=SELECTS[si], ignore=set(IGNORES[ii]) if IGNORES[ii] else None,
                               phased=phased)
                EXP_RAW[key] = e
                EXP[key] = {}
                for c in SYMBOLS:
                    site = e.get(c, {})
                    unknown = frozenset(p for p, v in site.items() if v == O.UNKNOWN)
                    lk = tuple((p, b, tuple(sorted(site[p][b])))
                               for p in G.PROBE_POSITIONS if p in site and p not in unknown
                               for b in G.PROBE_BASES if b in site[p])
                    has = tuple(p for p in G.PROBE_POSITIONS if p in site and p not in unknown and site[p])
                    EXP[key][c] = (lk, has, unknown, frozenset(site))
    if not any(REF[k][c][0] for k in REF for c in SYMBOLS):
        raise HarnessError('the eager reference resolver answers nothing at all: VCF generation is broken')


def _kind(contig):
    if contig == G.ABSENT:
        return 'absent-contig'
    return 'cached-contig' if contig in G.CACHED_CONTIGS else 'uncached-contig'


def _lookup_signature(run, contig, lk, pre, never_answered):
    mode, si, ii, phased = run[0], run[1], run[2], run[3]
    if mode == 'cache+eager' and never_answered:
        return 'flags:use_cache-without-lazyLoad-returns-nothing'
    if mode in CACHE_MODES and cached_for(contig, pre):
        # the answers came out of a cache file of an earlier run: whose answers are they?
        for ii2, ph2, label in ((1 - ii, phased, 'ignore_conversions'), (ii, not phased, 'phased'),
                                (1 - ii, not phased, 'ignore_conversions+phased')):
            if REF[(si, ii2, ph2)][contig][0] == lk:
                return f'cache:reused-across-{label}'
        for si2 in range(len(SELECTS)):
            if si2 != si and any(REF[(si2, i2, p2)][contig][0] == lk for i2 in (0, 1) for p2 in PHASED):
                return 'cache:reused-across-select_samples'
        for c2 in SYMBOLS:
            if c2 != contig and any(REF[k][c2][0] == lk for k in REF):
                return 'cache:reused-across-contigs'
        return f'{mode}:cache-read-differs-from-eager'
    return f'{mode}:lookup-differs-from-eager:{_kind(contig)}'


def _oracle_violations(key, contig, lk, h1):
    """obs vs VCF-text expectations on the unambiguous core; only called when obs equals the eager reference,
    so a mismatch is a defect of the site rules themselves, whatever the mode."""
    exp_lk, exp_has, unknown, recorded = EXP[key][contig]
    out = []
    core = tuple(x for x in lk if x[0] not in unknown) if unknown else lk
    if core != exp_lk:
        site = EXP_RAW[key].get(contig, {})
        noign = O.expected(_VCF_TEXT, select=SELECTS[key[0]], ignore=None, phased=key[2]).get(contig, {})
        got = {}
        for p, b, s in core:
            got.setdefault(p, {})[b] = s
        want = {}
        for p, b, s in exp_lk:
            want.setdefault(p, {})[b] = s
        for p in G.PROBE_POSITIONS:
            if got.get(p) == want.get(p):
                continue
            if p not in site:
                cls = 'answer-at-absent-site'
            elif not want.get(p):
                cls = 'answer-at-ignored-conversion-site' if noign.get(p) else 'answer-at-uninformative-site'
            elif not got.get(p):
                cls = 'no-answer-at-informative-site'
            else:
                cls = 'wrong-samples-at-informative-site'
            out.append((f'vcf-oracle:getAllelesAt:{cls}',
                        {'contig': contig, 'position': p, 'got': got.get(p), 'expected': want.get(p, {})}))
    # has_location: only what the statement fixes - no location where the VCF has no record, and a location
    # wherever a lookup has an answer (sites that exist but are uninformative are left open)
    if core == exp_lk:
        hs = set(h1)
        ghost = [p for p in h1 if p not in recorded]
        lost = [p for p in exp_has if p not in hs]
        if ghost:
            out.append(('vcf-oracle:has_location:true-where-vcf-has-no-record', {'contig': contig, 'positions': ghost}))
        if lost:
            out.append(('vcf-oracle:has_location:false-at-informative-site', {'contig': contig, 'positions': lost}))
    return out


def check_run(run, pre, obs, exc):
    """-> [(signature, detail)] for one executed run that started in cache state `pre`."""
    mode, si, ii, phased, first, access = run
    key = (si, ii, phased)
    out = []
    never_answered = not any(lk or h1 or h0 for h0, lk, h1 in obs)
    for i, (h0, lk, h1) in enumerate(obs):
        contig = access[i]
        ref_lk, ref_h = REF[key][contig]
        lookup_ok = (lk == ref_lk)
        if not lookup_ok:
            diff = sorted(set(lk) ^ set(ref_lk))[:4]
            out.append((_lookup_signature(run, contig, lk, pre, never_answered),
                        {'access_index': i, 'contig': contig, 'answers': len(lk), 'eager_answers': len(ref_lk),
                         'first_differences(pos,base,samples)': diff}))
        has_ok = (h1 == ref_h) and (h0 is None or h0 == ref_h)
        if not has_ok:
            det = {'access_index': i, 'contig': contig, 'first_pass': None if h0 is None else list(h0),
                   'after_lookups': list(h1), 'eager': list(ref_h)}
            if contig == G.ABSENT:
                out.append(('has_location:absent-contig-inconsistent', det))
            elif lookup_ok:
                why = 'changes-between-calls' if (h0 is not None and h0 != h1) else 'differs-from-eager'
                out.append((f'has_location:{mode}:{why}:{_kind(contig)}', det))
        if lookup_ok and has_ok:
            out.extend(_oracle_violations(key, contig, lk, h1))
    if exc is not None:
        out.append((f'{mode}:exception:{type(exc).__name__}', {'access_index': len(obs), 'error': repr(exc)}))
    seen = set()
    return [(s, d) for s, d in out if not (s in seen or seen.add(s))]


# ------------------------------------------------------------------------------------------------ search

_STATES = []        # discovered states, index = id
_INDEX = {}         # key -> id
_DEPTH = None


def _step(vcf_path, pre, run):
    """Restore `pre`, execute `run`, -> (obs, exc, successor State (history not filled in))."""
    _restore(vcf_path, pre)
    with _quiet():
        obs, exc = _execute(vcf_path, run)
    key, raw, text = _snapshot(vcf_path, pre)
    _ON_DISK[os.getpid()] = key
    if key == pre.key:
        return obs, exc, pre
    return obs, exc, State(key, raw, text, None, pre.level + 1)


def _discover(depth):
    """States reachable in < depth runs (those are the ones that get expanded)."""
    global _DEPTH
    if _DEPTH == depth:
        return
    del _STATES[:]
    _INDEX.clear()
    _STATES.append(EMPTY)
    _INDEX[EMPTY.key] = 0
    _, vcf = _workdir()
    frontier = [EMPTY]
    for level in range(1, depth):
        new = []
        for s in frontier:
            for run in generating_runs():
                _obs, _exc, succ = _step(vcf, s, run)
                if succ.key not in _INDEX:
                    succ.history = s.history + (run,)
                    succ.level = level
                    _INDEX[succ.key] = len(_STATES)
                    _STATES.append(succ)
                    new.append(succ)
        frontier = new
    _restore(vcf, EMPTY)
    _DEPTH = depth


def shards(tier):
    lens = bounds(tier)['max_access_sequence_length_by_history_level']
    _discover(len(lens))
    out = []
    for sid in range(len(_STATES)):
        for ci in range(len(CHUNKS)):
            out.append((sid, ci, tuple(lens)))
    out.append(('molecule',))
    return out


def _returns_to_evicted(access):
    for k in range(2, len(access)):
        for i in range(k - 1):
            if access[i] == access[k] and any(access[j] != access[k] for j in range(i + 1, k)):
                return True
    return False


def _explore(state, runs, lens, acc, local):
    _, vcf = _workdir()
    depth = len(lens)
    for run in runs:
        obs, exc, succ = _step(vcf, state, run)
        viols = check_run(run, state, obs, exc)
        mode, si = run[0], run[1]
        found = mode in CACHE_MODES and any(cached_for(c, state) for c in run[5])
        wrote = succ.key != state.key
        evict = mode != 'eager' and _returns_to_evicted(run[5])
        effect = '+'.join(x for x in ('finds-earlier-cache' if found else '', 'writes' if wrote else '') if x) or 'cache-untouched'
        case = {'history': [run_to_json(r) for r in state.history + (run,)]}
        acc.case(case, transitions=1 + len(run[5]) * (len(G.PROBE_POSITIONS) * (len(G.PROBE_BASES) + 1 + (run[4] == 'h'))),
                 nontrivial=bool(found or evict),
                 outcome=f"{mode}|{effect}|{'return-to-evicted' if evict else 'no-return'}|{'VIOLATION' if viols else 'ok'}")
        for sig, det in viols:
            acc.violation(sig, case, det)
        if wrote and succ.level < depth and succ.key not in _INDEX and succ.key not in local:
            # the discovery pass missed this state: explore it here, completely, so the bound stays exhaustive
            local.add(succ.key)
            succ.history = state.history + (run,)
            acc.count('undiscovered_successor_states', 1)
            acc.count('cache_states', 1)
            _explore(succ, all_runs(lens[succ.level]), lens, acc, local)


def run_shard(shard, tier, acc):
    if shard[0] == 'molecule':
        for case in molecule_cases():
            viols, label = check_molecule(case)
            acc.case(case, transitions=len(MOLECULE_HISTORY), execs=len(MOLECULE_HISTORY),
                     nontrivial=label not in ('None', 'error'), outcome=f'molecule|allele={label}')
            for sig, det in viols:
                acc.violation(sig, case, det)
        return
    sid, ci, lens = shard
    state = _STATES[sid]
    if ci == 0:
        acc.count('cache_states', 1)
        acc.count(f'cache_states_level_{state.level}', 1)
    _explore(state, chunk_runs(CHUNKS[ci][0], CHUNKS[ci][1], lens[state.level]), lens, acc, set())


# ------------------------------------------------------------------------------------------------ molecules

# Conformance of the consumer (Molecule.allele, the value written to the DA tag): one molecule whose read
# spells the first haplotype of one sample over a whole contig, resolver of one configuration, the same
# configuration in every loading mode in ONE directory (so the second cache run reads what the first wrote).
MOLECULE_HISTORY = ('eager', 'lazy', 'cache', 'cache', 'cache+eager', 'cache+eager')


def molecule_cases():
    for contig in SYMBOLS:
        for hap in G.SAMPLES:
            for si in range(len(SELECTS)):
                for ii in range(len(IGNORES)):
                    for phased in PHASED:
                        yield {'molecule': {'contig': contig, 'haplotype_of': hap,
                                            'select_samples': list(SELECTS[si]) if SELECTS[si] else None,
                                            'ignore_conversions': [list(x) for x in IGNORES[ii]] if IGNORES[ii] else None,
                                            'phased': phased}}


def _haplotype_read(contig, hap):
    import pysam
    header = pysam.AlignmentHeader.from_dict({'HD': {'VN': '1.6'}, 'SQ': [{'SN': c, 'LN': G.CONTIG_LENGTH}
                                                                          for c in SYMBOLS]})
    seq = ['A'] * (G.MAX_POS0 + 2)
    src = contig if contig in G.CONTIGS else G.CONTIGS[0]
    col = G.SAMPLES.index(hap)
    for c, pos1, ref, alt, gts, _cls in G.records():
        if c != src:
            continue
        alleles = [ref] + alt.split(',')
        a = gts[col].replace('|', '/').split('/')[0]
        base = ref if a == '.' else alleles[int(a)]
        seq[pos1 - 1] = base[0]
    seq = ''.join(seq)
    r = pysam.AlignedSegment(header)
    r.query_name = 'm1'
    r.reference_id = header.get_tid(contig)
    r.reference_start = 0
    r.query_sequence = seq
    r.query_qualities = pysam.qualitystring_to_array('I' * len(seq))
    r.cigartuples = [(0, len(seq))]
    r.flag = 0
    r.mapping_quality = 60
    r.set_tag('SM', 'cell1')
    r.set_tag('RX', 'ACG')
    r.set_tag('MX', 'scCHIC')
    return r


def check_molecule(case, vcf=None):
    from singlecellmultiomics.molecule import Molecule
    from singlecellmultiomics.fragment import Fragment
    j = case['molecule']
    cfg = run_from_json({'mode': 'eager', 'select_samples': j['select_samples'],
                         'ignore_conversions': j['ignore_conversions'], 'phased': j['phased'],
                         'first': 'getAllelesAt', 'access': []})
    if vcf is None:
        _, vcf = _workdir()
        _restore(vcf, EMPTY)
    seen = []
    answers = []        # does the resolver answer any direct lookup on the contig after the molecule used it?
    out = []
    with _quiet():
        for k, mode in enumerate(MOLECULE_HISTORY):
            try:
                ar = _resolver(vcf, (mode,) + cfg[1:])
                m = Molecule(Fragment([_haplotype_read(j['contig'], j['haplotype_of'])]), allele_resolver=ar)
                a = m.allele
                lk = tuple(sorted((str(x), round(float(v), 6)) for x, v in m.allele_likelihoods.items()))
                seen.append((None if a is None else str(a), lk))
                answers.append(bool(_observe(ar, j['contig'], 'g')[1]))
            except Exception as e:
                seen.append(('error', repr(e)))
                answers.append(None)
                out.append((f'molecule.allele:{mode}:exception:{type(e).__name__}', {'run_index': k, 'error': repr(e)}))
    _ON_DISK[os.getpid()] = ('<dirty>',)
    ref = seen[0]
    for k, mode in enumerate(MOLECULE_HISTORY):
        if k and seen[k] != ref and seen[k][0] != 'error':
            if mode == 'cache+eager' and seen[k] == (None, ()) and answers[0] and answers[k] is False:
                sig = 'flags:use_cache-without-lazyLoad-returns-nothing'
            else:
                sig = f"molecule.allele:{mode}{':second-run' if MOLECULE_HISTORY[k - 1] == mode else ''}:differs-from-eager"
            out.append((sig, {'run_index': k, 'mode': mode, 'allele,likelihoods': seen[k], 'eager': ref}))
    dedup = set()
    return [(s, d) for s, d in out if not (s in dedup or dedup.add(s))], str(ref[0])


# ------------------------------------------------------------------------------------------------ replay

def replay(case):
    """Run ONE history in a brand-new private copy of the VCF directory, run after run."""
    setup()
    d = tempfile.mkdtemp(prefix='replay_', dir=_ROOT)
    out = []
    try:
        vcf = G.clone(_MASTER, d)
        if 'molecule' in case:
            return check_molecule(case, vcf)[0]
        pre = EMPTY
        for j in case['history']:
            run = run_from_json(j)
            with _quiet():
                obs, exc = _execute(vcf, run)
            out.extend(check_run(run, pre, obs, exc))
            key, raw, text = _snapshot(vcf, pre)
            pre = State(key, raw, text, None, 0)
    finally:
        shutil.rmtree(d, ignore_errors=True)
    seen = set()
    return [(s, dd) for s, dd in out if not (s in seen or seen.add(s))]
