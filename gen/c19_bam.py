"""C19, BAM splitter part: inputs and drivers for singlecellmultiomics/bamProcessing/bamSplitByTag.py.

* `write_input(path, word)`   one read per letter of the word, in word order (names r0, r1, ...).
* `Monitor`                   stands in for the `pysam` module the splitter sees: counts the output files which are open
                              at the same time and the passes over the input (a runaway guard for the retry loop).
* `call_function(...)`        one call of the real split_bam_by_tag (imported module; Pool -> ScheduledPool).
* `run_main(...)`             the real script executed as `__main__` (runpy) with a command line, so the real
                              `while len(waiting)>0` loop does the passes (Pool -> ScheduledPool).
* `run_main_subprocess(...)`  the same command line in a fresh interpreter with the REAL multiprocessing.Pool(10)
                              (engine workers are daemonic and may not have children).
"""
import contextlib
import os
import runpy
import subprocess
import sys

import pysam as _pysam

from mc import bind
from mc.sched import MultiprocessingShim, Schedule, patched

TAG = 'SM'

# letter -> (tag value or None, kind); ordered simplest first.  Three plain cells; a read without the tag (outside: must be
# ignored, must not stop the pass); a value which needs file-name cleaning (space -> underscore); a different value with the
# SAME cleaned name (both go to one file, in input order); an unmapped, unplaced read which carries the tag of cell A; an
# integer valued tag; a value from which cleaning removes a character ('/' - left in, it would point into a sub-folder).
LETTERS = {
    'a': ('A', 'mapped'),
    'b': ('B', 'mapped'),
    'c': ('C', 'mapped'),
    '-': (None, 'mapped'),
    's': ('X Y', 'mapped'),
    'u': ('X_Y', 'mapped'),
    'm': ('A', 'unmapped'),
    'i': (7, 'mapped'),
    'x': ('D/1', 'mapped'),
}


def header():
    return _pysam.AlignmentHeader.from_dict({'HD': {'VN': '1.6', 'SO': 'unsorted'},
                                             'SQ': [{'SN': 'chr1', 'LN': 100000}, {'SN': 'chr2', 'LN': 100000}],
                                             'RG': [{'ID': 'rg1', 'SM': 'lib'}]})


def make_read(h, i, letter):
    value, kind = LETTERS[letter]
    r = _pysam.AlignedSegment(h)
    r.query_name = f'r{i}'
    seq = 'ACGTTGCA'[i % 8:] + 'ACGTTGCA'[:i % 8] + 'GG'
    r.query_sequence = seq
    r.query_qualities = _pysam.qualitystring_to_array('F' * len(seq))
    if kind == 'unmapped':
        r.flag = 4
        r.reference_id = -1
        r.reference_start = -1
        r.mapping_quality = 0
    else:
        r.flag = 0
        r.reference_id = 0
        r.reference_start = 100 + 10 * i
        r.cigarstring = f'{len(seq)}M'
        r.mapping_quality = 60
    r.next_reference_id = -1
    r.next_reference_start = -1
    r.set_tag('RG', 'rg1')
    if value is not None:
        r.set_tag(TAG, value)
    r.set_tag('ix', i)
    return r


def write_input(path, word):
    h = header()
    with _pysam.AlignmentFile(path, 'wb', header=h) as out:
        for i, letter in enumerate(word):
            out.write(make_read(h, i, letter))


def read_records(path):
    """every record of a BAM as text, in file order (the harness' own reader: the real pysam, never the Monitor)"""
    with _pysam.AlignmentFile(path, 'rb', check_sq=False) as f:
        return [r.to_string() for r in f.fetch(until_eof=True)]


class _Null:
    def write(self, s):
        return len(s)

    def flush(self):
        pass


@contextlib.contextmanager
def silenced():
    """the splitter's progress prints and htslib's log lines (indexing an output which is not coordinate sorted) are dropped;
    cheaper than redirecting the file descriptors for every run"""
    old_out = sys.stdout
    old_verbosity = _pysam.set_verbosity(0)
    sys.stdout = _Null()
    try:
        yield
    finally:
        sys.stdout = old_out
        _pysam.set_verbosity(old_verbosity)


class Runaway(BaseException):
    """the retry loop made more passes over the input than there are cells (BaseException: nothing swallows it)"""


class _Handle:
    """Transparent stand-in for one pysam.AlignmentFile; tells the monitor when an output file is opened / closed."""

    def __init__(self, mon, real, writing):
        self.__dict__['_mon'] = mon
        self.__dict__['_real'] = real
        self.__dict__['_writing'] = writing
        self.__dict__['_open'] = True

    def write(self, read):
        return self._real.write(read)

    def close(self):
        if self._open:
            self.__dict__['_open'] = False
            if self._writing:
                self._mon.now_open -= 1
        return self._real.close()

    def __iter__(self):
        return iter(self._real)

    def __enter__(self):
        return self

    def __exit__(self, *a):
        self.close()
        return False

    def __getattr__(self, name):
        return getattr(self._real, name)

    def __del__(self):
        # a handle dropped without close() is closed by the interpreter when its last reference goes
        try:
            if self._open and self._writing:
                self._mon.now_open -= 1
        except Exception:
            pass


class Monitor:
    """What the splitter sees as `pysam`: everything is the real pysam, AlignmentFile objects are wrapped."""

    def __init__(self, max_passes):
        self.now_open = 0
        self.max_open = 0
        self.passes = 0
        self.opened = []
        self.max_passes = max_passes

    def AlignmentFile(self, *a, **k):
        mode = a[1] if len(a) > 1 else k.get('mode', 'r')
        writing = 'w' in mode
        if not writing:
            self.passes += 1
            if self.passes > self.max_passes:
                raise Runaway(self.passes)
        real = _pysam.AlignmentFile(*a, **k)
        if writing:
            self.now_open += 1
            self.max_open = max(self.max_open, self.now_open)
            self.opened.append(os.path.basename(a[0] if a else k.get('filename')))
        return _Handle(self, real, writing)

    def __getattr__(self, name):
        return getattr(_pysam, name)


def script_path():
    return os.path.join(bind.REPO, 'singlecellmultiomics', 'bamProcessing', 'bamSplitByTag.py')


def call_function(input_bam, prefix, max_handles, head, skip, max_passes=1, use_default_skip=False):
    """One call of the real split_bam_by_tag.  Returns (exception or None, returned value or None, Monitor)."""
    import singlecellmultiomics.bamProcessing.bamSplitByTag as bs
    for name in ('Pool', 'pysam', 'split_bam_by_tag', 'index_bam'):
        bind.seam(bs, name)
    mon = Monitor(max_passes)
    sch = Schedule(order=None, isolate=True, pending='run')
    saved = bs.pysam
    exc = res = None
    kw = {'head': head, 'max_handles': max_handles}
    if not use_default_skip:
        kw['skip'] = skip
    try:
        bs.pysam = mon
        with silenced(), patched(bs, sch, names=('Pool',)):
            try:
                res = bs.split_bam_by_tag(input_bam, prefix, TAG, **kw)
            except (Exception, Runaway) as e:
                exc = e
    finally:
        bs.pysam = saved
    return exc, res, mon


def main_argv(input_bam, out_folder, max_handles, head):
    argv = [input_bam, TAG, '-o_folder', out_folder]
    if max_handles is not None:
        argv += ['-max_handles', str(max_handles)]
    if head is not None:
        argv += ['-head', str(head)]
    return argv


def run_main(argv, max_passes):
    """The real script as __main__ in this process.  Returns (exception or None, Monitor)."""
    import multiprocessing as real_mp
    mon = Monitor(max_passes)
    sch = Schedule(order=None, isolate=True, pending='run')
    path = script_path()
    if not os.path.exists(path):
        raise bind.HarnessError(f'seam-missing {path}')
    saved_argv = sys.argv
    saved_mods = {n: sys.modules.get(n) for n in ('pysam', 'multiprocessing')}
    exc = None
    try:
        sys.argv = [path] + list(argv)
        # the script's `import pysam` / `from multiprocessing import Pool` resolve through sys.modules; the real modules
        # are not modified
        sys.modules['pysam'] = mon
        sys.modules['multiprocessing'] = MultiprocessingShim(real_mp, sch)
        with silenced():
            try:
                runpy.run_path(path, run_name='__main__')
            except (Exception, SystemExit, Runaway) as e:
                if not (isinstance(e, SystemExit) and e.code in (0, None)):
                    exc = e
    finally:
        sys.argv = saved_argv
        for n, m in saved_mods.items():
            if m is None:
                sys.modules.pop(n, None)
            else:
                sys.modules[n] = m
    return exc, mon


def run_main_subprocess(argv, timeout=180):
    """The same command line the way a user runs the installed script: a fresh interpreter executing the file of the tree
    under test, real multiprocessing.Pool(10).  Returns None or an error string."""
    env = dict(os.environ, PYTHONPATH=bind.REPO)
    try:
        p = subprocess.run([sys.executable, script_path()] + list(argv), env=env, stdout=subprocess.DEVNULL,
                           stderr=subprocess.PIPE, timeout=timeout)
    except subprocess.TimeoutExpired:
        return f'no result within {timeout} s'
    if p.returncode != 0:
        return f'exit {p.returncode}: {p.stderr.decode(errors="replace")[-400:]}'
    return None
