"""Bind the run to the tree under test.

The package is pure Python; "rebuilding from /repo's working tree" is importing it in a fresh
interpreter from VERIF_REPO (default /repo).  We hard-fail (exit 2, never a VIOLATION) when the
imported package is not the one under that root.
"""
import os
import sys

REPO = os.path.realpath(os.environ.get('VERIF_REPO', '/repo'))


class HarnessError(Exception):
    """Something is wrong with the harness / binding, not with the property."""


def bind():
    if REPO not in sys.path[:1]:
        sys.path.insert(0, REPO)
    import singlecellmultiomics
    f = os.path.realpath(singlecellmultiomics.__file__)
    if not f.startswith(REPO + os.sep):
        raise HarnessError(f'singlecellmultiomics imported from {f}, expected under {REPO}')
    return singlecellmultiomics


def seam(module, name):
    """Return getattr(module, name) or raise a loud harness error (seam vanished)."""
    if not hasattr(module, name):
        raise HarnessError(f'seam-missing {module.__name__}.{name}')
    return getattr(module, name)
